#!/bin/bash
# offline build of the harness and the hooked CLI binary
set -e
cd "$(dirname "$0")"
./build.sh
