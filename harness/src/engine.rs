//! Single-transition differential engine: one source instruction, assembled by the real
//! Preprocessor, executed by the real Interpreter on a prepared machine state, compared in full
//! with the reference step.

use crate::alu::*;
use crate::ast::*;
use crate::findings::*;
use crate::mach::*;
use crate::pipe::*;
use crate::refexec::*;
use emulator_8086_lib::InterpreterContext;
use serde_json::{json, Value};

/// A source instruction prepared for execution: the program around it was assembled by the real
/// Preprocessor; `line` is what it emitted for the instruction.
pub struct Prepared {
    pub instr: Instr,
    pub src: String,
    pub asm: Asm,
    pub idx: usize,
    pub line: String,
    pub dc: DataCtx,
    pub ictx: InterpreterContext,
}

/// Standard data segment used by single-instruction programs: two labelled variables.
/// `bv` is a byte at offset 3, `wv` a word at offset 6 (offsets chosen to be distinct, non-zero).
pub fn std_data() -> Vec<DataDef> {
    vec![
        DataDef::Arr(None, W::B, 3),
        DataDef::Val(Some("bv".into()), W::B, 0),
        DataDef::Arr(None, W::B, 2),
        DataDef::Val(Some("wv".into()), W::W, 0),
    ]
}
pub const BV_OFF: u16 = 3;
pub const WV_OFF: u16 = 6;

pub fn std_program(i: &Instr) -> Program {
    let mut code = Vec::new();
    // a procedure so that CALL has a target and RET can be tested inside one
    code.push(Item::Proc("fn1".into(), vec![Item::Ins(Instr::Zero(ZeroOp::Stc))]));
    code.push(Item::Label("start".into()));
    code.push(Item::Label("tgt".into()));
    code.push(Item::Ins(i.clone()));
    Program { data: std_data(), code }
}

#[derive(Debug, Clone)]
pub enum PrepErr {
    Rejected(String),
    Panic(String),
    NoLine(String),
}

pub fn prepare_src(i: &Instr, src: String) -> Result<Prepared, PrepErr> {
    let asm = match assemble(&src) {
        Ok(a) => a,
        Err(AsmErr::Diag { msg, .. }) => return Err(PrepErr::Rejected(msg)),
        Err(AsmErr::Panic(m)) => return Err(PrepErr::Panic(m)),
    };
    // the instruction is the one after the procedure (stc, ret) => index 2, unless NOP emitted nothing
    let idx = match asm.labels.get("tgt") {
        Some(l) => l.map,
        None => return Err(PrepErr::NoLine("label tgt missing".into())),
    };
    if idx >= asm.code.len() {
        return Err(PrepErr::NoLine(format!("no line emitted for {:?}", render_instr(i))));
    }
    let line = asm.code[idx].clone();
    let mut dc = DataCtx::default();
    dc.labels.insert("bv".into(), BV_OFF);
    dc.labels.insert("wv".into(), WV_OFF);
    let ictx = asm.ictx();
    Ok(Prepared { instr: i.clone(), src, asm, idx, line, dc, ictx })
}

pub fn prepare(i: &Instr) -> Result<Prepared, PrepErr> {
    prepare_src(i, render(&std_program(i)))
}

#[derive(Debug, Clone)]
pub struct Mismatch {
    pub field: String,
    pub expected: String,
    pub got: String,
    pub got_val: Option<i64>,
    pub exp_val: Option<i64>,
}

const FLAG_FIELDS: [(&str, u16); 9] =
    [("CF", CF), ("PF", PF), ("AF", AF), ("ZF", ZF), ("SF", SF), ("OF", OF), ("TF", TF), ("IF", IF), ("DF", DF)];

fn expected_state(p: &Prepared, o: &Outcome) -> Result<St, String> {
    Ok(match o {
        Outcome::Next => St::Next,
        Outcome::Jump(l) => St::Jmp(p.asm.labels.get(l).map(|x| x.map).ok_or("label")?),
        Outcome::Call(n) => St::Jmp(*p.asm.fns.get(n).ok_or("fn")?),
        Outcome::Ret(x) => St::Jmp(*x),
        Outcome::RetEmpty => return Err("ret-empty".into()),
        Outcome::Halt => St::Halt,
        Outcome::Int(n) => St::Int(*n),
        Outcome::Print => St::Print,
        Outcome::DivErr => St::Int(0),
    })
}

/// Compare one observed (state, regs, call stack, memory) against one admissible reference outcome.
fn compare_one(
    p: &Prepared,
    got_st: &Exec,
    got_regs: &Regs,
    got_stack: &[usize],
    outcome: &Outcome,
    post: &RefM,
    undef: u16,
    pre: &RefM,
) -> Vec<Mismatch> {
    let mut mm = Vec::new();
    // outcome
    match expected_state(p, outcome) {
        Ok(st) => {
            if *got_st != Exec::Ok(st.clone()) {
                mm.push(Mismatch {
                    field: "state".into(),
                    expected: format!("{:?}", st),
                    got: format!("{:?}", got_st),
                    got_val: None,
                    exp_val: None,
                });
                if matches!(got_st, Exec::Panic(_) | Exec::Err(_)) {
                    return mm;
                }
            }
        }
        Err(_) => {
            // ret with empty stack: a reported error is the defined outcome
            if !matches!(got_st, Exec::Err(_)) {
                mm.push(Mismatch {
                    field: "state".into(),
                    expected: "Err(reported)".into(),
                    got: format!("{:?}", got_st),
                    got_val: None,
                    exp_val: None,
                });
            }
        }
    }
    let (exp_regs, mask) = if *outcome == Outcome::DivErr {
        // frame only: AX, DX and the six status flags are undefined after a divide error
        let mut e = pre.r;
        e.ax = got_regs.ax;
        e.dx = got_regs.dx;
        (e, !STATUS6)
    } else {
        (post.r, !undef)
    };
    let ea = exp_regs.as_array();
    let ga = got_regs.as_array();
    for i in 0..13 {
        if ea[i] != ga[i] {
            mm.push(Mismatch {
                field: REG_NAMES[i].into(),
                expected: format!("0x{:04X}", ea[i]),
                got: format!("0x{:04X}", ga[i]),
                got_val: Some(ga[i] as i64),
                exp_val: Some(ea[i] as i64),
            });
        }
    }
    let d = (ea[13] ^ ga[13]) & mask;
    if d != 0 {
        for (n, b) in FLAG_FIELDS.iter() {
            if d & b != 0 {
                mm.push(Mismatch {
                    field: n.to_string(),
                    expected: format!("{}", (ea[13] & b != 0) as u8),
                    got: format!("{}", (ga[13] & b != 0) as u8),
                    got_val: Some((ga[13] & b != 0) as i64),
                    exp_val: Some((ea[13] & b != 0) as i64),
                });
            }
        }
        if d & !ALL9 != 0 {
            mm.push(Mismatch {
                field: "flagbits".into(),
                expected: format!("0x{:04X}", ea[13] & !ALL9),
                got: format!("0x{:04X}", ga[13] & !ALL9),
                got_val: Some((ga[13] & !ALL9) as i64),
                exp_val: Some((ea[13] & !ALL9) as i64),
            });
        }
    }
    if *outcome != Outcome::DivErr && got_stack != post.call_stack.as_slice() {
        mm.push(Mismatch {
            field: "callstack".into(),
            expected: format!("{:?}", post.call_stack),
            got: format!("{:?}", got_stack),
            got_val: None,
            exp_val: None,
        });
    }
    mm
}

pub struct StepObs {
    pub exec: Exec,
    pub calls: usize,
    pub regs: Regs,
    pub mismatches: Vec<Mismatch>,
}

/// Execute `p` on `pre` with the real code and compare with the reference.
/// `check_mem`: full memory comparison (otherwise the caller audits memory per batch).
pub fn diff_step(bench: &mut Bench, m: &Machine, p: &mut Prepared, pre: &RefM, check_mem: bool) -> StepObs {
    bench.load(pre);
    cs_set(&mut p.ictx, &pre.call_stack);
    let horizon = pre.r.cx as usize + 3;
    let (exec, calls) = m.exec_repeat(p.idx, &mut bench.vm, &mut p.ictx, &p.line, horizon);
    let regs = Regs::from_vm(&bench.vm);
    let rs = step(&p.instr, pre, &p.dc, p.idx);
    let stack: Vec<usize> = cs_get(&p.ictx);
    let mut best = compare_one(p, &exec, &regs, &stack, &rs.outcome, &rs.post, rs.undef, pre);
    let mut mem_expect = if rs.outcome == Outcome::DivErr { &pre.m } else { &rs.post.m };
    if !best.is_empty() {
        for (o, post, undef) in rs.alts.iter() {
            let mm = compare_one(p, &exec, &regs, &stack, o, post, *undef, pre);
            if mm.is_empty() {
                best = mm;
                mem_expect = if *o == Outcome::DivErr { &pre.m } else { &post.m };
                break;
            }
        }
    }
    if matches!(exec, Exec::Ok(St::Repeat)) {
        best.push(Mismatch {
            field: "livelock".into(),
            expected: format!("terminates within {} re-issues", horizon),
            got: "still REPEAT".into(),
            got_val: None,
            exp_val: None,
        });
    }
    if check_mem || matches!(exec, Exec::Panic(_)) {
        if let Some((a, e, g)) = bench.check_mem_and_reset(mem_expect) {
            best.push(Mismatch {
                field: "mem".into(),
                expected: format!("[0x{:05X}]=0x{:02X}", a, e),
                got: format!("[0x{:05X}]=0x{:02X}", a, g),
                got_val: Some(g as i64),
                exp_val: Some(e as i64),
            });
        }
    } else {
        // restore preset cells cheaply: write back background at the cells the reference knows about
        bench.restore_cells(mem_expect);
    }
    StepObs { exec, calls, regs, mismatches: best }
}

impl Bench {
    /// Cheap reset used between register-only executions; a later audit (`audit`) catches strays.
    pub fn restore_cells(&mut self, expect: &SMem) {
        for (a, _) in expect.cells.iter() {
            self.vm.mem[*a as usize] = self.bg;
        }
        self.clear_touched();
    }
    pub fn clear_touched(&mut self) {
        let bg = self.bg;
        let t: Vec<u32> = std::mem::take(&mut self.touched);
        for a in t {
            self.vm.mem[a as usize] = bg;
        }
    }
    /// whole-memory audit: everything must be background
    pub fn audit(&mut self) -> Option<(usize, u8)> {
        match self.scan_non_bg() {
            Some(a) => {
                let g = self.vm.mem[a];
                self.hard_reset();
                Some((a, g))
            }
            None => None,
        }
    }
}

pub fn case_json(p: &Prepared, pre: &RefM) -> Value {
    json!({
        "src": p.src,
        "line": p.line,
        "idx": p.idx,
        "regs": pre.r.json(),
        "mem_bg": pre.m.bg,
        "mem": pre.m.cells.iter().map(|(a,v)| json!([a, v])).collect::<Vec<_>>(),
        "call_stack": pre.call_stack,
        "instr": render_instr(&p.instr),
    })
}

/// standard variables for known-finding predicates
pub fn std_vars(pre: &RefM, extra: &[(&str, i64)]) -> Vec<(String, i64)> {
    let f = pre.r.flag;
    let mut v: Vec<(String, i64)> = vec![
        ("cf".into(), (f & CF != 0) as i64),
        ("pf".into(), (f & PF != 0) as i64),
        ("af".into(), (f & AF != 0) as i64),
        ("zf".into(), (f & ZF != 0) as i64),
        ("sf".into(), (f & SF != 0) as i64),
        ("of".into(), (f & OF != 0) as i64),
        ("df".into(), (f & DF != 0) as i64),
        ("fin".into(), f as i64),
        ("ax".into(), pre.r.ax as i64),
        ("bx".into(), pre.r.bx as i64),
        ("cx".into(), pre.r.cx as i64),
        ("dx".into(), pre.r.dx as i64),
        ("sp".into(), pre.r.sp as i64),
        ("bp".into(), pre.r.bp as i64),
        ("si".into(), pre.r.si as i64),
        ("di".into(), pre.r.di as i64),
        ("ds".into(), pre.r.ds as i64),
        ("es".into(), pre.r.es as i64),
        ("ss".into(), pre.r.ss as i64),
        ("cs".into(), pre.r.cs as i64),
    ];
    for (k, x) in extra {
        v.push((k.to_string(), *x));
    }
    v
}

/// Turn the mismatches of one execution into violation reports.
pub fn report_mismatches(
    rep: &Reporter,
    p: &Prepared,
    pre: &RefM,
    obs: &StepObs,
    site: &str,
    extra: &[(&str, i64)],
    weight: u64,
) {
    if obs.mismatches.is_empty() {
        return;
    }
    let mut vars = std_vars(pre, extra);
    for mm in obs.mismatches.iter() {
        vars.retain(|(k, _)| k != "exp");
        if let Some(e) = mm.exp_val {
            vars.push(("exp".into(), e));
        }
        // fast path: absorbed?
        let vr: Vec<(&str, i64)> = vars.iter().map(|(k, x)| (k.as_str(), *x)).collect();
        if rep.absorbed_by(site, &mm.field, &vr, mm.got_val, &mm.got) {
            continue;
        }
        rep.report(Viol {
            site: site.to_string(),
            field: mm.field.clone(),
            vars: vars.clone(),
            got_val: mm.got_val,
            expected: mm.expected.clone(),
            got: mm.got.clone(),
            case: case_json(p, pre),
            weight,
        });
    }
}
