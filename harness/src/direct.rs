//! Parent side of the direct-call sweeps (`src/bin/vdirect.rs`): runs the separately built binary, turns
//! its mismatch classes into violations of the calling property, and returns what it covered for the evidence.
//!
//! `vdirect` is the only code that depends on the signatures of `instructions::*`; build.sh builds it after
//! the main binary and tolerates a failure (recorded in target/vdirect.status). When it is unavailable the
//! property's verdict rests on the pipeline-level sweeps alone and the evidence says so.

use crate::findings::*;
use crate::props::common::Counters;
use serde_json::{json, Value};
use std::process::Command;

fn vdirect_bin() -> String {
    format!("{}/target/harness/release/vdirect", crate::cli::home())
}

/// Is the binary there and not older than the main binary's build (a stale vdirect from before an API change
/// must not be trusted)?
fn available() -> Result<(), String> {
    let status = std::fs::read_to_string(format!("{}/target/vdirect.status", crate::cli::home())).unwrap_or_default();
    if !status.trim().starts_with("ok") {
        return Err(format!("vdirect was not built: {}", status.trim()));
    }
    if !std::path::Path::new(&vdirect_bin()).exists() {
        return Err("vdirect binary missing".into());
    }
    Ok(())
}

/// Run one group of direct sweeps; mismatch classes are reported under `rep`'s property.
pub fn run_group(rep: &Reporter, c: &Counters, group: &str, tier: &str) -> Value {
    if let Err(e) = available() {
        return json!({"group": group, "available": false, "reason": e});
    }
    let out = match Command::new(vdirect_bin()).arg(group).arg(tier).output() {
        Ok(o) => o,
        Err(e) => return json!({"group": group, "available": false, "reason": format!("cannot run vdirect: {}", e)}),
    };
    let txt = String::from_utf8_lossy(&out.stdout).to_string();
    let v: Value = match serde_json::from_str(txt.trim()) {
        Ok(v) => v,
        Err(_) => {
            // the child died (abort, stack overflow ...): that is an observation about the repository's functions,
            // but without a case it cannot be a verdict; say so
            return json!({"group": group, "available": false, "reason": format!("vdirect ended with {:?} without a result", out.status)});
        }
    };
    let evals = v["evaluations"].as_u64().unwrap_or(0);
    c.add_exec(evals);
    c.states.fetch_add(evals, std::sync::atomic::Ordering::Relaxed);
    for cl in v["classes"].as_array().cloned().unwrap_or_default() {
        let g = |k: &str| cl[k].as_i64().unwrap_or(0);
        let func = cl["function"].as_str().unwrap_or("").to_string();
        let fl = g("flags");
        let vars: Vec<(String, i64)> = vec![
            ("a".into(), g("a")),
            ("b".into(), g("b")),
            ("hi".into(), g("hi")),
            ("w".into(), 16),
            ("cin".into(), fl & 1),
            ("cf".into(), fl & 1),
            ("zf".into(), (fl >> 6) & 1),
            ("sf".into(), (fl >> 7) & 1),
            ("of".into(), (fl >> 11) & 1),
        ];
        rep.report(Viol {
            site: cl["site"].as_str().unwrap_or("direct").to_string(),
            field: cl["field"].as_str().unwrap_or("").to_string(),
            vars,
            got_val: cl["got_val"].as_i64(),
            expected: cl["expected"].as_str().unwrap_or("").to_string(),
            got: format!("{} ({} operand combinations in this class)", cl["got"].as_str().unwrap_or(""), cl["count"]),
            case: json!({"direct": func, "a": g("a"), "b": g("b"), "hi": g("hi"), "flags": format!("0x{:04X}", fl),
                "how": format!("{} one {} {} {} {} {}", vdirect_bin(), func, g("a"), g("b"), fl, g("hi"))}),
            weight: (g("a") + g("b") + g("hi")) as u64,
        });
    }
    let mut r = v.clone();
    if let Some(o) = r.as_object_mut() {
        o.remove("classes");
        o.insert("available".into(), json!(true));
        o.insert("mismatch_classes".into(), json!(v["classes"].as_array().map(|a| a.len()).unwrap_or(0)));
    }
    r
}

pub fn replay(case: &Value) -> i32 {
    let func = case["direct"].as_str().unwrap_or("");
    let fl = u16::from_str_radix(case["flags"].as_str().unwrap_or("0x0").trim_start_matches("0x"), 16).unwrap_or(0);
    let st = Command::new(vdirect_bin())
        .arg("one")
        .arg(func)
        .arg(case["a"].to_string())
        .arg(case["b"].to_string())
        .arg(fl.to_string())
        .arg(case["hi"].to_string())
        .status();
    match st {
        Ok(s) if s.success() => 0,
        _ => 2,
    }
}
