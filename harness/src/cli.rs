//! Runner for the real CLI binary (built from /repo's working tree with the verif_hooks feature):
//! generated source file, scripted stdin, wall-clock watchdog, output cap.

use std::io::Write;
use std::os::unix::io::AsRawFd;
use std::process::{Command, Stdio};
use std::sync::atomic::{AtomicU64, Ordering};
use std::time::{Duration, Instant};

/// root of the verification tree: /verif, or a snapshot of it when VERIF_HOME is set (used to try
/// seeded changes on a copy while /verif and /repo are being worked on)
pub fn home() -> String {
    std::env::var("VERIF_HOME").unwrap_or_else(|_| "/verif".to_string())
}
pub fn cli_bin() -> String {
    format!("{}/target/cli/release/emulator_8086", home())
}
pub fn run_dir() -> String {
    format!("{}/target/run", home())
}

static SEQ: AtomicU64 = AtomicU64::new(0);
pub static CLI_RUNS: AtomicU64 = AtomicU64::new(0);

#[derive(Clone, Debug, PartialEq, Eq)]
pub struct CliOut {
    pub status: Option<i32>,
    pub signal: Option<i32>,
    pub timed_out: bool,
    pub capped: bool,
    pub stdout: Vec<u8>,
    pub stderr: Vec<u8>,
    pub wall_ms: u64,
    pub max_rss_kb: u64,
    /// user + system CPU time of the child in milliseconds (independent of the load on the machine)
    pub cpu_ms: u64,
}

impl CliOut {
    pub fn out(&self) -> String {
        String::from_utf8_lossy(&self.stdout).to_string()
    }
    pub fn err(&self) -> String {
        String::from_utf8_lossy(&self.stderr).to_string()
    }
    /// abnormal end: panic exit code, signal, watchdog or output cap
    pub fn abnormal(&self) -> Option<String> {
        if self.timed_out {
            return Some("timeout".into());
        }
        if self.capped {
            return Some("output-cap".into());
        }
        if let Some(s) = self.signal {
            return Some(format!("signal {}", s));
        }
        match self.status {
            Some(0) | Some(1) => None,
            Some(c) => Some(format!("exit {}", c)),
            None => Some("no status".into()),
        }
    }
    pub fn summary(&self) -> String {
        format!(
            "status={:?} signal={:?} timeout={} capped={} stdout={:?} stderr={:?}",
            self.status,
            self.signal,
            self.timed_out,
            self.capped,
            trunc(&self.out(), 600),
            trunc(&self.err(), 300)
        )
    }
}

fn trunc(s: &str, n: usize) -> String {
    if s.len() <= n {
        s.to_string()
    } else {
        let mut e = n;
        while !s.is_char_boundary(e) {
            e -= 1;
        }
        format!("{}…", &s[..e])
    }
}

#[derive(Clone, Debug)]
pub struct CliOpts {
    pub interpreted: bool,
    pub order: Option<u64>,
    pub timeout_ms: u64,
    pub cap: usize,
    /// standard input is a directory: every read fails (EISDIR) instead of returning data or end of file
    pub stdin_unreadable: bool,
    /// the complete argument list instead of `<file> [-i]`; the element "{FILE}" stands for the source file
    pub argv: Option<Vec<String>>,
    /// deliver the standard input in pieces of this many bytes with this many milliseconds between them (the
    /// content is the same; a reader that takes "what is there right now" for a line shows a different output)
    pub stdin_pieces: Option<(usize, u64)>,
}

impl Default for CliOpts {
    fn default() -> Self {
        CliOpts { interpreted: false, order: None, timeout_ms: 4000, cap: 1 << 20, stdin_unreadable: false, argv: None, stdin_pieces: None }
    }
}

pub fn ensure_bin() {
    if !std::path::Path::new(&cli_bin()).exists() {
        eprintln!("MACHINERY: CLI binary {} missing (run ./build.sh)", cli_bin());
        std::process::exit(2);
    }
    let _ = std::fs::create_dir_all(run_dir());
}

static TIMEOUT_RETRIES: AtomicU64 = AtomicU64::new(0);
static RETRY_LOCK: std::sync::Mutex<()> = std::sync::Mutex::new(());

/// Run the CLI on source bytes with the given stdin script (pipe closed after the script).
/// A watchdog expiry is double-checked before it is believed: the run is repeated once, alone (the
/// retries are serialised) and with five times the time limit, so that a heavily loaded machine does not
/// turn into a verdict. The retries of one process may take 10 minutes in all: a tree that really hangs
/// everywhere must not make the check take hours.
pub fn run_cli_bytes(src: &[u8], stdin: &[u8], o: &CliOpts) -> CliOut {
    let out = run_cli_once(src, stdin, o);
    if out.timed_out && !out.capped {
        // the budget is time, not a count: all retries of one process together may take 10 minutes
        let _g = RETRY_LOCK.lock().unwrap_or_else(|e| e.into_inner());
        if TIMEOUT_RETRIES.load(Ordering::Relaxed) < 600_000 {
            let mut o2 = o.clone();
            o2.timeout_ms = o.timeout_ms * 5;
            let t0 = Instant::now();
            let again = run_cli_once(src, stdin, &o2);
            TIMEOUT_RETRIES.fetch_add(t0.elapsed().as_millis() as u64, Ordering::Relaxed);
            return again;
        }
    }
    out
}

fn run_cli_once(src: &[u8], stdin: &[u8], o: &CliOpts) -> CliOut {
    let n = SEQ.fetch_add(1, Ordering::Relaxed);
    CLI_RUNS.fetch_add(1, Ordering::Relaxed);
    let path = format!("{}/{}-{}.s", run_dir(), std::process::id(), n);
    std::fs::write(&path, src).expect("write source");
    let mut cmd = Command::new(cli_bin());
    match &o.argv {
        Some(av) => {
            for a in av {
                if a == "{FILE}" {
                    cmd.arg(&path);
                } else {
                    cmd.arg(a);
                }
            }
        }
        None => {
            cmd.arg(&path);
            if o.interpreted {
                cmd.arg("-i");
            }
        }
    }
    match o.order {
        Some(k) => {
            cmd.env("VERIF_ORDER", k.to_string());
        }
        None => {
            cmd.env_remove("VERIF_ORDER");
        }
    }
    cmd.env("RUST_BACKTRACE", "0");
    if o.stdin_unreadable {
        cmd.stdin(Stdio::from(std::fs::File::open("/").expect("open /")));
    } else {
        cmd.stdin(Stdio::piped());
    }
    cmd.stdout(Stdio::piped()).stderr(Stdio::piped());
    let t0 = Instant::now();
    let mut child = cmd.spawn().expect("spawn CLI");
    // the script is written by a helper thread (a script longer than the pipe capacity would block
    // against a child that is itself blocked writing its output); a child that exits early gives
    // EPIPE, ignored; the pipe is closed when the script is written
    let writer = if o.stdin_unreadable {
        None
    } else {
        let mut si = child.stdin.take().unwrap();
        if let Some((n, ms)) = o.stdin_pieces {
            let data = stdin.to_vec();
            Some(std::thread::spawn(move || {
                for piece in data.chunks(n.max(1)) {
                    if si.write_all(piece).is_err() {
                        break;
                    }
                    let _ = si.flush();
                    std::thread::sleep(Duration::from_millis(ms));
                }
            }))
        } else if stdin.len() <= 4096 {
            let _ = si.write_all(stdin);
            None
        } else {
            let data = stdin.to_vec();
            Some(std::thread::spawn(move || {
                let _ = si.write_all(&data);
            }))
        }
    };
    let mut so = child.stdout.take().unwrap();
    let mut se = child.stderr.take().unwrap();
    let fds = [so.as_raw_fd(), se.as_raw_fd()];
    for fd in fds.iter() {
        unsafe {
            let fl = libc::fcntl(*fd, libc::F_GETFL);
            libc::fcntl(*fd, libc::F_SETFL, fl | libc::O_NONBLOCK);
        }
    }
    let mut out = Vec::new();
    let mut err = Vec::new();
    let mut open = [true, true];
    let mut timed_out = false;
    let mut capped = false;
    let deadline = t0 + Duration::from_millis(o.timeout_ms);
    let mut buf = vec![0u8; 65536];
    while open[0] || open[1] {
        let now = Instant::now();
        if now >= deadline {
            timed_out = true;
            break;
        }
        let mut pfds: Vec<libc::pollfd> = Vec::new();
        for k in 0..2 {
            if open[k] {
                pfds.push(libc::pollfd { fd: fds[k], events: libc::POLLIN, revents: 0 });
            }
        }
        let ms = (deadline - now).as_millis().min(200) as i32;
        let rc = unsafe { libc::poll(pfds.as_mut_ptr(), pfds.len() as libc::nfds_t, ms) };
        if rc < 0 {
            continue;
        }
        for p in pfds.iter() {
            if p.revents == 0 {
                continue;
            }
            let k = if p.fd == fds[0] { 0 } else { 1 };
            loop {
                let r = unsafe { libc::read(p.fd, buf.as_mut_ptr() as *mut libc::c_void, buf.len()) };
                if r > 0 {
                    let dst = if k == 0 { &mut out } else { &mut err };
                    dst.extend_from_slice(&buf[..r as usize]);
                    if dst.len() > o.cap {
                        capped = true;
                        break;
                    }
                } else if r == 0 {
                    open[k] = false;
                    break;
                } else {
                    let e = std::io::Error::last_os_error();
                    if e.kind() == std::io::ErrorKind::WouldBlock {
                        break;
                    }
                    if e.kind() == std::io::ErrorKind::Interrupted {
                        continue;
                    }
                    open[k] = false;
                    break;
                }
            }
        }
        if capped {
            break;
        }
    }
    if timed_out || capped {
        let _ = child.kill();
    }
    if let Some(w) = writer {
        let _ = w.join();
    }
    // reap with wait4 to learn the child's peak resident set size
    let (code, sig, max_rss_kb, cpu_ms) = unsafe {
        let mut st: libc::c_int = 0;
        let mut ru: libc::rusage = std::mem::zeroed();
        let r = libc::wait4(child.id() as libc::pid_t, &mut st, 0, &mut ru);
        let cpu = (ru.ru_utime.tv_sec as u64 + ru.ru_stime.tv_sec as u64) * 1000 + (ru.ru_utime.tv_usec as u64 + ru.ru_stime.tv_usec as u64) / 1000;
        if r < 0 {
            (None, None, 0, 0)
        } else if libc::WIFEXITED(st) {
            (Some(libc::WEXITSTATUS(st)), None, ru.ru_maxrss as u64, cpu)
        } else if libc::WIFSIGNALED(st) {
            (None, Some(libc::WTERMSIG(st)), ru.ru_maxrss as u64, cpu)
        } else {
            (None, None, ru.ru_maxrss as u64, cpu)
        }
    };
    drop(so);
    drop(se);
    let _ = std::fs::remove_file(&path);
    let (status, signal) = if timed_out || capped { (None, None) } else { (code, sig) };
    CliOut { status, signal, timed_out, capped, stdout: out, stderr: err, wall_ms: t0.elapsed().as_millis() as u64, max_rss_kb, cpu_ms }
}

pub fn run_cli(src: &str, stdin: &str, o: &CliOpts) -> CliOut {
    run_cli_bytes(src.as_bytes(), stdin.as_bytes(), o)
}

// ---------------------------------------------------------------------------------------------
// tolerant parsers of the CLI's output

/// `AX : 0x1234` pairs of a `print reg` block
pub fn parse_regs(text: &str) -> Vec<(String, u16)> {
    let re = regex::Regex::new(r"\b([A-Z]{2}) : 0x([0-9A-F]{4})\b").unwrap();
    re.captures_iter(text)
        .map(|c| (c[1].to_string(), u16::from_str_radix(&c[2], 16).unwrap()))
        .collect()
}

/// `OF : 1` pairs of a `print flags` line
pub fn parse_flags(text: &str) -> Vec<(String, u8)> {
    let re = regex::Regex::new(r"\b([A-Z]F) : ([01])\b").unwrap();
    re.captures_iter(text).map(|c| (c[1].to_string(), c[2].parse().unwrap())).collect()
}

/// two-hex-digit cells of memory dump lines; returns rows
pub fn parse_mem_rows(text: &str) -> Vec<Vec<u8>> {
    let mut rows = Vec::new();
    for l in text.lines() {
        let toks: Vec<&str> = l.split_whitespace().collect();
        if toks.is_empty() {
            continue;
        }
        if toks.iter().all(|t| t.len() == 2 && t.chars().all(|c| c.is_ascii_hexdigit())) {
            rows.push(toks.iter().map(|t| u8::from_str_radix(t, 16).unwrap()).collect());
        }
    }
    rows
}

/// Split stdout into the sections introduced by "Output of line N : text :" headers.
#[derive(Clone, Debug, PartialEq, Eq)]
pub struct Section {
    pub line: usize,
    pub text: String,
    pub body: String,
}

pub fn sections(out: &str) -> (String, Vec<Section>) {
    let re = regex::Regex::new(r"(?m)^.*Output of line (\d+) : (.*) :\s*$").unwrap();
    let mut secs = Vec::new();
    let mut last_end = 0;
    let mut pre = String::new();
    let mut cur: Option<(usize, String, usize)> = None;
    for c in re.captures_iter(out) {
        let m = c.get(0).unwrap();
        match cur.take() {
            Some((line, text, start)) => {
                secs.push(Section { line, text, body: out[start..m.start()].to_string() });
            }
            None => pre = out[..m.start()].to_string(),
        }
        cur = Some((c[1].parse().unwrap(), c[2].to_string(), m.end()));
        last_end = m.end();
    }
    let _ = last_end;
    match cur {
        Some((line, text, start)) => secs.push(Section { line, text, body: out[start..].to_string() }),
        None => pre = out.to_string(),
    }
    (pre, secs)
}
