//! Reference interpreter for whole programs, working on the source AST (never on emitted lines):
//! data image, flattening in source order, control flow, prints, interrupts and prompts.

use crate::alu::*;
use crate::ast::*;
use crate::mach::*;
use crate::refexec::*;
use std::collections::HashMap;

#[derive(Clone, Debug)]
pub struct FlatIns {
    pub instr: Instr,
    /// 1-based source line in the canonical rendering (one item per line)
    pub line: usize,
    /// true for the `ret` implied by a procedure's closing brace
    pub implied: bool,
    /// depth of macro expansion this instruction came from (0 = written directly)
    pub from_macro: bool,
}

#[derive(Clone, Debug, Default)]
pub struct Flat {
    pub ins: Vec<FlatIns>,
    pub labels: HashMap<String, usize>,
    pub procs: HashMap<String, usize>,
    pub dc: DataCtx,
    /// (physical address, byte) image of the data definitions
    pub image: Vec<(u32, u8)>,
    /// label -> (segment, offset)
    pub data_labels: HashMap<String, (u16, u32)>,
    /// true if some segment's definitions exceed 64 KiB
    pub segment_overflow: bool,
}

/// Lay out the data definitions: contiguous from offset 0 of the segment selected by the most
/// recent SET (segment 0 before any SET), in source order.
pub fn layout_data(data: &[DataDef]) -> (Vec<(u32, u8)>, HashMap<String, (u16, u32)>, bool) {
    let mut seg: u16 = 0;
    let mut off: u32 = 0;
    let mut image: Vec<(u32, u8)> = Vec::new();
    let mut labels = HashMap::new();
    let mut overflow = false;
    for d in data {
        match d {
            DataDef::Set(n) => {
                seg = *n;
                off = 0;
            }
            _ => {
                if let Some(l) = d.label() {
                    labels.insert(l.clone(), (seg, off));
                }
                let bytes = d.bytes();
                for b in bytes {
                    let a = ((seg as u32) * 16 + off) & 0xFFFFF;
                    image.push((a, b));
                    off += 1;
                }
                if off > 0x10000 {
                    overflow = true;
                }
            }
        }
    }
    (image, labels, overflow)
}

/// Flatten a program in source order. `macro_bodies` gives, for macros used in the program, the
/// items a use expands to (the generator keeps them in sync with the macro's body text).
pub fn flatten(p: &Program, macro_bodies: &HashMap<String, Vec<Item>>) -> Flat {
    let mut f = Flat::default();
    let (image, dl, ovf) = layout_data(&p.data);
    f.image = image;
    f.segment_overflow = ovf;
    for (k, (_, off)) in dl.iter() {
        f.dc.labels.insert(k.clone(), *off as u16);
    }
    f.data_labels = dl;
    let mut line = p.data.len(); // data definitions occupy one line each
    fn walk(
        items: &[Item],
        f: &mut Flat,
        line: &mut usize,
        macro_bodies: &HashMap<String, Vec<Item>>,
        fixed_line: Option<usize>,
    ) {
        for it in items {
            let here = match fixed_line {
                Some(l) => l,
                None => {
                    *line += 1;
                    *line
                }
            };
            match it {
                Item::Label(l) => {
                    f.labels.insert(l.clone(), f.ins.len());
                }
                Item::Ins(i) => {
                    if *i != Instr::Zero(ZeroOp::Nop) {
                        f.ins.push(FlatIns { instr: i.clone(), line: here, implied: false, from_macro: fixed_line.is_some() });
                    }
                }
                Item::Proc(n, body) => {
                    f.procs.insert(n.clone(), f.ins.len());
                    walk(body, f, line, macro_bodies, fixed_line);
                    let close = match fixed_line {
                        Some(l) => l,
                        None => {
                            *line += 1;
                            *line
                        }
                    };
                    f.ins.push(FlatIns { instr: Instr::Zero(ZeroOp::Ret), line: close, implied: true, from_macro: false });
                }
                Item::MacroDef(..) => {}
                Item::MacroUse(n, _) => {
                    if let Some(b) = macro_bodies.get(n) {
                        // everything a macro use emits is attributed to the line of the (outermost) use
                        walk(b, f, line, macro_bodies, Some(here));
                    }
                }
            }
        }
    }
    walk(&p.code, &mut f, &mut line, macro_bodies, None);
    f
}

#[derive(Clone, Debug, PartialEq, Eq)]
pub enum Ev {
    /// a print statement of the program executed at `line`
    Print { line: usize, kind: PrintKind, regs: Regs, bytes: Option<Vec<u8>> },
    /// bytes written by an interrupt service
    Out(Vec<u8>),
    DivErr { line: usize },
    Unsupported { line: usize, int: u8, ah: u8 },
    /// INT 3 reached (a prompt follows)
    Int3 { line: usize },
    /// single-step prompt before the instruction at `line`
    StepPrompt { line: usize, tf: bool },
    /// a print command answered at a prompt
    PromptPrint { kind: PrintKind, regs: Regs, bytes: Option<Vec<u8>> },
    /// garbage at a prompt
    PromptInvalid,
    /// q / quit at a prompt
    Quit,
    /// end of input at a prompt
    PromptEof,
}

#[derive(Clone, Debug, PartialEq, Eq)]
pub enum Stop {
    Halt,
    EndOfProgram,
    DivErr,
    Unsupported,
    RetEmpty,
    Horizon,
    Quit,
    PromptEof,
    NoStart,
}

#[derive(Clone, Debug)]
pub struct RefRun {
    pub events: Vec<Ev>,
    /// indices into Flat::ins, in execution order (a REP instruction counts once)
    pub trace: Vec<usize>,
    pub stop: Stop,
    pub fin: RefM,
    pub steps: usize,
    /// number of stdin lines consumed (prompts and input services)
    pub stdin_used: usize,
    /// number of prompts shown (single-step and INT 3)
    pub prompts: usize,
}

/// bytes a print-mem command shows, or None if the range must be reported instead
pub fn print_bytes(kind: &PrintKind, s: &RefM) -> Option<Vec<u8>> {
    let (start, end): (u64, u64) = match kind {
        PrintKind::Flags | PrintKind::Reg => return None,
        // a constant of 2^20 or more is outside the memory space: reported, never wrapped
        PrintKind::MemRange(a, b) => (*a as u64, *b as u64),
        PrintKind::MemLen(a, n) => (*a as u64, *a as u64 + *n as u64),
        PrintKind::MemDs(n) => {
            let a = s.r.ds as u64 * 16;
            (a, a + *n as u64)
        }
    };
    if start > end || end >= (1 << 20) {
        return None;
    }
    Some((start..=end).map(|a| s.m.get(a as u32)).collect())
}

#[derive(Clone, Debug, Default)]
pub struct RunOpts {
    /// stdin lines (without newline); None at a position = not used
    pub stdin: Vec<String>,
    /// true if the last line has no trailing newline (irrelevant for most services)
    pub interpreted: bool,
    pub horizon: usize,
    /// INT 21h/0Ah encoding: false = plain, true = DOS style (see `run`)
    pub dos_0a: bool,
    /// single-stepping a REP-prefixed instruction: false = one prompt for the instruction,
    /// true = one prompt before every iteration (what the 8086 trap flag does)
    pub rep_prompt_per_iteration: bool,
}

pub fn initial_machine(f: &Flat) -> RefM {
    let mut s = RefM { r: Regs::default(), m: SMem::new(0), call_stack: vec![] };
    s.r.flag = 0xF000;
    s.r.cs = 0xFFFF;
    for (a, b) in f.image.iter() {
        s.m.set(*a, *b);
    }
    s
}

fn fin_run(events: Vec<Ev>, trace: Vec<usize>, stop: Stop, fin: RefM, steps: usize, stdin_used: usize) -> RefRun {
    let prompts = events.iter().filter(|e| matches!(e, Ev::StepPrompt { .. } | Ev::Int3 { .. })).count();
    RefRun { events, trace, stop, fin, steps, stdin_used, prompts }
}

/// one iteration of a REP-prefixed string instruction; returns true if another iteration follows
pub fn rep_iteration(r: Rep, op: StrOp, w: W, s: &mut RefM) -> bool {
    if s.r.cx == 0 {
        return false;
    }
    string_step(op, w, s);
    s.r.cx = s.r.cx.wrapping_sub(1);
    if s.r.cx == 0 {
        return false;
    }
    if op.compares() {
        if let Some(want) = r.want_zf() {
            if (s.r.flag & ZF != 0) != want {
                return false;
            }
        }
    }
    true
}

/// parse a prompt answer into a print kind (decimal constants only are certain; other radices are
/// parsed too, as syntax.md promises the same syntax as in programs)
pub fn parse_prompt_print(line: &str) -> Option<PrintKind> {
    let t: Vec<&str> = line.split_whitespace().collect();
    if t.len() < 2 || t[0] != "print" {
        return None;
    }
    let num = |s: &str| -> Option<u32> {
        let s = s.trim();
        let digits_ok = |d: &str, r: u32| !d.is_empty() && d.chars().all(|c| c.is_digit(r));
        let v = if let Some(h) = s.strip_prefix("0x") {
            if !digits_ok(h, 16) {
                return None;
            }
            u64::from_str_radix(h, 16).unwrap_or(u64::MAX)
        } else if let Some(b) = s.strip_prefix("0b") {
            if !digits_ok(b, 2) {
                return None;
            }
            u64::from_str_radix(b, 2).unwrap_or(u64::MAX)
        } else {
            if !digits_ok(s, 10) {
                return None;
            }
            s.parse::<u64>().unwrap_or(u64::MAX)
        };
        // anything that does not fit is "some constant beyond the memory space"
        Some(v.min(u32::MAX as u64) as u32)
    };
    match t[1] {
        "flags" if t.len() == 2 => Some(PrintKind::Flags),
        "reg" if t.len() == 2 => Some(PrintKind::Reg),
        "mem" => {
            let rest = t[2..].join(" ");
            if let Some((a, b)) = rest.split_once("->") {
                return Some(PrintKind::MemRange(num(a)?, num(b)?));
            }
            if let Some((a, b)) = rest.split_once(':') {
                if a.trim().is_empty() {
                    return Some(PrintKind::MemDs(num(b)?));
                }
                return Some(PrintKind::MemLen(num(a)?, num(b)?));
            }
            None
        }
        _ => None,
    }
}

/// Run the flattened program on the reference machine.
pub fn run(f: &Flat, o: &RunOpts) -> RefRun {
    let mut s = initial_machine(f);
    let n_stdin = o.stdin.len();
    let mut events = Vec::new();
    let mut trace = Vec::new();
    let mut stdin = o.stdin.iter();
    let horizon = if o.horizon == 0 { 100_000 } else { o.horizon };
    let mut idx = match f.labels.get("start") {
        Some(i) => *i,
        None => return RefRun { events, trace, stop: Stop::NoStart, fin: s, steps: 0, stdin_used: 0, prompts: 0 },
    };
    let mut steps = 0;
    // prompt loop shared by single stepping and INT 3; returns Some(stop) if the run ends there
    fn prompt(
        s: &RefM,
        events: &mut Vec<Ev>,
        stdin: &mut std::slice::Iter<String>,
    ) -> Option<Stop> {
        loop {
            match stdin.next() {
                None => {
                    events.push(Ev::PromptEof);
                    return Some(Stop::PromptEof);
                }
                Some(l) => {
                    let t = l.trim().to_ascii_lowercase();
                    if t == "n" || t == "next" {
                        return None;
                    }
                    if t == "q" || t == "quit" {
                        events.push(Ev::Quit);
                        return Some(Stop::Quit);
                    }
                    match parse_prompt_print(&t) {
                        Some(k) => {
                            let bytes = print_bytes(&k, s);
                            events.push(Ev::PromptPrint { kind: k, regs: s.r, bytes });
                        }
                        None => events.push(Ev::PromptInvalid),
                    }
                }
            }
        }
    }
    loop {
        if idx >= f.ins.len() {
            return fin_run(events, trace, Stop::EndOfProgram, s, steps, n_stdin - stdin.len());
        }
        if steps >= horizon {
            return fin_run(events, trace, Stop::Horizon, s, steps, n_stdin - stdin.len());
        }
        steps += 1;
        let fi = &f.ins[idx];
        let tf = s.r.flag & TF != 0;
        if o.interpreted || tf {
            events.push(Ev::StepPrompt { line: fi.line, tf });
            if let Some(st) = prompt(&s, &mut events, &mut stdin) {
                return fin_run(events, trace, st, s, steps, n_stdin - stdin.len());
            }
        }
        trace.push(idx);
        if let Instr::Str(Some(r), op, w) = &fi.instr {
            if o.rep_prompt_per_iteration && (o.interpreted || tf) {
                while rep_iteration(*r, *op, *w, &mut s) {
                    events.push(Ev::StepPrompt { line: fi.line, tf });
                    if let Some(st) = prompt(&s, &mut events, &mut stdin) {
                        return fin_run(events, trace, st, s, steps, n_stdin - stdin.len());
                    }
                }
                idx += 1;
                continue;
            }
        }
        let rs = step(&fi.instr, &s, &f.dc, idx);
        // DivErr leaves the machine as it was
        match rs.outcome {
            Outcome::DivErr => {
                events.push(Ev::DivErr { line: fi.line });
                return fin_run(events, trace, Stop::DivErr, s, steps, n_stdin - stdin.len());
            }
            Outcome::RetEmpty => {
                return fin_run(events, trace, Stop::RetEmpty, s, steps, n_stdin - stdin.len());
            }
            _ => {}
        }
        s = rs.post;
        match rs.outcome {
            Outcome::Next => idx += 1,
            Outcome::Jump(l) => idx = *f.labels.get(&l).expect("label"),
            Outcome::Call(n) => idx = *f.procs.get(&n).expect("proc"),
            Outcome::Ret(p) => idx = p,
            Outcome::Halt => return fin_run(events, trace, Stop::Halt, s, steps, n_stdin - stdin.len()),
            Outcome::Print => {
                if let Instr::Print(k) = &fi.instr {
                    let bytes = print_bytes(k, &s);
                    events.push(Ev::Print { line: fi.line, kind: k.clone(), regs: s.r, bytes });
                }
                idx += 1;
            }
            Outcome::Int(n) => {
                let ah = (s.r.ax >> 8) as u8;
                match n {
                    3 => {
                        events.push(Ev::Int3 { line: fi.line });
                        if let Some(st) = prompt(&s, &mut events, &mut stdin) {
                            return fin_run(events, trace, st, s, steps, n_stdin - stdin.len());
                        }
                    }
                    0x10 => match ah {
                        0x0A => {
                            let al = (s.r.ax & 0xFF) as u8;
                            events.push(Ev::Out(vec![al; s.r.cx as usize]));
                        }
                        0x13 => {
                            let dl = (s.r.dx & 0xFF) as usize;
                            let mut v = vec![b' '; dl];
                            for k in 0..s.r.cx as u32 {
                                v.push(s.m.get(phys(s.r.es, s.r.bp.wrapping_add(k as u16))));
                            }
                            events.push(Ev::Out(v));
                        }
                        _ => {
                            events.push(Ev::Unsupported { line: fi.line, int: n, ah });
                            return fin_run(events, trace, Stop::Unsupported, s, steps, n_stdin - stdin.len());
                        }
                    },
                    0x21 => match ah {
                        0x01 => {
                            let b = match stdin.next() {
                                Some(l) => *l.as_bytes().get(0).unwrap_or(&b'\n'),
                                None => 0,
                            };
                            s.r.ax = (s.r.ax & 0xFF00) | b as u16;
                        }
                        0x02 => {
                            let dl = (s.r.dx & 0xFF) as u8;
                            events.push(Ev::Out(vec![dl]));
                            s.r.ax = (s.r.ax & 0xFF00) | dl as u16;
                        }
                        0x0A => {
                            // buffered input: [capacity][count][bytes...] at DS:DX; the line terminator is
                            // not part of the line. Two admissible encodings (RunOpts::dos_0a):
                            // plain: count = min(len, capacity), exactly those bytes stored;
                            // DOS:   the capacity includes a carriage return that is stored after the
                            //        text but not counted
                            let line: Vec<u8> = match stdin.next() {
                                Some(l) => l.as_bytes().to_vec(),
                                None => Vec::new(),
                            };
                            let at = |k: u32| phys(s.r.ds, s.r.dx.wrapping_add(k as u16));
                            let cap = s.m.get(at(0)) as usize;
                            if o.dos_0a {
                                let n = line.len().min(cap.saturating_sub(1));
                                s.m.set(at(1), n as u8);
                                for (k, b) in line.iter().take(n).enumerate() {
                                    s.m.set(at(2 + k as u32), *b);
                                }
                                if cap > 0 {
                                    s.m.set(at(2 + n as u32), 0x0D);
                                }
                            } else {
                                let n = line.len().min(cap);
                                s.m.set(at(1), n as u8);
                                for (k, b) in line.iter().take(n).enumerate() {
                                    s.m.set(at(2 + k as u32), *b);
                                }
                            }
                        }
                        _ => {
                            events.push(Ev::Unsupported { line: fi.line, int: n, ah });
                            return fin_run(events, trace, Stop::Unsupported, s, steps, n_stdin - stdin.len());
                        }
                    },
                    _ => {}
                }
                idx += 1;
            }
            Outcome::DivErr | Outcome::RetEmpty => unreachable!(),
        }
    }
}
