//! Abstract syntax of source programs (the syntax of syntax.md) and a renderer to source text.

use crate::alu::{AdjOp, BinOp, MulOp, ShOp, UnOp, W};

pub const REG8: [&str; 8] = ["al", "cl", "dl", "bl", "ah", "ch", "dh", "bh"];
pub const REG16: [&str; 8] = ["ax", "cx", "dx", "bx", "sp", "bp", "si", "di"];
pub const SEGS: [&str; 4] = ["es", "cs", "ss", "ds"];
pub const SEG_ES: usize = 0;
pub const SEG_CS: usize = 1;
pub const SEG_SS: usize = 2;
pub const SEG_DS: usize = 3;
pub const R_AX: usize = 0;
pub const R_CX: usize = 1;
pub const R_DX: usize = 2;
pub const R_BX: usize = 3;
pub const R_SP: usize = 4;
pub const R_BP: usize = 5;
pub const R_SI: usize = 6;
pub const R_DI: usize = 7;

#[derive(Clone, Copy, PartialEq, Eq, Debug, Hash)]
pub enum MemForm {
    /// [n]
    Direct(u16),
    /// [bx] [bp] [si] [di]   (register index into REG16)
    Reg(usize),
    /// [bx,d] [bp,d] [si,d] [di,d]
    RegDisp(usize, i32),
    /// [bx|bp, si|di] with optional displacement
    BaseIndex(usize, usize, Option<i32>),
}

#[derive(Clone, Copy, PartialEq, Eq, Debug, Hash)]
pub struct Mem {
    pub seg: Option<usize>,
    pub form: MemForm,
}

impl Mem {
    pub fn base_is_bp(&self) -> bool {
        match self.form {
            MemForm::Reg(r) | MemForm::RegDisp(r, _) => r == R_BP,
            MemForm::BaseIndex(b, _, _) => b == R_BP,
            MemForm::Direct(_) => false,
        }
    }
    /// registers (REG16 indices) read by the address computation
    pub fn regs(&self) -> Vec<usize> {
        match self.form {
            MemForm::Direct(_) => vec![],
            MemForm::Reg(r) | MemForm::RegDisp(r, _) => vec![r],
            MemForm::BaseIndex(b, i, _) => vec![b, i],
        }
    }
    pub fn kind(&self) -> &'static str {
        match self.form {
            MemForm::Direct(_) => "direct",
            MemForm::Reg(_) => "indirect",
            MemForm::RegDisp(r, _) => {
                if r == R_BX || r == R_BP {
                    "based"
                } else {
                    "indexed"
                }
            }
            MemForm::BaseIndex(_, _, None) => "based-indexed",
            MemForm::BaseIndex(_, _, Some(_)) => "based-indexed-disp",
        }
    }
}

#[derive(Clone, PartialEq, Eq, Debug, Hash)]
pub enum Opnd {
    R8(usize),
    R16(usize),
    Seg(usize),
    Mem(W, Mem),
    Label(W, String),
    /// immediate; value as written (may be negative)
    Imm(i32),
    /// immediate given as OFFSET label
    Offset(String),
}

impl Opnd {
    pub fn width(&self) -> Option<W> {
        match self {
            Opnd::R8(_) => Some(W::B),
            Opnd::R16(_) | Opnd::Seg(_) => Some(W::W),
            Opnd::Mem(w, _) | Opnd::Label(w, _) => Some(*w),
            _ => None,
        }
    }
    pub fn kind(&self) -> String {
        match self {
            Opnd::R8(_) => "r8".into(),
            Opnd::R16(_) => "r16".into(),
            Opnd::Seg(_) => "sreg".into(),
            Opnd::Mem(w, m) => format!(
                "m{}:{}{}",
                w.bits(),
                m.kind(),
                match m.seg {
                    Some(s) => format!(":{}", SEGS[s]),
                    None => String::new(),
                }
            ),
            Opnd::Label(w, _) => format!("l{}", w.bits()),
            Opnd::Imm(_) => "imm".into(),
            Opnd::Offset(_) => "offset".into(),
        }
    }
    pub fn is_mem(&self) -> bool {
        matches!(self, Opnd::Mem(..) | Opnd::Label(..))
    }
}

#[derive(Clone, Copy, PartialEq, Eq, Debug, Hash)]
pub enum Count {
    Imm(u8),
    Cl,
}

#[derive(Clone, Copy, PartialEq, Eq, Debug, Hash)]
pub enum ZeroOp {
    Lahf,
    Sahf,
    Pushf,
    Popf,
    Xlat,
    Stc,
    Clc,
    Cmc,
    Std,
    Cld,
    Sti,
    Cli,
    Hlt,
    Nop,
    Ret,
}
impl ZeroOp {
    pub fn name(self) -> &'static str {
        match self {
            ZeroOp::Lahf => "lahf",
            ZeroOp::Sahf => "sahf",
            ZeroOp::Pushf => "pushf",
            ZeroOp::Popf => "popf",
            ZeroOp::Xlat => "xlat",
            ZeroOp::Stc => "stc",
            ZeroOp::Clc => "clc",
            ZeroOp::Cmc => "cmc",
            ZeroOp::Std => "std",
            ZeroOp::Cld => "cld",
            ZeroOp::Sti => "sti",
            ZeroOp::Cli => "cli",
            ZeroOp::Hlt => "hlt",
            ZeroOp::Nop => "nop",
            ZeroOp::Ret => "ret",
        }
    }
    pub const ALL: [ZeroOp; 15] = [
        ZeroOp::Lahf,
        ZeroOp::Sahf,
        ZeroOp::Pushf,
        ZeroOp::Popf,
        ZeroOp::Xlat,
        ZeroOp::Stc,
        ZeroOp::Clc,
        ZeroOp::Cmc,
        ZeroOp::Std,
        ZeroOp::Cld,
        ZeroOp::Sti,
        ZeroOp::Cli,
        ZeroOp::Hlt,
        ZeroOp::Nop,
        ZeroOp::Ret,
    ];
}

#[derive(Clone, Copy, PartialEq, Eq, Debug, Hash)]
pub enum StrOp {
    Movs,
    Lods,
    Stos,
    Cmps,
    Scas,
}
impl StrOp {
    pub const ALL: [StrOp; 5] = [StrOp::Movs, StrOp::Lods, StrOp::Stos, StrOp::Cmps, StrOp::Scas];
    pub fn name(self) -> &'static str {
        match self {
            StrOp::Movs => "movs",
            StrOp::Lods => "lods",
            StrOp::Stos => "stos",
            StrOp::Cmps => "cmps",
            StrOp::Scas => "scas",
        }
    }
    pub fn compares(self) -> bool {
        matches!(self, StrOp::Cmps | StrOp::Scas)
    }
}

#[derive(Clone, Copy, PartialEq, Eq, Debug, Hash)]
pub enum Rep {
    Rep,
    Repe,
    Repz,
    Repne,
    Repnz,
}
impl Rep {
    pub fn name(self) -> &'static str {
        match self {
            Rep::Rep => "rep",
            Rep::Repe => "repe",
            Rep::Repz => "repz",
            Rep::Repne => "repne",
            Rep::Repnz => "repnz",
        }
    }
    /// the ZF value that lets the repetition continue (None for plain REP)
    pub fn want_zf(self) -> Option<bool> {
        match self {
            Rep::Rep => None,
            Rep::Repe | Rep::Repz => Some(true),
            Rep::Repne | Rep::Repnz => Some(false),
        }
    }
}

#[derive(Clone, PartialEq, Eq, Debug, Hash)]
pub enum PrintKind {
    Flags,
    Reg,
    /// print mem a -> b
    MemRange(u32, u32),
    /// print mem a : n
    MemLen(u32, u32),
    /// print mem : n
    MemDs(u32),
}

#[derive(Clone, PartialEq, Eq, Debug, Hash)]
pub enum Instr {
    Mov(Opnd, Opnd),
    Xchg(Opnd, Opnd),
    Bin(BinOp, Opnd, Opnd),
    Un(UnOp, Opnd),
    MulDiv(MulOp, Opnd),
    Shift(ShOp, Opnd, Count),
    Push(Opnd),
    Pop(Opnd),
    Lea(usize, Opnd),
    Adj(AdjOp),
    Zero(ZeroOp),
    Str(Option<Rep>, StrOp, W),
    /// jump/loop mnemonic as spelled (lower case), target label
    Jmp(String, String),
    Call(String),
    Int(u8),
    Print(PrintKind),
}

impl Instr {
    pub fn mnemonic(&self) -> String {
        match self {
            Instr::Mov(..) => "mov".into(),
            Instr::Xchg(..) => "xchg".into(),
            Instr::Bin(o, ..) => o.name().into(),
            Instr::Un(o, ..) => o.name().into(),
            Instr::MulDiv(o, ..) => o.name().into(),
            Instr::Shift(o, ..) => o.name().into(),
            Instr::Push(..) => "push".into(),
            Instr::Pop(..) => "pop".into(),
            Instr::Lea(..) => "lea".into(),
            Instr::Adj(o) => o.name().into(),
            Instr::Zero(o) => o.name().into(),
            Instr::Str(r, o, _) => match r {
                Some(r) => format!("{} {}", r.name(), o.name()),
                None => o.name().into(),
            },
            Instr::Jmp(m, _) => m.clone(),
            Instr::Call(_) => "call".into(),
            Instr::Int(_) => "int".into(),
            Instr::Print(_) => "print".into(),
        }
    }
    /// operand-form class, e.g. "add r8,m8:based:es"
    pub fn shape(&self) -> String {
        match self {
            Instr::Mov(a, b) | Instr::Xchg(a, b) | Instr::Bin(_, a, b) => {
                format!("{} {},{}", self.mnemonic(), a.kind(), b.kind())
            }
            Instr::Un(_, a) | Instr::MulDiv(_, a) | Instr::Push(a) | Instr::Pop(a) => {
                format!("{} {}", self.mnemonic(), a.kind())
            }
            Instr::Shift(_, a, c) => format!(
                "{} {},{}",
                self.mnemonic(),
                a.kind(),
                match c {
                    Count::Imm(_) => "imm",
                    Count::Cl => "cl",
                }
            ),
            Instr::Lea(_, a) => format!("lea r16,{}", a.kind()),
            Instr::Str(_, _, w) => format!("{} {}", self.mnemonic(), w.name()),
            _ => self.mnemonic(),
        }
    }
    pub fn operands(&self) -> Vec<&Opnd> {
        match self {
            Instr::Mov(a, b) | Instr::Xchg(a, b) | Instr::Bin(_, a, b) => vec![a, b],
            Instr::Un(_, a) | Instr::MulDiv(_, a) | Instr::Push(a) | Instr::Pop(a) | Instr::Shift(_, a, _) => {
                vec![a]
            }
            Instr::Lea(_, a) => vec![a],
            _ => vec![],
        }
    }
}

#[derive(Clone, PartialEq, Eq, Debug, Hash)]
pub enum DataDef {
    Set(u16),
    /// label, width, value as written (may be negative)
    Val(Option<String>, W, i32),
    /// label, width, count: zero-initialised array
    Arr(Option<String>, W, u16),
    /// label, width, value, count
    ArrVal(Option<String>, W, i32, u16),
    Str(Option<String>, W, String),
}

impl DataDef {
    pub fn label(&self) -> Option<&String> {
        match self {
            DataDef::Set(_) => None,
            DataDef::Val(l, ..) | DataDef::Arr(l, ..) | DataDef::ArrVal(l, ..) | DataDef::Str(l, ..) => l.as_ref(),
        }
    }
    /// bytes occupied
    pub fn size(&self) -> usize {
        match self {
            DataDef::Set(_) => 0,
            DataDef::Val(_, w, _) => w.bytes() as usize,
            DataDef::Arr(_, w, n) | DataDef::ArrVal(_, w, _, n) => w.bytes() as usize * *n as usize,
            DataDef::Str(_, w, s) => w.bytes() as usize * s.len(),
        }
    }
    /// the bytes this definition lays down
    pub fn bytes(&self) -> Vec<u8> {
        match self {
            DataDef::Set(_) => vec![],
            DataDef::Val(_, W::B, v) => vec![*v as u8],
            DataDef::Val(_, W::W, v) => vec![*v as u8, (*v >> 8) as u8],
            DataDef::Arr(_, w, n) => vec![0; w.bytes() as usize * *n as usize],
            DataDef::ArrVal(_, W::B, v, n) => vec![*v as u8; *n as usize],
            DataDef::ArrVal(_, W::W, v, n) => {
                let mut o = Vec::with_capacity(*n as usize * 2);
                for _ in 0..*n {
                    o.push(*v as u8);
                    o.push((*v >> 8) as u8);
                }
                o
            }
            DataDef::Str(_, W::B, s) => s.bytes().collect(),
            DataDef::Str(_, W::W, s) => {
                let mut o = Vec::new();
                for b in s.bytes() {
                    o.push(b);
                    o.push(0);
                }
                o
            }
        }
    }
}

#[derive(Clone, PartialEq, Eq, Debug, Hash)]
pub enum Item {
    Label(String),
    Ins(Instr),
    /// procedure definition: name, body (labels, instructions, macro uses)
    Proc(String, Vec<Item>),
    /// macro definition: name, params, body text (source text between -> and <-)
    MacroDef(String, Vec<String>, String),
    /// macro use: name, argument texts
    MacroUse(String, Vec<String>),
}

#[derive(Clone, PartialEq, Eq, Debug, Default, Hash)]
pub struct Program {
    pub data: Vec<DataDef>,
    pub code: Vec<Item>,
}

// ---------------------------------------------------------------------------------------------
// rendering

#[derive(Clone, Copy, PartialEq, Eq, Debug, Hash)]
pub enum Radix {
    Dec,
    Hex,
    HexUp,
    Bin,
    /// negative decimal with the same bit pattern for the operand width (only when representable)
    NegDec,
}

#[derive(Clone, Copy, PartialEq, Eq, Debug)]
pub enum TokKind {
    /// keyword (mnemonic, register, byte/word, directive): case insensitive
    Kw,
    /// numeric constant: value as written in the AST, width class for NegDec (8/16/0)
    Num(i32, u8),
    /// identifier (label, procedure, macro name): case sensitive
    Name,
    /// punctuation
    Punct,
    /// string literal including quotes, or raw macro body text
    Raw,
}

#[derive(Clone, PartialEq, Eq, Debug)]
pub struct Tok {
    pub text: String,
    pub kind: TokKind,
    /// true if white space is required between this token and the previous one
    pub space_before: bool,
}

fn kw(s: &str) -> Tok {
    Tok { text: s.to_string(), kind: TokKind::Kw, space_before: true }
}
fn punct(s: &str) -> Tok {
    Tok { text: s.to_string(), kind: TokKind::Punct, space_before: false }
}
fn name(s: &str) -> Tok {
    Tok { text: s.to_string(), kind: TokKind::Name, space_before: true }
}
fn num(v: i32, class: u8) -> Tok {
    Tok { text: v.to_string(), kind: TokKind::Num(v, class), space_before: true }
}

pub fn render_num(v: i32, class: u8, radix: Radix) -> Option<String> {
    // unsigned bit pattern
    if v < 0 {
        return match radix {
            Radix::Dec | Radix::NegDec => Some(v.to_string()),
            _ => None,
        };
    }
    match radix {
        Radix::Dec => Some(v.to_string()),
        Radix::Hex => Some(format!("0x{:x}", v)),
        Radix::HexUp => Some(format!("0X{:X}", v)),
        Radix::Bin => Some(format!("0b{:b}", v)),
        Radix::NegDec => {
            let (bits, ok) = match class {
                8 => (8, v >= 0x80 && v <= 0xFF),
                16 => (16, v >= 0x8000 && v <= 0xFFFF),
                _ => (0, false),
            };
            if !ok {
                return None;
            }
            Some((v as i64 - (1i64 << bits)).to_string())
        }
    }
}

fn mem_toks(m: &Mem, out: &mut Vec<Tok>) {
    if let Some(s) = m.seg {
        out.push(kw(SEGS[s]));
    }
    let mut p = punct("[");
    p.space_before = m.seg.is_none();
    // a '[' after byte/word needs no space, but keep one for readability
    out.push(p);
    match m.form {
        MemForm::Direct(n) => {
            let mut t = num(n as i32, 0);
            t.space_before = false;
            out.push(t)
        }
        MemForm::Reg(r) => {
            let mut t = kw(REG16[r]);
            t.space_before = false;
            out.push(t)
        }
        MemForm::RegDisp(r, d) => {
            let mut t = kw(REG16[r]);
            t.space_before = false;
            out.push(t);
            out.push(punct(","));
            let mut t = num(d, 16);
            t.space_before = false;
            out.push(t);
        }
        MemForm::BaseIndex(b, i, d) => {
            let mut t = kw(REG16[b]);
            t.space_before = false;
            out.push(t);
            out.push(punct(","));
            let mut t = kw(REG16[i]);
            t.space_before = false;
            out.push(t);
            if let Some(d) = d {
                out.push(punct(","));
                let mut t = num(d, 16);
                t.space_before = false;
                out.push(t);
            }
        }
    }
    out.push(punct("]"));
}

fn opnd_toks(o: &Opnd, imm_class: u8, out: &mut Vec<Tok>) {
    match o {
        Opnd::R8(r) => out.push(kw(REG8[*r])),
        Opnd::R16(r) => out.push(kw(REG16[*r])),
        Opnd::Seg(s) => out.push(kw(SEGS[*s])),
        Opnd::Mem(w, m) => {
            out.push(kw(w.name()));
            mem_toks(m, out);
        }
        Opnd::Label(w, l) => {
            out.push(kw(w.name()));
            out.push(name(l));
        }
        Opnd::Imm(v) => out.push(num(*v, imm_class)),
        Opnd::Offset(l) => {
            out.push(kw("offset"));
            out.push(name(l));
        }
    }
}

fn class_of(w: Option<W>) -> u8 {
    match w {
        Some(W::B) => 8,
        Some(W::W) => 16,
        None => 0,
    }
}

pub fn instr_toks(i: &Instr) -> Vec<Tok> {
    let mut t = Vec::new();
    match i {
        Instr::Mov(a, b) | Instr::Xchg(a, b) | Instr::Bin(_, a, b) => {
            t.push(kw(&i.mnemonic()));
            let cls = class_of(a.width());
            // logic ops take unsigned immediates only: class 0 suppresses NegDec
            let cls = if let Instr::Bin(op, ..) = i {
                if op.is_logic() {
                    0
                } else {
                    cls
                }
            } else {
                cls
            };
            opnd_toks(a, cls, &mut t);
            t.push(punct(","));
            opnd_toks(b, cls, &mut t);
        }
        Instr::Un(_, a) | Instr::MulDiv(_, a) | Instr::Push(a) | Instr::Pop(a) => {
            t.push(kw(&i.mnemonic()));
            opnd_toks(a, 0, &mut t);
        }
        Instr::Shift(_, a, c) => {
            t.push(kw(&i.mnemonic()));
            opnd_toks(a, 0, &mut t);
            t.push(punct(","));
            match c {
                Count::Imm(n) => t.push(num(*n as i32, 0)),
                Count::Cl => t.push(kw("cl")),
            }
        }
        Instr::Lea(r, a) => {
            t.push(kw("lea"));
            t.push(kw(REG16[*r]));
            t.push(punct(","));
            opnd_toks(a, 0, &mut t);
        }
        Instr::Adj(o) => t.push(kw(o.name())),
        Instr::Zero(o) => t.push(kw(o.name())),
        Instr::Str(r, o, w) => {
            if let Some(r) = r {
                t.push(kw(r.name()));
            }
            t.push(kw(o.name()));
            t.push(kw(w.name()));
        }
        Instr::Jmp(m, l) => {
            t.push(kw(m));
            t.push(name(l));
        }
        Instr::Call(n) => {
            t.push(kw("call"));
            t.push(name(n));
        }
        Instr::Int(n) => {
            t.push(kw("int"));
            t.push(num(*n as i32, 0));
        }
        Instr::Print(k) => {
            t.push(kw("print"));
            match k {
                PrintKind::Flags => t.push(kw("flags")),
                PrintKind::Reg => t.push(kw("reg")),
                PrintKind::MemRange(a, b) => {
                    t.push(kw("mem"));
                    t.push(num(*a as i32, 0));
                    let mut p = punct("->");
                    p.space_before = true;
                    t.push(p);
                    t.push(num(*b as i32, 0));
                }
                PrintKind::MemLen(a, n) => {
                    t.push(kw("mem"));
                    t.push(num(*a as i32, 0));
                    // a name directly followed by ':' would be read as a label definition
                    let mut p = punct(":");
                    p.space_before = true;
                    t.push(p);
                    t.push(num(*n as i32, 0));
                }
                PrintKind::MemDs(n) => {
                    t.push(kw("mem"));
                    // "mem:" would be read as a label definition, so the colon is set apart
                    let mut p = punct(":");
                    p.space_before = true;
                    t.push(p);
                    t.push(num(*n as i32, 0));
                }
            }
        }
    }
    t
}

pub fn data_toks(d: &DataDef) -> Vec<Tok> {
    let mut t = Vec::new();
    let dir = |w: &W| if *w == W::B { "db" } else { "dw" };
    let lab = |l: &Option<String>, t: &mut Vec<Tok>| {
        if let Some(l) = l {
            // label token includes the colon (the grammar's regex does)
            t.push(Tok { text: format!("{}:", l), kind: TokKind::Name, space_before: true });
        }
    };
    match d {
        DataDef::Set(n) => {
            t.push(kw("set"));
            t.push(num(*n as i32, 0));
        }
        DataDef::Val(l, w, v) => {
            lab(l, &mut t);
            t.push(kw(dir(w)));
            t.push(num(*v, class_of(Some(*w))));
        }
        DataDef::Arr(l, w, n) => {
            lab(l, &mut t);
            t.push(kw(dir(w)));
            let mut p = punct("[");
            p.space_before = true;
            t.push(p);
            let mut x = num(*n as i32, 0);
            x.space_before = false;
            t.push(x);
            t.push(punct("]"));
        }
        DataDef::ArrVal(l, w, v, n) => {
            lab(l, &mut t);
            t.push(kw(dir(w)));
            let mut p = punct("[");
            p.space_before = true;
            t.push(p);
            let mut x = num(*v, class_of(Some(*w)));
            x.space_before = false;
            t.push(x);
            t.push(punct(","));
            let mut x = num(*n as i32, 0);
            x.space_before = false;
            t.push(x);
            t.push(punct("]"));
        }
        DataDef::Str(l, w, s) => {
            lab(l, &mut t);
            t.push(kw(dir(w)));
            t.push(Tok { text: format!("\"{}\"", s), kind: TokKind::Raw, space_before: true });
        }
    }
    t
}

/// A rendered program: a list of lines, each a token list; `item_of_line[i]` tells which
/// instruction (flattened source order) the line holds, if any.
#[derive(Clone, Debug, Default)]
pub struct Lines {
    pub lines: Vec<Vec<Tok>>,
}

fn item_lines(it: &Item, out: &mut Vec<Vec<Tok>>) {
    match it {
        Item::Label(l) => out.push(vec![Tok { text: format!("{}:", l), kind: TokKind::Name, space_before: true }]),
        Item::Ins(i) => out.push(instr_toks(i)),
        Item::Proc(n, body) => {
            let mut p = punct("{");
            p.space_before = true;
            out.push(vec![kw("def"), name(n), p]);
            for b in body {
                item_lines(b, out);
            }
            out.push(vec![punct("}")]);
        }
        Item::MacroDef(n, params, body) => {
            let mut t = vec![kw("macro"), name(n), punct("(")];
            for (k, p) in params.iter().enumerate() {
                if k > 0 {
                    t.push(punct(","));
                }
                let mut x = name(p);
                x.space_before = false;
                t.push(x);
            }
            t.push(punct(")"));
            let mut arrow = punct("->");
            arrow.space_before = true;
            t.push(arrow);
            t.push(Tok { text: format!("{} <-", body), kind: TokKind::Raw, space_before: true });
            out.push(t);
        }
        Item::MacroUse(n, args) => {
            let mut t = vec![name(n), punct("(")];
            for (k, a) in args.iter().enumerate() {
                if k > 0 {
                    t.push(punct(","));
                }
                t.push(Tok { text: a.clone(), kind: TokKind::Raw, space_before: false });
            }
            t.push(punct(")"));
            out.push(t);
        }
    }
}

pub fn program_lines(p: &Program) -> Vec<Vec<Tok>> {
    let mut out = Vec::new();
    for d in &p.data {
        out.push(data_toks(d));
    }
    for c in &p.code {
        item_lines(c, &mut out);
    }
    out
}

pub fn join_toks(toks: &[Tok]) -> String {
    let mut s = String::new();
    for (i, t) in toks.iter().enumerate() {
        if i > 0 && t.space_before {
            s.push(' ');
        }
        s.push_str(&t.text);
    }
    s
}

/// Canonical rendering: lower case, decimal, one item per line, trailing newline.
pub fn render(p: &Program) -> String {
    let mut s = String::new();
    for l in program_lines(p) {
        s.push_str(&join_toks(&l));
        s.push('\n');
    }
    s
}

pub fn render_instr(i: &Instr) -> String {
    join_toks(&instr_toks(i))
}

/// Upper-case every keyword token
pub fn upper_kw(toks: &mut [Tok]) {
    for t in toks.iter_mut() {
        if t.kind == TokKind::Kw {
            t.text = t.text.to_ascii_uppercase();
        }
    }
}

pub fn render_upper(p: &Program) -> String {
    let mut s = String::new();
    for mut l in program_lines(p) {
        upper_kw(&mut l);
        s.push_str(&join_toks(&l));
        s.push('\n');
    }
    s
}

// ---------------------------------------------------------------------------------------------
// terse constructors for hand-written reference programs

pub mod b {
    use super::*;
    pub fn r8(n: &str) -> Opnd {
        Opnd::R8(REG8.iter().position(|x| *x == n).expect("r8"))
    }
    pub fn r16(n: &str) -> Opnd {
        Opnd::R16(REG16.iter().position(|x| *x == n).expect("r16"))
    }
    pub fn sr(n: &str) -> Opnd {
        Opnd::Seg(SEGS.iter().position(|x| *x == n).expect("seg"))
    }
    pub fn imm(v: i32) -> Opnd {
        Opnd::Imm(v)
    }
    pub fn lab8(l: &str) -> Opnd {
        Opnd::Label(W::B, l.into())
    }
    pub fn lab16(l: &str) -> Opnd {
        Opnd::Label(W::W, l.into())
    }
    pub fn direct(w: W, n: u16) -> Opnd {
        Opnd::Mem(w, Mem { seg: None, form: MemForm::Direct(n) })
    }
    pub fn ind(w: W, reg: &str) -> Opnd {
        Opnd::Mem(w, Mem { seg: None, form: MemForm::Reg(REG16.iter().position(|x| *x == reg).expect("reg")) })
    }
    pub fn mov(a: Opnd, b: Opnd) -> Item {
        Item::Ins(Instr::Mov(a, b))
    }
    pub fn bin(op: BinOp, a: Opnd, b: Opnd) -> Item {
        Item::Ins(Instr::Bin(op, a, b))
    }
    pub fn un(op: UnOp, a: Opnd) -> Item {
        Item::Ins(Instr::Un(op, a))
    }
    pub fn z(op: ZeroOp) -> Item {
        Item::Ins(Instr::Zero(op))
    }
    pub fn jmp(mn: &str, l: &str) -> Item {
        Item::Ins(Instr::Jmp(mn.into(), l.into()))
    }
    pub fn label(l: &str) -> Item {
        Item::Label(l.into())
    }
    pub fn call(n: &str) -> Item {
        Item::Ins(Instr::Call(n.into()))
    }
    pub fn int(n: u8) -> Item {
        Item::Ins(Instr::Int(n))
    }
    pub fn print(k: PrintKind) -> Item {
        Item::Ins(Instr::Print(k))
    }
    pub fn strop(rep: Option<Rep>, op: StrOp, w: W) -> Item {
        Item::Ins(Instr::Str(rep, op, w))
    }
    pub fn push(a: Opnd) -> Item {
        Item::Ins(Instr::Push(a))
    }
    pub fn pop(a: Opnd) -> Item {
        Item::Ins(Instr::Pop(a))
    }
    pub fn proc(n: &str, body: Vec<Item>) -> Item {
        Item::Proc(n.into(), body)
    }
    pub fn db(l: Option<&str>, v: i32) -> DataDef {
        DataDef::Val(l.map(|s| s.to_string()), W::B, v)
    }
    pub fn dw(l: Option<&str>, v: i32) -> DataDef {
        DataDef::Val(l.map(|s| s.to_string()), W::W, v)
    }
}
