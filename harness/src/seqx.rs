//! Sequence explorer (histories): every sequence of up to `depth` instructions over an alphabet
//! (a property's own instructions plus a shared context alphabet of 22 instructions), containing at least one of the
//! property's instructions, is rendered to ONE source program, assembled by the real Preprocessor and
//! executed line by line by ONE real Interpreter object on ONE machine without reloading it; after
//! every step the complete register file, the flags and the touched memory cells are compared with the
//! reference model, and the whole memory at the end. This is what exposes state that an instruction
//! leaves behind (in the machine, in the interpreter object, in the context) for a later one.

use crate::alu::*;
use crate::ast::*;
use crate::engine::*;
use crate::findings::*;
use crate::mach::*;
use crate::pipe::*;
use crate::props::common::*;
use crate::refexec::*;
use rayon::prelude::*;
use serde_json::json;
use std::sync::atomic::{AtomicU64, Ordering};

/// instructions every property's sequences are mixed with: register / memory / stack / flag traffic
pub fn context_alphabet() -> Vec<Instr> {
    use crate::ast::b::*;
    let ins = |it: Item| match it {
        Item::Ins(i) => i,
        _ => unreachable!(),
    };
    vec![
        ins(mov(r16("ax"), imm(0x1234))),
        ins(mov(r16("bx"), imm(0x80FF))),
        ins(mov(r16("cx"), imm(3))),
        ins(mov(r16("cx"), imm(0))),
        ins(mov(direct(W::W, 0x0020), imm(0xA5C3))),
        ins(mov(r8("al"), direct(W::B, 0x0021))),
        ins(push(r16("ax"))),
        ins(pop(r16("bx"))),
        ins(z(ZeroOp::Pushf)),
        ins(z(ZeroOp::Popf)),
        ins(z(ZeroOp::Stc)),
        ins(z(ZeroOp::Std)),
        ins(z(ZeroOp::Cld)),
        Instr::Xchg(r16("ax"), r16("bx")),
        ins(z(ZeroOp::Sahf)),
        ins(mov(r16("si"), imm(0x0020))),
        ins(mov(r16("di"), imm(0x0022))),
        // data-label operands, and segment registers changed through the stack and by mov: a label
        // resolved before the change must be resolved again after it
        ins(mov(r8("dl"), lab8("bv"))),
        ins(mov(lab16("wv"), r16("ax"))),
        ins(pop(sr("ds"))),
        ins(pop(sr("es"))),
        ins(mov(sr("ds"), r16("bx"))),
    ]
}

pub fn default_inits() -> Vec<RefM> {
    let mut v = Vec::new();
    for (seed, flags, df) in [(0x21u16, 0xF000u16, false), (0x47, 0xF0D5, false), (0x63, 0xF801, true)] {
        let mut s = RefM { r: Regs::distinct(seed), m: SMem::new(0), call_stack: vec![] };
        s.r.flag = flags | if df { DF } else { 0 };
        s.r.ds = 0;
        s.r.es = 0;
        s.r.ss = 0x0050;
        s.r.sp = 0x0100;
        s.r.si = 0x0024;
        s.r.di = 0x0028;
        s.r.cx = 2;
        for k in 0..16u32 {
            s.m.set(0x20 + k, (0x31 + 13 * k) as u8);
        }
        // the words on top of the stack are plausible segment values (popped into DS / ES by the context)
        let top = phys(s.r.ss, s.r.sp);
        s.m.set16(top, 0x0020);
        s.m.set16(top + 2, 0x0300);
        s.m.set16(top + 4, 0x0001);
        v.push(s);
    }
    v
}

pub struct SeqStats {
    pub sequences: u64,
    pub steps: u64,
    pub audits: u64,
    pub blocked: u64,
}

fn enumerate(n: usize, depth: usize) -> Vec<Vec<usize>> {
    let mut all = Vec::new();
    let mut last: Vec<Vec<usize>> = vec![vec![]];
    for _ in 0..depth {
        let mut next = Vec::new();
        for s in last.iter() {
            for a in 0..n {
                let mut t = s.clone();
                t.push(a);
                next.push(t);
            }
        }
        all.extend(next.iter().cloned());
        last = next;
    }
    all
}

/// Explore all sequences; `focus` are the property's instructions (indices 0..focus.len() of the alphabet).
pub fn explore_sequences(rep: &Reporter, c: &Counters, focus: &[Instr], context: &[Instr], depth: usize, inits: &[RefM]) -> SeqStats {
    let mut alpha: Vec<Instr> = focus.to_vec();
    alpha.extend(context.iter().cloned());
    let nf = focus.len();
    let seqs: Vec<Vec<usize>> = enumerate(alpha.len(), depth).into_iter().filter(|s| s.iter().any(|a| *a < nf)).collect();
    let n_steps = AtomicU64::new(0);
    let n_audits = AtomicU64::new(0);
    let n_blocked = AtomicU64::new(0);
    let n_seq = AtomicU64::new(0);
    // assemble each distinct instruction once to learn whether the assembler takes it at all
    seqs.par_iter().enumerate().for_each(|(sidx, sq)| {
        with_worker(|wk| {
            let mut code: Vec<Item> = vec![Item::Label("start".into())];
            for a in sq {
                code.push(Item::Ins(alpha[*a].clone()));
            }
            let prog = Program { data: std_data(), code };
            let src = render(&prog);
            let asm = match assemble(&src) {
                Ok(a) => a,
                Err(_) => {
                    n_blocked.fetch_add(1, Ordering::Relaxed);
                    return;
                }
            };
            let start = match asm.labels.get("start") {
                Some(l) => l.map,
                None => return,
            };
            if asm.code.len() != start + sq.len() {
                // NOP-like emission differences are not this explorer's business
                n_blocked.fetch_add(1, Ordering::Relaxed);
                return;
            }
            let mut dc = DataCtx::default();
            dc.labels.insert("bv".into(), BV_OFF);
            dc.labels.insert("wv".into(), WV_OFF);
            n_seq.fetch_add(1, Ordering::Relaxed);
            for (ii, init) in inits.iter().enumerate() {
                wk.bench.hard_reset_if_dirty();
                wk.bench.load(init);
                let mut ictx = asm.ictx();
                let mut refs = init.clone();
                let mut ok = true;
                for (k, a) in sq.iter().enumerate() {
                    let idx = start + k;
                    let instr = &alpha[*a];
                    let site = instr.shape();
                    let horizon = refs.r.cx as usize + 3;
                    let (exec, _) = wk.m.exec_repeat(idx, &mut wk.bench.vm, &mut ictx, &asm.code[idx], horizon);
                    n_steps.fetch_add(1, Ordering::Relaxed);
                    let rs = step(instr, &refs, &dc, idx);
                    let got = Regs::from_vm(&wk.bench.vm);
                    // candidates: the primary outcome and the admissible alternatives
                    let mut cands: Vec<(&Outcome, &RefM, u16)> = vec![(&rs.outcome, &rs.post, rs.undef)];
                    for (o, p, u) in rs.alts.iter() {
                        cands.push((o, p, *u));
                    }
                    let mut first_bad: Option<(String, String, String, Option<i64>, Option<i64>)> = None;
                    let mut adopted: Option<RefM> = None;
                    let mut stop = false;
                    for (o, post, undef) in cands.iter() {
                        let want_exec = match o {
                            Outcome::Next => Exec::Ok(St::Next),
                            Outcome::DivErr => Exec::Ok(St::Int(0)),
                            Outcome::Halt => Exec::Ok(St::Halt),
                            Outcome::Print => Exec::Ok(St::Print),
                            Outcome::Int(n) => Exec::Ok(St::Int(*n)),
                            _ => Exec::Ok(St::Next),
                        };
                        let mut bad: Option<(String, String, String, Option<i64>, Option<i64>)> = None;
                        if exec != want_exec {
                            bad = Some(("state".into(), format!("{:?}", want_exec), format!("{:?}", exec), None, None));
                        } else if **o == Outcome::DivErr {
                            stop = true;
                        } else {
                            let ea = post.r.as_array();
                            let ga = got.as_array();
                            for r in 0..13 {
                                if ea[r] != ga[r] && bad.is_none() {
                                    bad = Some((REG_NAMES[r].to_string(), format!("0x{:04X}", ea[r]), format!("0x{:04X}", ga[r]), Some(ga[r] as i64), Some(ea[r] as i64)));
                                }
                            }
                            let d = (ea[13] ^ ga[13]) & !undef;
                            if d != 0 && bad.is_none() {
                                for (n, bit) in [("CF", CF), ("PF", PF), ("AF", AF), ("ZF", ZF), ("SF", SF), ("OF", OF), ("TF", TF), ("IF", IF), ("DF", DF)] {
                                    if d & bit != 0 && bad.is_none() {
                                        bad = Some((n.to_string(), format!("{}", (ea[13] & bit != 0) as u8), format!("{}", (ga[13] & bit != 0) as u8), Some((ga[13] & bit != 0) as i64), Some((ea[13] & bit != 0) as i64)));
                                    }
                                }
                                if bad.is_none() {
                                    bad = Some(("flagbits".into(), format!("0x{:04X}", ea[13]), format!("0x{:04X}", ga[13]), Some(ga[13] as i64), Some(ea[13] as i64)));
                                }
                            }
                            if bad.is_none() {
                                for (addr, v) in post.m.cells.iter() {
                                    let g = wk.bench.vm.mem[*addr as usize];
                                    if g != *v {
                                        bad = Some(("mem".into(), format!("[0x{:05X}]=0x{:02X}", addr, v), format!("[0x{:05X}]=0x{:02X}", addr, g), Some(g as i64), Some(*v as i64)));
                                        break;
                                    }
                                }
                            }
                        }
                        match bad {
                            None => {
                                let mut p = (*post).clone();
                                // undefined flag bits follow the machine
                                p.r.flag = (p.r.flag & !undef) | (got.flag & undef);
                                adopted = Some(p);
                                first_bad = None;
                                break;
                            }
                            Some(b) => {
                                if first_bad.is_none() {
                                    first_bad = Some(b);
                                }
                            }
                        }
                    }
                    if let Some((field, expected, gotv, got_val, exp_val)) = first_bad {
                        // a recorded finding about this instruction: follow the machine and go on
                        let a_val = instr.operands().get(0).map(|o| match o.width() {
                            Some(w) => read(o, w, &refs, &dc) as i64,
                            None => 0,
                        });
                        let mut extra: Vec<(&str, i64)> = vec![("w", instr.operands().get(0).and_then(|o| o.width()).map(|w| w.bits() as i64).unwrap_or(0))];
                        if let Some(a) = a_val {
                            extra.push(("a", a));
                        }
                        if let Some(e) = exp_val {
                            extra.push(("exp", e));
                        }
                        let vars = std_vars(&refs, &extra);
                        let vr: Vec<(&str, i64)> = vars.iter().map(|(k, x)| (k.as_str(), *x)).collect();
                        if rep.absorbed_by(&site, &field, &vr, got_val, &gotv) {
                            // resynchronise on the machine's registers and flags
                            let mut p = rs.post.clone();
                            p.r = got;
                            adopted = Some(p);
                        } else {
                            let lines: Vec<String> = sq.iter().map(|a| render_instr(&alpha[*a])).collect();
                            rep.report(Viol {
                                site: format!("sequence / {}", site),
                                field,
                                vars,
                                got_val,
                                expected: format!("{} after step {} ({}) of the sequence {:?}", expected, k + 1, render_instr(instr), lines),
                                got: gotv,
                                case: json!({"src": src, "initial_state": init.r.json(), "initial_state_index": ii, "failing_step": k + 1, "sequence": lines, "state_before_step": refs.r.json()}),
                                weight: (sq.len() * 1000 + k * 10 + ii) as u64,
                            });
                            ok = false;
                        }
                    }
                    if !ok || stop {
                        break;
                    }
                    match adopted {
                        Some(p) => refs = p,
                        None => break,
                    }
                }
                // whole-memory audit on a subset of the runs, cheap reset otherwise
                if ok && (sidx + ii) % 16 == 0 {
                    n_audits.fetch_add(1, Ordering::Relaxed);
                    if let Some((a, e, g)) = wk.bench.check_mem_and_reset(&refs.m) {
                        let lines: Vec<String> = sq.iter().map(|a| render_instr(&alpha[*a])).collect();
                        rep.report(Viol {
                            site: "sequence / memory".into(),
                            field: "mem".into(),
                            vars: vec![],
                            got_val: Some(g as i64),
                            expected: format!("[0x{:05X}]=0x{:02X} after the sequence {:?}", a, e, lines),
                            got: format!("[0x{:05X}]=0x{:02X}", a, g),
                            case: json!({"src": src, "initial_state": init.r.json(), "sequence": lines}),
                            weight: (sq.len() * 1000) as u64,
                        });
                    }
                } else {
                    wk.bench.mark_dirty();
                }
            }
            wk.n += sq.len() as u64 * inits.len() as u64;
            if sidx % 4096 == 0 {
                c.sample(json!({"sequence_program": src}));
            }
            wk.flush(c);
        })
    });
    SeqStats { sequences: n_seq.load(Ordering::Relaxed), steps: n_steps.load(Ordering::Relaxed), audits: n_audits.load(Ordering::Relaxed), blocked: n_blocked.load(Ordering::Relaxed) }
}
