//! Catalog of instruction shapes transcribed from syntax.md: every mnemonic and synonym x every
//! operand form listed for it x the memory operand spellings x segment overrides x register choices.

use crate::alu::*;
use crate::ast::*;

pub struct CatOpts {
    /// displacement values used in the based / indexed / based-indexed forms
    pub disps: Vec<i32>,
    /// use every register in register slots (otherwise a covering subset)
    pub all_regs: bool,
}

impl Default for CatOpts {
    fn default() -> Self {
        CatOpts { disps: vec![2], all_regs: false }
    }
}

pub fn mems(disps: &[i32]) -> Vec<Mem> {
    let mut forms = Vec::new();
    forms.push(MemForm::Direct(0x0123));
    for r in [R_BX, R_BP, R_SI, R_DI] {
        forms.push(MemForm::Reg(r));
    }
    for r in [R_BX, R_BP, R_SI, R_DI] {
        for d in disps {
            forms.push(MemForm::RegDisp(r, *d));
        }
    }
    for b in [R_BX, R_BP] {
        for i in [R_SI, R_DI] {
            forms.push(MemForm::BaseIndex(b, i, None));
            for d in disps {
                forms.push(MemForm::BaseIndex(b, i, Some(*d)));
            }
        }
    }
    let mut out = Vec::new();
    for f in forms {
        out.push(Mem { seg: None, form: f });
        for s in 0..4 {
            out.push(Mem { seg: Some(s), form: f });
        }
    }
    out
}

fn lb() -> Opnd {
    Opnd::Label(W::B, "bv".into())
}
fn lw() -> Opnd {
    Opnd::Label(W::W, "wv".into())
}

/// the 16 operand forms of a two-operand ALU instruction
fn bin_forms(mk: &dyn Fn(Opnd, Opnd) -> Instr, ms: &[Mem], o: &CatOpts, out: &mut Vec<Instr>) {
    let r8s: Vec<usize> = (0..8).collect();
    let r16s: Vec<usize> = (0..8).collect();
    if o.all_regs {
        for a in r8s.iter() {
            for b in r8s.iter() {
                out.push(mk(Opnd::R8(*a), Opnd::R8(*b)));
            }
        }
        for a in r16s.iter() {
            for b in r16s.iter() {
                out.push(mk(Opnd::R16(*a), Opnd::R16(*b)));
            }
        }
    } else {
        for a in 0..8 {
            out.push(mk(Opnd::R8(a), Opnd::R8((a + 3) % 8)));
            out.push(mk(Opnd::R16(a), Opnd::R16((a + 5) % 8)));
        }
        out.push(mk(Opnd::R8(0), Opnd::R8(0)));
        out.push(mk(Opnd::R16(3), Opnd::R16(3)));
    }
    for a in 0..8 {
        out.push(mk(Opnd::R8(a), Opnd::Imm(0x5A)));
        out.push(mk(Opnd::R16(a), Opnd::Imm(0x5AA5)));
        out.push(mk(Opnd::R8(a), lb()));
        out.push(mk(Opnd::R16(a), lw()));
        out.push(mk(lb(), Opnd::R8(a)));
        out.push(mk(lw(), Opnd::R16(a)));
    }
    out.push(mk(lb(), Opnd::Imm(0x5A)));
    out.push(mk(lw(), Opnd::Imm(0x5AA5)));
    for (k, m) in ms.iter().enumerate() {
        let r8 = k % 8;
        let r16 = (k / 3) % 8;
        out.push(mk(Opnd::R8(r8), Opnd::Mem(W::B, *m)));
        out.push(mk(Opnd::R16(r16), Opnd::Mem(W::W, *m)));
        out.push(mk(Opnd::Mem(W::B, *m), Opnd::R8(r8)));
        out.push(mk(Opnd::Mem(W::W, *m), Opnd::R16(r16)));
        out.push(mk(Opnd::Mem(W::B, *m), Opnd::Imm(0x5A)));
        out.push(mk(Opnd::Mem(W::W, *m), Opnd::Imm(0x5AA5)));
    }
}

/// the 6 operand forms of a one-operand instruction
fn un_forms(mk: &dyn Fn(Opnd) -> Instr, ms: &[Mem], out: &mut Vec<Instr>) {
    for a in 0..8 {
        out.push(mk(Opnd::R8(a)));
        out.push(mk(Opnd::R16(a)));
    }
    out.push(mk(lb()));
    out.push(mk(lw()));
    for m in ms.iter() {
        out.push(mk(Opnd::Mem(W::B, *m)));
        out.push(mk(Opnd::Mem(W::W, *m)));
    }
}

pub fn catalog(o: &CatOpts) -> Vec<Instr> {
    let ms = mems(&o.disps);
    let mut out: Vec<Instr> = Vec::new();
    for op in BinOp::ARITH.iter().chain(BinOp::LOGIC.iter()) {
        let op = *op;
        bin_forms(&move |a, b| Instr::Bin(op, a, b), &ms, o, &mut out);
    }
    for op in [UnOp::Inc, UnOp::Dec, UnOp::Neg, UnOp::Not] {
        un_forms(&move |a| Instr::Un(op, a), &ms, &mut out);
    }
    for op in MulOp::ALL {
        un_forms(&move |a| Instr::MulDiv(op, a), &ms, &mut out);
    }
    for op in ShOp::ALL {
        for cnt in [Count::Imm(1), Count::Imm(3), Count::Cl] {
            un_forms(&move |a| Instr::Shift(op, a, cnt), &ms, &mut out);
        }
    }
    // mov: 22 forms
    bin_forms(&|a, b| Instr::Mov(a, b), &ms, o, &mut out);
    for s in 0..4 {
        for r in 0..8 {
            out.push(Instr::Mov(Opnd::Seg(s), Opnd::R16(r)));
            out.push(Instr::Mov(Opnd::R16(r), Opnd::Seg(s)));
        }
        out.push(Instr::Mov(Opnd::Seg(s), lw()));
        out.push(Instr::Mov(lw(), Opnd::Seg(s)));
        for m in ms.iter() {
            out.push(Instr::Mov(Opnd::Seg(s), Opnd::Mem(W::W, *m)));
            out.push(Instr::Mov(Opnd::Mem(W::W, *m), Opnd::Seg(s)));
        }
    }
    // xchg: 10 forms (incl. a register with itself and the two halves of one register)
    for a in 0..8 {
        out.push(Instr::Xchg(Opnd::R8(a), Opnd::R8((a + 3) % 8)));
        out.push(Instr::Xchg(Opnd::R16(a), Opnd::R16((a + 5) % 8)));
        out.push(Instr::Xchg(Opnd::R8(a), Opnd::R8(a)));
        out.push(Instr::Xchg(Opnd::R16(a), Opnd::R16(a)));
        out.push(Instr::Xchg(Opnd::R8(a), Opnd::R8((a + 4) % 8)));
        out.push(Instr::Xchg(Opnd::R8(a), lb()));
        out.push(Instr::Xchg(lb(), Opnd::R8(a)));
        out.push(Instr::Xchg(Opnd::R16(a), lw()));
        out.push(Instr::Xchg(lw(), Opnd::R16(a)));
    }
    for (k, m) in ms.iter().enumerate() {
        out.push(Instr::Xchg(Opnd::Mem(W::B, *m), Opnd::R8(k % 8)));
        out.push(Instr::Xchg(Opnd::R8(k % 8), Opnd::Mem(W::B, *m)));
        out.push(Instr::Xchg(Opnd::Mem(W::W, *m), Opnd::R16(k % 8)));
        out.push(Instr::Xchg(Opnd::R16(k % 8), Opnd::Mem(W::W, *m)));
    }
    // push / pop
    for r in 0..8 {
        out.push(Instr::Push(Opnd::R16(r)));
        out.push(Instr::Pop(Opnd::R16(r)));
    }
    for s in 0..4 {
        out.push(Instr::Push(Opnd::Seg(s)));
        if s != SEG_CS {
            out.push(Instr::Pop(Opnd::Seg(s)));
        }
    }
    out.push(Instr::Push(lw()));
    out.push(Instr::Pop(lw()));
    for m in ms.iter() {
        out.push(Instr::Push(Opnd::Mem(W::W, *m)));
        out.push(Instr::Pop(Opnd::Mem(W::W, *m)));
    }
    // lea
    for r in 0..8 {
        out.push(Instr::Lea(r, lw()));
    }
    for (k, m) in ms.iter().enumerate() {
        out.push(Instr::Lea(k % 8, Opnd::Mem(W::W, *m)));
    }
    for a in AdjOp::ALL {
        out.push(Instr::Adj(a));
    }
    for z in ZeroOp::ALL {
        out.push(Instr::Zero(z));
    }
    for op in [StrOp::Movs, StrOp::Lods, StrOp::Stos] {
        for w in [W::B, W::W] {
            out.push(Instr::Str(None, op, w));
            out.push(Instr::Str(Some(Rep::Rep), op, w));
        }
    }
    for op in [StrOp::Cmps, StrOp::Scas] {
        for w in [W::B, W::W] {
            out.push(Instr::Str(None, op, w));
            for r in [Rep::Repe, Rep::Repz, Rep::Repne, Rep::Repnz] {
                out.push(Instr::Str(Some(r), op, w));
            }
        }
    }
    for m in JUMP_MNEMONICS.iter().chain(LOOP_MNEMONICS.iter()) {
        out.push(Instr::Jmp(m.to_string(), "tgt".into()));
    }
    out.push(Instr::Call("fn1".into()));
    for n in [3u8, 0x10, 0x21] {
        out.push(Instr::Int(n));
    }
    out.push(Instr::Print(PrintKind::Flags));
    out.push(Instr::Print(PrintKind::Reg));
    out.push(Instr::Print(PrintKind::MemRange(16, 47)));
    out.push(Instr::Print(PrintKind::MemLen(16, 31)));
    out.push(Instr::Print(PrintKind::MemDs(31)));
    out
}
