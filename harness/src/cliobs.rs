//! Tolerant matcher: walks the CLI's stdout with a cursor and checks it against the reference
//! run's event list (DESIGN section 4.13: documented fields are compared, wording is not).

use crate::ast::PrintKind;
use crate::mach::Regs;
use crate::refprog::Ev;
use regex::bytes::Regex;

/// encodings of service-written bytes >= 0x80 seen in all conforming runs of this process (see Matcher)
pub static HIGH_BYTE_ENCODINGS: std::sync::Mutex<[u8; 256]> = std::sync::Mutex::new([0; 256]);

#[derive(Clone, Debug)]
pub struct ObsMismatch {
    pub field: String,
    pub expected: String,
    pub got: String,
    pub event_index: usize,
}

pub struct Matcher<'a> {
    pub out: &'a [u8],
    pub pos: usize,
    /// source lines (1-based index = line number), comment-stripped text is compared
    pub src_lines: Vec<String>,
    pub check_text: bool,
    /// per byte value >= 0x80 written by a service: bit 0 = seen raw, bit 1 = seen as UTF-8
    pub high_byte_encodings: [u8; 256],
}

fn lossy(b: &[u8]) -> String {
    let s = String::from_utf8_lossy(b).to_string();
    if s.len() > 300 {
        let mut e = 300;
        while !s.is_char_boundary(e) {
            e -= 1;
        }
        format!("{}…", &s[..e])
    } else {
        s
    }
}

fn strip_comment(l: &str) -> String {
    match l.find(';') {
        Some(i) => l[..i].trim().to_string(),
        None => l.trim().to_string(),
    }
}

impl<'a> Matcher<'a> {
    pub fn new(out: &'a [u8], src: &str) -> Matcher<'a> {
        let mut src_lines = vec![String::new()];
        for l in src.split('\n') {
            src_lines.push(strip_comment(l));
        }
        Matcher { out, pos: 0, src_lines, check_text: true, high_byte_encodings: [0; 256] }
    }

    fn rest(&self) -> &'a [u8] {
        &self.out[self.pos..]
    }

    /// skip white space and prompt markers
    fn skip_ws(&mut self) {
        loop {
            let r = self.rest();
            if r.starts_with(b">>> ") {
                self.pos += 4;
            } else if r.starts_with(b">>>") {
                self.pos += 3;
            } else if !r.is_empty() && (r[0] == b' ' || r[0] == b'\n' || r[0] == b'\t' || r[0] == b'\r') {
                self.pos += 1;
            } else {
                break;
            }
        }
    }

    /// the next line (without newline), advancing the cursor past it
    fn take_line(&mut self) -> &'a [u8] {
        let r = self.rest();
        let n = r.iter().position(|c| *c == b'\n').unwrap_or(r.len());
        let l = &r[..n];
        self.pos += (n + 1).min(r.len());
        l
    }

    fn header(&mut self, re: &Regex, what: &str, line: usize, ei: usize) -> Result<(), ObsMismatch> {
        self.skip_ws();
        let start = self.pos;
        let l = self.take_line();
        match re.captures(l) {
            Some(c) => {
                let n: usize = std::str::from_utf8(&c[1]).unwrap().parse().unwrap_or(0);
                if n != line {
                    return Err(ObsMismatch {
                        field: "line".into(),
                        expected: format!("{} citing line {}", what, line),
                        got: lossy(l),
                        event_index: ei,
                    });
                }
                if self.check_text && c.len() > 2 {
                    if let Some(t) = c.get(2) {
                        let shown = strip_comment(&String::from_utf8_lossy(t.as_bytes()));
                        let want = self.src_lines.get(line).cloned().unwrap_or_default();
                        if shown != want {
                            return Err(ObsMismatch {
                                field: "linetext".into(),
                                expected: format!("{} showing the text of line {}: {:?}", what, line, want),
                                got: lossy(l),
                                event_index: ei,
                            });
                        }
                    }
                }
                Ok(())
            }
            None => {
                self.pos = start;
                Err(ObsMismatch {
                    field: "output".into(),
                    expected: format!("{} (line {})", what, line),
                    got: lossy(&self.out[start..]),
                    event_index: ei,
                })
            }
        }
    }

    fn print_body(&mut self, kind: &PrintKind, regs: &Regs, bytes: &Option<Vec<u8>>, ei: usize) -> Result<(), ObsMismatch> {
        match kind {
            PrintKind::Flags => {
                self.skip_ws();
                let l = self.take_line();
                let got = crate::cli::parse_flags(&String::from_utf8_lossy(l));
                let f = regs.flag;
                let want: Vec<(&str, u16)> = vec![
                    ("OF", 11),
                    ("DF", 10),
                    ("IF", 9),
                    ("TF", 8),
                    ("SF", 7),
                    ("ZF", 6),
                    ("AF", 4),
                    ("PF", 2),
                    ("CF", 0),
                ];
                for (n, bit) in want {
                    let v = ((f >> bit) & 1) as u8;
                    let found: Vec<u8> = got.iter().filter(|(k, _)| k == n).map(|(_, x)| *x).collect();
                    if found != vec![v] {
                        return Err(ObsMismatch {
                            field: format!("print-flags {}", n),
                            expected: format!("{} : {} (flag word 0x{:04X})", n, v, f),
                            got: lossy(l),
                            event_index: ei,
                        });
                    }
                }
                Ok(())
            }
            PrintKind::Reg => {
                let start = self.pos;
                let mut got: Vec<(String, u16)> = Vec::new();
                let mut guard = 0;
                while got.len() < 12 && guard < 12 && self.pos < self.out.len() {
                    let l = self.take_line();
                    got.extend(crate::cli::parse_regs(&String::from_utf8_lossy(l)));
                    guard += 1;
                }
                let want: Vec<(&str, u16)> = vec![
                    ("AX", regs.ax),
                    ("BX", regs.bx),
                    ("CX", regs.cx),
                    ("DX", regs.dx),
                    ("SP", regs.sp),
                    ("BP", regs.bp),
                    ("SI", regs.si),
                    ("DI", regs.di),
                    ("CS", regs.cs),
                    ("DS", regs.ds),
                    ("SS", regs.ss),
                    ("ES", regs.es),
                ];
                for (n, v) in want {
                    let found: Vec<u16> = got.iter().filter(|(k, _)| k == n).map(|(_, x)| *x).collect();
                    if found != vec![v] {
                        return Err(ObsMismatch {
                            field: format!("print-reg {}", n),
                            expected: format!("{} : 0x{:04X}", n, v),
                            got: lossy(&self.out[start..self.pos]),
                            event_index: ei,
                        });
                    }
                }
                Ok(())
            }
            _ => {
                let start = self.pos;
                match bytes {
                    None => {
                        // a report instead of cells
                        self.skip_ws();
                        let l = self.take_line();
                        let rows = crate::cli::parse_mem_rows(&String::from_utf8_lossy(l));
                        if l.is_empty() || !rows.is_empty() {
                            return Err(ObsMismatch {
                                field: "print-mem range".into(),
                                expected: "a report that the range is invalid, no cells".into(),
                                got: lossy(&self.out[start..self.pos]),
                                event_index: ei,
                            });
                        }
                        Ok(())
                    }
                    Some(b) => {
                        let mut cells: Vec<u8> = Vec::new();
                        let mut rowlens: Vec<usize> = Vec::new();
                        while cells.len() < b.len() && self.pos < self.out.len() {
                            let l = self.take_line();
                            let txt = String::from_utf8_lossy(l).to_string();
                            if txt.trim().is_empty() {
                                continue;
                            }
                            let rows = crate::cli::parse_mem_rows(&txt);
                            if rows.is_empty() {
                                return Err(ObsMismatch {
                                    field: "print-mem cells".into(),
                                    expected: format!("{} two-digit upper-case hex cells", b.len()),
                                    got: lossy(&self.out[start..self.pos]),
                                    event_index: ei,
                                });
                            }
                            for r in rows {
                                rowlens.push(r.len());
                                cells.extend(r);
                            }
                        }
                        if cells != *b {
                            let k = cells.iter().zip(b.iter()).position(|(x, y)| x != y).unwrap_or(cells.len().min(b.len()));
                            return Err(ObsMismatch {
                                field: "print-mem bytes".into(),
                                expected: format!("{} bytes; cell {} = {:02X?}", b.len(), k, b.get(k)),
                                got: format!("{} cells; cell {} = {:02X?}; text {:?}", cells.len(), k, cells.get(k), lossy(&self.out[start..self.pos])),
                                event_index: ei,
                            });
                        }
                        // row structure: 16 per row, last row the remainder
                        let full = b.len() / 16;
                        let mut want: Vec<usize> = vec![16; full];
                        if b.len() % 16 != 0 {
                            want.push(b.len() % 16);
                        }
                        if rowlens != want {
                            return Err(ObsMismatch {
                                field: "print-mem rows".into(),
                                expected: format!("rows of {:?}", want),
                                got: format!("rows of {:?}", rowlens),
                                event_index: ei,
                            });
                        }
                        // lower-case hex is not accepted
                        let seg = &self.out[start..self.pos];
                        if seg.iter().any(|c| (b'a'..=b'f').contains(c)) {
                            return Err(ObsMismatch {
                                field: "print-mem case".into(),
                                expected: "upper-case hex".into(),
                                got: lossy(seg),
                                event_index: ei,
                            });
                        }
                        Ok(())
                    }
                }
            }
        }
    }

    /// Match the whole event list; afterwards only white space / prompt markers / "Exiting" may remain.
    pub fn match_all(&mut self, events: &[Ev]) -> Result<(), ObsMismatch> {
        let re_print = Regex::new(r"^Output of line (\d+) : (.*) :\s*$").unwrap();
        let re_int3 = Regex::new(r"(?i)^int 3 at line (\d+)").unwrap();
        let re_step = Regex::new(r"(?i)^About to execute line (\d+) : (.*)$").unwrap();
        let re_div = Regex::new(r"(?i)divi[ds].*? at (?:line )?(\d+) : (.*)$").unwrap();
        let re_unsup = Regex::new(r"(?i)^Error at line (\d+) : (.*), value of AH").unwrap();
        for (ei, ev) in events.iter().enumerate() {
            match ev {
                Ev::Print { line, kind, regs, bytes } => {
                    self.header(&re_print, "'Output of line'", *line, ei)?;
                    self.print_body(kind, regs, bytes, ei)?;
                }
                Ev::Out(b) => {
                    // a prompt marker may precede the output (the answer typed at the prompt is not echoed)
                    while self.rest().starts_with(b">>> ") {
                        self.pos += 4;
                    }
                    // every byte below 0x80 as itself; a byte of 0x80 or more as the raw byte or as the UTF-8
                    // encoding of the same code point - which of the two is recorded per byte value, so that a
                    // check can demand that the choice does not depend on the neighbouring bytes
                    let r = self.rest();
                    // iterative backtracking (the text may be 65535 bytes long): `alts` holds, for every high byte
                    // matched as UTF-8 so far, where to resume with the raw reading if the rest does not match
                    fn walk(exp: &[u8], out: &[u8], used: &mut Vec<(u8, bool)>) -> Option<usize> {
                        let (mut i, mut o) = (0usize, 0usize);
                        // (exp index, out index, used length) of a pending raw alternative
                        let mut alts: Vec<(usize, usize, usize)> = Vec::new();
                        loop {
                            if i == exp.len() {
                                return Some(o);
                            }
                            let b0 = exp[i];
                            let mut ok = false;
                            if b0 < 0x80 {
                                if out.get(o) == Some(&b0) {
                                    i += 1;
                                    o += 1;
                                    ok = true;
                                }
                            } else {
                                let enc = [0xC0 | (b0 >> 6), 0x80 | (b0 & 0x3F)];
                                let raw_possible = out.get(o) == Some(&b0);
                                if out.len() >= o + 2 && out[o] == enc[0] && out[o + 1] == enc[1] {
                                    if raw_possible {
                                        alts.push((i, o, used.len()));
                                    }
                                    used.push((b0, true));
                                    i += 1;
                                    o += 2;
                                    ok = true;
                                } else if raw_possible {
                                    used.push((b0, false));
                                    i += 1;
                                    o += 1;
                                    ok = true;
                                }
                            }
                            if !ok {
                                // back to the latest pending raw alternative
                                match alts.pop() {
                                    Some((ai, ao, ul)) => {
                                        used.truncate(ul);
                                        used.push((exp[ai], false));
                                        i = ai + 1;
                                        o = ao + 1;
                                    }
                                    None => return None,
                                }
                            }
                        }
                    }
                    let mut used: Vec<(u8, bool)> = Vec::new();
                    // (long runs of one repeated byte are matched without recursion)
                    let uniform = b.len() > 400 && b.iter().all(|x| *x == b[0]);
                    let matched = if uniform {
                        let utf8: Vec<u8> = b.iter().map(|c| *c as char).collect::<String>().into_bytes();
                        if b[0] >= 0x80 && r.starts_with(&utf8) {
                            used.push((b[0], true));
                            Some(utf8.len())
                        } else if r.starts_with(b) {
                            if b[0] >= 0x80 {
                                used.push((b[0], false));
                            }
                            Some(b.len())
                        } else {
                            None
                        }
                    } else {
                        walk(b, r, &mut used)
                    };
                    if let Some(n) = matched {
                        self.pos += n;
                        for (byte, utf8) in used {
                            self.high_byte_encodings[byte as usize] |= if utf8 { 2 } else { 1 };
                        }
                    } else {
                        return Err(ObsMismatch {
                            field: "int-output".into(),
                            expected: format!("{} bytes {:?}", b.len(), lossy(b)),
                            got: lossy(&r[..r.len().min(b.len() * 2 + 40)]),
                            event_index: ei,
                        });
                    }
                }
                Ev::DivErr { line } => {
                    self.header(&re_div, "divide-error message", *line, ei)?;
                }
                Ev::Unsupported { line, .. } => {
                    self.header(&re_unsup, "unsupported-interrupt message", *line, ei)?;
                }
                Ev::Int3 { line } => {
                    self.header(&re_int3, "'Int 3 at line'", *line, ei)?;
                }
                Ev::StepPrompt { line, tf } => {
                    self.header(&re_step, "'About to execute line'", *line, ei)?;
                    if *tf {
                        self.skip_ws();
                        let save = self.pos;
                        let l = self.take_line();
                        if !String::from_utf8_lossy(l).to_ascii_lowercase().contains("trap") {
                            self.pos = save;
                        }
                    }
                }
                Ev::PromptPrint { kind, regs, bytes } => {
                    self.skip_ws();
                    self.print_body(kind, regs, bytes, ei)?;
                }
                Ev::PromptInvalid => {
                    self.skip_ws();
                    let l = self.take_line();
                    if l.is_empty() {
                        return Err(ObsMismatch {
                            field: "prompt-invalid".into(),
                            expected: "a message that the input is not accepted".into(),
                            got: lossy(self.rest()),
                            event_index: ei,
                        });
                    }
                }
                Ev::Quit | Ev::PromptEof => {}
            }
        }
        // trailer
        loop {
            self.skip_ws();
            let r = self.rest();
            if r.is_empty() {
                let mut g = HIGH_BYTE_ENCODINGS.lock().unwrap();
                for k in 0..256 {
                    g[k] |= self.high_byte_encodings[k];
                }
                return Ok(());
            }
            let save = self.pos;
            let l = self.take_line();
            let t = String::from_utf8_lossy(l).to_ascii_lowercase();
            if t.trim() == "exiting" || t.contains("error in reading stdin") {
                continue;
            }
            self.pos = save;
            return Err(ObsMismatch {
                field: "extra-output".into(),
                expected: "no further output".into(),
                got: lossy(&self.out[save..]),
                event_index: events.len(),
            });
        }
    }
}
