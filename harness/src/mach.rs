//! Machine state: register file snapshot, sparse reference memory, bridging to the real VM.

use emulator_8086_lib::VM;
use std::collections::BTreeMap;

pub const MB: usize = 1 << 20;

#[derive(Clone, Copy, PartialEq, Eq, Debug, Default, Hash)]
pub struct Regs {
    pub ax: u16,
    pub bx: u16,
    pub cx: u16,
    pub dx: u16,
    pub sp: u16,
    pub bp: u16,
    pub si: u16,
    pub di: u16,
    pub ip: u16,
    pub cs: u16,
    pub ds: u16,
    pub ss: u16,
    pub es: u16,
    pub flag: u16,
}

pub const REG_NAMES: [&str; 14] =
    ["ax", "bx", "cx", "dx", "sp", "bp", "si", "di", "ip", "cs", "ds", "ss", "es", "flag"];

impl Regs {
    pub fn from_vm(vm: &VM) -> Regs {
        let a = &vm.arch;
        Regs {
            ax: a.ax,
            bx: a.bx,
            cx: a.cx,
            dx: a.dx,
            sp: a.sp,
            bp: a.bp,
            si: a.si,
            di: a.di,
            ip: a.ip,
            cs: a.cs,
            ds: a.ds,
            ss: a.ss,
            es: a.es,
            flag: a.flag,
        }
    }
    pub fn to_vm(&self, vm: &mut VM) {
        let a = &mut vm.arch;
        a.ax = self.ax;
        a.bx = self.bx;
        a.cx = self.cx;
        a.dx = self.dx;
        a.sp = self.sp;
        a.bp = self.bp;
        a.si = self.si;
        a.di = self.di;
        a.ip = self.ip;
        a.cs = self.cs;
        a.ds = self.ds;
        a.ss = self.ss;
        a.es = self.es;
        a.flag = self.flag;
    }
    pub fn as_array(&self) -> [u16; 14] {
        [
            self.ax, self.bx, self.cx, self.dx, self.sp, self.bp, self.si, self.di, self.ip, self.cs, self.ds,
            self.ss, self.es, self.flag,
        ]
    }
    pub fn get(&self, name: &str) -> u16 {
        let i = REG_NAMES.iter().position(|n| *n == name).expect("reg name");
        self.as_array()[i]
    }
    pub fn set(&mut self, name: &str, v: u16) {
        match name {
            "ax" => self.ax = v,
            "bx" => self.bx = v,
            "cx" => self.cx = v,
            "dx" => self.dx = v,
            "sp" => self.sp = v,
            "bp" => self.bp = v,
            "si" => self.si = v,
            "di" => self.di = v,
            "ip" => self.ip = v,
            "cs" => self.cs = v,
            "ds" => self.ds = v,
            "ss" => self.ss = v,
            "es" => self.es = v,
            "flag" => self.flag = v,
            _ => panic!("reg name {}", name),
        }
    }
    /// A register file whose 13 registers are pairwise distinct and have distinct bytes.
    pub fn distinct(seed: u16) -> Regs {
        let k = |i: u16| -> u16 {
            let hi = (0x11u16.wrapping_mul(i + 1).wrapping_add(seed)) & 0xFF;
            let lo = (0x07u16.wrapping_mul(i + 3).wrapping_add(seed.wrapping_mul(3)).wrapping_add(0x80)) & 0xFF;
            (hi << 8) | lo
        };
        Regs {
            ax: k(0),
            bx: k(1),
            cx: k(2),
            dx: k(3),
            sp: k(4) & 0xFFFE,
            bp: k(5),
            si: k(6),
            di: k(7),
            ip: 0,
            cs: k(8),
            ds: k(9),
            ss: k(10),
            es: k(11),
            flag: 0xF000,
        }
    }
    pub fn diff(&self, other: &Regs, flag_mask: u16) -> Option<(&'static str, u16, u16)> {
        let a = self.as_array();
        let b = other.as_array();
        for i in 0..13 {
            if a[i] != b[i] {
                return Some((REG_NAMES[i], a[i], b[i]));
            }
        }
        if (a[13] ^ b[13]) & flag_mask != 0 {
            return Some(("flag", a[13], b[13]));
        }
        None
    }
    pub fn get8(&self, r: usize) -> u8 {
        // order AL CL DL BL AH CH DH BH
        let w = [self.ax, self.cx, self.dx, self.bx][r & 3];
        if r < 4 {
            w as u8
        } else {
            (w >> 8) as u8
        }
    }
    pub fn set8(&mut self, r: usize, v: u8) {
        let p: &mut u16 = match r & 3 {
            0 => &mut self.ax,
            1 => &mut self.cx,
            2 => &mut self.dx,
            _ => &mut self.bx,
        };
        if r < 4 {
            *p = (*p & 0xFF00) | v as u16;
        } else {
            *p = (*p & 0x00FF) | ((v as u16) << 8);
        }
    }
    pub fn get16(&self, r: usize) -> u16 {
        // order AX CX DX BX SP BP SI DI
        [self.ax, self.cx, self.dx, self.bx, self.sp, self.bp, self.si, self.di][r]
    }
    pub fn set16(&mut self, r: usize, v: u16) {
        match r {
            0 => self.ax = v,
            1 => self.cx = v,
            2 => self.dx = v,
            3 => self.bx = v,
            4 => self.sp = v,
            5 => self.bp = v,
            6 => self.si = v,
            _ => self.di = v,
        }
    }
    pub fn getseg(&self, s: usize) -> u16 {
        // order ES CS SS DS
        [self.es, self.cs, self.ss, self.ds][s]
    }
    pub fn setseg(&mut self, s: usize, v: u16) {
        match s {
            0 => self.es = v,
            1 => self.cs = v,
            2 => self.ss = v,
            _ => self.ds = v,
        }
    }
    pub fn json(&self) -> serde_json::Value {
        let a = self.as_array();
        let mut m = serde_json::Map::new();
        for i in 0..14 {
            m.insert(REG_NAMES[i].to_string(), serde_json::Value::String(format!("0x{:04X}", a[i])));
        }
        serde_json::Value::Object(m)
    }
}

/// Sparse memory over a constant background byte.
#[derive(Clone, Debug, PartialEq, Eq, Default)]
pub struct SMem {
    pub bg: u8,
    pub cells: BTreeMap<u32, u8>,
}

impl SMem {
    pub fn new(bg: u8) -> SMem {
        SMem { bg, cells: BTreeMap::new() }
    }
    pub fn get(&self, a: u32) -> u8 {
        *self.cells.get(&(a & 0xFFFFF)).unwrap_or(&self.bg)
    }
    pub fn set(&mut self, a: u32, v: u8) {
        self.cells.insert(a & 0xFFFFF, v);
    }
    pub fn get16(&self, a: u32) -> u16 {
        self.get(a) as u16 | (self.get(a.wrapping_add(1)) as u16) << 8
    }
    pub fn set16(&mut self, a: u32, v: u16) {
        self.set(a, v as u8);
        self.set(a.wrapping_add(1), (v >> 8) as u8);
    }
    /// canonical: drop cells equal to background
    pub fn canon(&self) -> Vec<(u32, u8)> {
        self.cells.iter().filter(|(_, v)| **v != self.bg).map(|(a, v)| (*a, *v)).collect()
    }
}

#[derive(Clone, Debug, PartialEq, Eq, Default)]
pub struct RefM {
    pub r: Regs,
    pub m: SMem,
    pub call_stack: Vec<usize>,
}

/// A real VM owned by one worker, with a constant background that is restored after every use.
pub struct Bench {
    pub vm: VM,
    pub bg: u8,
    pub touched: Vec<u32>,
    pub dirty: bool,
}

impl Bench {
    pub fn new(bg: u8) -> Bench {
        let mut vm = VM::new();
        if bg != 0 {
            for b in vm.mem.iter_mut() {
                *b = bg;
            }
        }
        Bench { vm, bg, touched: Vec::new(), dirty: false }
    }
    pub fn set_bg(&mut self, bg: u8) {
        self.bg = bg;
        for b in self.vm.mem.iter_mut() {
            *b = bg;
        }
        self.touched.clear();
    }
    /// load a reference state into the real VM (memory must currently be all-background)
    pub fn load(&mut self, s: &RefM) {
        debug_assert_eq!(s.m.bg, self.bg);
        s.r.to_vm(&mut self.vm);
        for (a, v) in s.m.cells.iter() {
            self.vm.mem[*a as usize] = *v;
            self.touched.push(*a);
        }
    }
    /// Compare the VM's memory with the expected sparse memory. Returns the first differing address.
    /// Afterwards the VM memory is all-background again.
    pub fn check_mem_and_reset(&mut self, expect: &SMem) -> Option<(u32, u8, u8)> {
        let mut bad = None;
        // 1. the expected cells
        for (a, v) in expect.cells.iter() {
            let got = self.vm.mem[*a as usize];
            if got != *v && bad.is_none() {
                bad = Some((*a, *v, got));
            }
            self.vm.mem[*a as usize] = self.bg;
        }
        for a in self.touched.drain(..) {
            // cells that were preset but are not in `expect` must have been restored to bg by ref => mismatch
            let got = self.vm.mem[a as usize];
            if got != self.bg {
                if bad.is_none() && !expect.cells.contains_key(&a) {
                    bad = Some((a, self.bg, got));
                }
                self.vm.mem[a as usize] = self.bg;
            }
        }
        // 2. everything else must be background
        if let Some(a) = self.scan_non_bg() {
            let got = self.vm.mem[a];
            if bad.is_none() {
                bad = Some((a as u32, self.bg, got));
            }
            // full reset
            for b in self.vm.mem.iter_mut() {
                *b = self.bg;
            }
        }
        bad
    }
    /// memory may hold anything: the next `hard_reset_if_dirty` clears it
    pub fn mark_dirty(&mut self) {
        self.dirty = true;
    }
    pub fn hard_reset_if_dirty(&mut self) {
        if self.dirty {
            self.hard_reset();
            self.dirty = false;
        }
    }
    /// reset memory to background without checking (after panics etc.)
    pub fn hard_reset(&mut self) {
        for b in self.vm.mem.iter_mut() {
            *b = self.bg;
        }
        self.touched.clear();
    }
    pub fn scan_non_bg(&self) -> Option<usize> {
        let pat = u64::from_ne_bytes([self.bg; 8]);
        let mem: &[u8] = &self.vm.mem[..];
        // 1 MB is 8-aligned in length; alignment of the box is not guaranteed, use chunks
        let mut i = 0;
        for ch in mem.chunks_exact(64) {
            let mut acc = 0u64;
            for k in 0..8 {
                let w = u64::from_ne_bytes([
                    ch[k * 8],
                    ch[k * 8 + 1],
                    ch[k * 8 + 2],
                    ch[k * 8 + 3],
                    ch[k * 8 + 4],
                    ch[k * 8 + 5],
                    ch[k * 8 + 6],
                    ch[k * 8 + 7],
                ]);
                acc |= w ^ pat;
            }
            if acc != 0 {
                for k in 0..64 {
                    if ch[k] != self.bg {
                        return Some(i + k);
                    }
                }
            }
            i += 64;
        }
        None
    }
}
