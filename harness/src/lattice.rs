//! Boundary lattices (DESIGN section 6) and jitter.

pub fn seed() -> u64 {
    std::env::var("VERIF_SEED").ok().and_then(|s| s.parse().ok()).unwrap_or(0)
}

fn splitmix(x: &mut u64) -> u64 {
    *x = x.wrapping_add(0x9E3779B97F4A7C15);
    let mut z = *x;
    z = (z ^ (z >> 30)).wrapping_mul(0xBF58476D1CE4E5B9);
    z = (z ^ (z >> 27)).wrapping_mul(0x94D049BB133111EB);
    z ^ (z >> 31)
}

/// `n` extra values below `modulus`, chosen by VERIF_SEED: they widen a lattice, they never replace it.
pub fn jitter(n: usize, modulus: u32, salt: u64) -> Vec<u32> {
    let mut s = seed().wrapping_mul(0x1234567).wrapping_add(salt);
    (0..n).map(|_| (splitmix(&mut s) % modulus as u64) as u32).collect()
}

pub fn b8() -> Vec<u32> {
    let mut v: Vec<u32> = vec![
        0, 1, 2, 7, 8, 9, 0xF, 0x10, 0x11, 0x7E, 0x7F, 0x80, 0x81, 0x8F, 0x90, 0x99, 0x9A, 0xEF, 0xF0, 0xF9, 0xFA,
        0xFE, 0xFF,
    ];
    v.extend(jitter(2, 256, 8));
    v.sort();
    v.dedup();
    v
}

pub fn w16() -> Vec<u32> {
    let mut v: Vec<u32> = vec![0, 0x00FF, 0x0F0F, 0x7FFE, 0x7FFF, 0x8000, 0x8001, 0xFFEF, 0xFFF0, 0xFFFE, 0xFFFF, 0x0100, 0x00F0, 0x0FFF, 0x1000, 0x8080, 0x7F7F, 0xFF00, 0x8FFF, 0x9000];
    for k in 0..16 {
        let p = 1u32 << k;
        v.push(p);
        v.push(p.wrapping_sub(1) & 0xFFFF);
        v.push((p + 1) & 0xFFFF);
    }
    v.extend(jitter(4, 65536, 16));
    v.sort();
    v.dedup();
    v
}

/// a 12-value subset of W16 for operand-form sweeps
pub fn w16_small() -> Vec<u32> {
    vec![0, 1, 0x000F, 0x0010, 0x00FF, 0x0100, 0x7FFF, 0x8000, 0x8001, 0xFF00, 0xFFFE, 0xFFFF]
}

pub fn b8_small() -> Vec<u32> {
    vec![0, 1, 0x0F, 0x10, 0x7F, 0x80, 0x81, 0xFE, 0xFF]
}

pub const A6: [u16; 6] = [0, 1, 0x7FFF, 0x8000, 0xFFFE, 0xFFFF];
pub const S6: [u16; 6] = [0, 1, 0x0FFF, 0x1000, 0xF000, 0xFFFF];
pub const F4: [u16; 4] = [0x0000, 0xFFFF, 0xF000, 0x0AD5];

/// dense word lattice of about `n` values: boundaries plus an arithmetic progression
pub fn w16_dense(n: usize) -> Vec<u32> {
    let mut v = w16();
    let step = (65536 / n.max(1)).max(1) as u32;
    let mut x = 0u32;
    while x < 65536 {
        v.push(x);
        x += step;
    }
    v.sort();
    v.dedup();
    v
}

/// words whose low byte runs through all 256 values under a fixed high byte, and the reverse:
/// 512 values that are NOT boundaries (carries between the bytes, equal / complementary bytes)
pub fn w16_bytes() -> Vec<u32> {
    let mut v: Vec<u32> = Vec::new();
    for x in 0..256u32 {
        v.push(0x1200 | x);
        v.push((x << 8) | 0x34);
    }
    v.sort();
    v.dedup();
    v
}

/// operand pairs in a fixed RELATION, for every 16-bit x: equal, low byte complemented, complemented,
/// successor, bytes swapped, negated, shifted left by one, x and x/2+0x4000
pub fn w16_relations() -> Vec<(u32, u32)> {
    let mut v = Vec::with_capacity(8 * 65536);
    for x in 0..65536u32 {
        v.push((x, x));
        v.push((x, x ^ 0x00FF));
        v.push((x, !x & 0xFFFF));
        v.push((x, (x + 1) & 0xFFFF));
        v.push((x, ((x << 8) | (x >> 8)) & 0xFFFF));
        v.push((x, x.wrapping_neg() & 0xFFFF));
        v.push((x, (x << 1) & 0xFFFF));
        v.push((x, (x / 2 + 0x4000) & 0xFFFF));
    }
    v
}
