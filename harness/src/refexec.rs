//! Reference semantics of one instruction on the reference machine.

use crate::alu::*;
use crate::ast::*;
use crate::mach::*;
use std::collections::HashMap;

#[derive(Clone, Debug, PartialEq, Eq)]
pub enum Outcome {
    Next,
    /// taken jump to a code label
    Jump(String),
    /// call of procedure
    Call(String),
    /// return to saved index
    Ret(usize),
    /// ret with an empty call stack (reported error in the implementation)
    RetEmpty,
    Halt,
    Int(u8),
    Print,
    /// divide error: machine state unchanged, INT 0
    DivErr,
}

/// What the reference says about the post state: the state itself, the undefined-flag mask, and
/// (for IDIV MIN quotient / BCD variants) alternative admissible post states.
#[derive(Clone, Debug)]
pub struct RefStep {
    pub outcome: Outcome,
    pub post: RefM,
    pub undef: u16,
    pub alts: Vec<(Outcome, RefM, u16)>,
}

#[derive(Clone, Debug, Default)]
pub struct DataCtx {
    /// data label -> offset within its segment
    pub labels: HashMap<String, u16>,
}

pub fn ea_offset(m: &Mem, r: &Regs) -> u16 {
    match m.form {
        MemForm::Direct(n) => n,
        MemForm::Reg(x) => r.get16(x),
        MemForm::RegDisp(x, d) => r.get16(x).wrapping_add(d as u16),
        MemForm::BaseIndex(b, i, d) => r.get16(b).wrapping_add(r.get16(i)).wrapping_add(d.unwrap_or(0) as u16),
    }
}

pub fn ea_segment(m: &Mem, r: &Regs) -> u16 {
    match m.seg {
        Some(s) => r.getseg(s),
        None => {
            if m.base_is_bp() {
                r.ss
            } else {
                r.ds
            }
        }
    }
}

pub fn phys(seg: u16, off: u16) -> u32 {
    ((seg as u32) * 16 + off as u32) & 0xFFFFF
}

pub fn opnd_addr(o: &Opnd, r: &Regs, dc: &DataCtx) -> Option<u32> {
    match o {
        Opnd::Mem(_, m) => Some(phys(ea_segment(m, r), ea_offset(m, r))),
        Opnd::Label(_, l) => Some(phys(r.ds, *dc.labels.get(l).expect("data label"))),
        _ => None,
    }
}

fn imm_val(o: &Opnd, dc: &DataCtx) -> Option<u32> {
    match o {
        Opnd::Imm(v) => Some(*v as u32),
        Opnd::Offset(l) => Some(*dc.labels.get(l).expect("offset label") as u32),
        _ => None,
    }
}

pub fn read(o: &Opnd, w: W, s: &RefM, dc: &DataCtx) -> u32 {
    match o {
        Opnd::R8(r) => s.r.get8(*r) as u32,
        Opnd::R16(r) => s.r.get16(*r) as u32,
        Opnd::Seg(x) => s.r.getseg(*x) as u32,
        Opnd::Mem(..) | Opnd::Label(..) => {
            let a = opnd_addr(o, &s.r, dc).unwrap();
            match w {
                W::B => s.m.get(a) as u32,
                W::W => s.m.get16(a) as u32,
            }
        }
        Opnd::Imm(_) | Opnd::Offset(_) => imm_val(o, dc).unwrap() & w.mask(),
    }
}

/// write to an operand whose address was computed *before* the instruction changed any register
pub fn write(o: &Opnd, w: W, addr: Option<u32>, v: u32, s: &mut RefM) {
    match o {
        Opnd::R8(r) => s.r.set8(*r, v as u8),
        Opnd::R16(r) => s.r.set16(*r, v as u16),
        Opnd::Seg(x) => s.r.setseg(*x, v as u16),
        Opnd::Mem(..) | Opnd::Label(..) => {
            let a = addr.unwrap();
            match w {
                W::B => s.m.set(a, v as u8),
                W::W => s.m.set16(a, v as u16),
            }
        }
        _ => panic!("write to immediate"),
    }
}

fn width2(a: &Opnd, b: &Opnd) -> W {
    a.width().or(b.width()).expect("width")
}

pub fn push16(s: &mut RefM, v: u16) {
    s.r.sp = s.r.sp.wrapping_sub(2);
    let a = phys(s.r.ss, s.r.sp);
    s.m.set16(a, v);
}
pub fn pop16(s: &mut RefM) -> u16 {
    let a = phys(s.r.ss, s.r.sp);
    let v = s.m.get16(a);
    s.r.sp = s.r.sp.wrapping_add(2);
    v
}

/// One string primitive (no prefix).
pub fn string_step(op: StrOp, w: W, s: &mut RefM) {
    let step: u16 = if s.r.flag & DF != 0 { (w.bytes() as u16).wrapping_neg() } else { w.bytes() as u16 };
    let src = phys(s.r.ds, s.r.si);
    let dst = phys(s.r.es, s.r.di);
    let rd = |s: &RefM, a: u32| -> u32 {
        match w {
            W::B => s.m.get(a) as u32,
            W::W => s.m.get16(a) as u32,
        }
    };
    let acc = match w {
        W::B => (s.r.ax & 0xFF) as u32,
        W::W => s.r.ax as u32,
    };
    match op {
        StrOp::Movs => {
            let v = rd(s, src);
            match w {
                W::B => s.m.set(dst, v as u8),
                W::W => s.m.set16(dst, v as u16),
            }
            s.r.si = s.r.si.wrapping_add(step);
            s.r.di = s.r.di.wrapping_add(step);
        }
        StrOp::Lods => {
            let v = rd(s, src);
            match w {
                W::B => s.r.ax = (s.r.ax & 0xFF00) | v as u16,
                W::W => s.r.ax = v as u16,
            }
            s.r.si = s.r.si.wrapping_add(step);
        }
        StrOp::Stos => {
            match w {
                W::B => s.m.set(dst, acc as u8),
                W::W => s.m.set16(dst, acc as u16),
            }
            s.r.di = s.r.di.wrapping_add(step);
        }
        StrOp::Cmps => {
            let a = rd(s, src);
            let b = rd(s, dst);
            let (_, f) = sub(w, s.r.flag, a, b, 0);
            s.r.flag = f;
            s.r.si = s.r.si.wrapping_add(step);
            s.r.di = s.r.di.wrapping_add(step);
        }
        StrOp::Scas => {
            let b = rd(s, dst);
            let (_, f) = sub(w, s.r.flag, acc, b, 0);
            s.r.flag = f;
            s.r.di = s.r.di.wrapping_add(step);
        }
    }
}

/// Whole string instruction including REP semantics (run to completion).
pub fn string_full(rep: Option<Rep>, op: StrOp, w: W, s: &mut RefM) -> u32 {
    match rep {
        None => {
            string_step(op, w, s);
            1
        }
        Some(r) => {
            let mut n = 0;
            while s.r.cx != 0 {
                string_step(op, w, s);
                n += 1;
                s.r.cx = s.r.cx.wrapping_sub(1);
                if op.compares() {
                    if let Some(want) = r.want_zf() {
                        if (s.r.flag & ZF != 0) != want {
                            break;
                        }
                    }
                }
            }
            n
        }
    }
}

/// Execute one instruction. `cur` is the index of the instruction in the flattened program
/// (needed by CALL); string instructions are executed to completion.
pub fn step(i: &Instr, pre: &RefM, dc: &DataCtx, cur: usize) -> RefStep {
    let mut s = pre.clone();
    let mut undef = 0u16;
    let mut outcome = Outcome::Next;
    let mut alts: Vec<(Outcome, RefM, u16)> = Vec::new();
    match i {
        Instr::Mov(d, sr) => {
            let w = width2(d, sr);
            let addr = opnd_addr(d, &s.r, dc);
            let v = read(sr, w, &s, dc);
            write(d, w, addr, v, &mut s);
        }
        Instr::Xchg(a, b) => {
            let w = width2(a, b);
            let aa = opnd_addr(a, &s.r, dc);
            let ab = opnd_addr(b, &s.r, dc);
            let va = read(a, w, &s, dc);
            let vb = read(b, w, &s, dc);
            write(a, w, aa, vb, &mut s);
            write(b, w, ab, va, &mut s);
        }
        Instr::Bin(op, d, sr) => {
            let w = width2(d, sr);
            let addr = opnd_addr(d, &s.r, dc);
            let a = read(d, w, &s, dc);
            let b = read(sr, w, &s, dc);
            let (res, fr) = binop(*op, w, s.r.flag, a, b);
            s.r.flag = fr.flags;
            undef = fr.undef;
            if let Some(v) = res {
                write(d, w, addr, v, &mut s);
            }
        }
        Instr::Un(op, d) => {
            let w = d.width().unwrap();
            let addr = opnd_addr(d, &s.r, dc);
            let a = read(d, w, &s, dc);
            let (v, fr) = unop(*op, w, s.r.flag, a);
            s.r.flag = fr.flags;
            undef = fr.undef;
            write(d, w, addr, v, &mut s);
        }
        Instr::MulDiv(op, x) => {
            let w = x.width().unwrap();
            let xv = read(x, w, &s, dc);
            let (lo, hi) = match w {
                W::B => ((s.r.ax & 0xFF) as u32, (s.r.ax >> 8) as u32),
                W::W => (s.r.ax as u32, s.r.dx as u32),
            };
            let apply = |s: &mut RefM, lo: u32, hi: u32, fr: FlagRes| {
                match w {
                    W::B => s.r.ax = ((hi as u16) << 8) | (lo as u16 & 0xFF),
                    W::W => {
                        s.r.ax = lo as u16;
                        s.r.dx = hi as u16;
                    }
                }
                s.r.flag = fr.flags;
            };
            match muldiv(*op, w, s.r.flag, lo, hi, xv) {
                MulDiv::Ok { lo, hi, fr } => {
                    apply(&mut s, lo, hi, fr);
                    undef = fr.undef;
                }
                MulDiv::DivErr => {
                    outcome = Outcome::DivErr;
                    undef = STATUS6;
                }
                MulDiv::Either { lo, hi, fr } => {
                    // primary: divide error (8086); alternative: result (later CPUs)
                    let mut alt = s.clone();
                    apply(&mut alt, lo, hi, fr);
                    alts.push((Outcome::Next, alt, fr.undef));
                    outcome = Outcome::DivErr;
                    undef = STATUS6;
                }
            }
        }
        Instr::Shift(op, d, c) => {
            let w = d.width().unwrap();
            let addr = opnd_addr(d, &s.r, dc);
            let a = read(d, w, &s, dc);
            let n = match c {
                Count::Imm(n) => *n as u32,
                Count::Cl => (s.r.cx & 0xFF) as u32,
            };
            let (v, fr) = shift(*op, w, s.r.flag, a, n);
            s.r.flag = fr.flags;
            undef = fr.undef;
            write(d, w, addr, v, &mut s);
        }
        Instr::Push(x) => {
            let v = read(x, W::W, &s, dc) as u16;
            // 8086: PUSH SP stores the decremented SP
            let v = if matches!(x, Opnd::R16(R_SP)) { v.wrapping_sub(2) } else { v };
            push16(&mut s, v);
        }
        Instr::Pop(x) => {
            let addr_before = opnd_addr(x, &s.r, dc);
            let v = pop16(&mut s);
            // the 8086 computes a memory destination's address after SP was incremented only if SP
            // takes part in it, which no addressing form allows; so before/after are equal
            write(x, W::W, addr_before, v as u32, &mut s);
        }
        Instr::Lea(r, x) => {
            let off = match x {
                Opnd::Mem(_, m) => ea_offset(m, &s.r),
                Opnd::Label(_, l) => *dc.labels.get(l).expect("label"),
                _ => panic!("lea operand"),
            };
            s.r.set16(*r, off);
        }
        Instr::Adj(op) => {
            let outs = adjust(*op, s.r.flag, s.r.ax, s.r.dx);
            let mk = |o: &AdjOut| -> RefM {
                let mut t = s.clone();
                t.r.ax = o.ax;
                t.r.dx = o.dx;
                t.r.flag = o.fr.flags;
                t
            };
            for o in outs.iter().skip(1) {
                alts.push((Outcome::Next, mk(o), o.fr.undef));
            }
            undef = outs[0].fr.undef;
            let first = mk(&outs[0]);
            s = first;
        }
        Instr::Zero(op) => match op {
            ZeroOp::Lahf => s.r.ax = (s.r.ax & 0x00FF) | ((s.r.flag & 0xFF) << 8),
            ZeroOp::Sahf => s.r.flag = (s.r.flag & 0xFF00) | (s.r.ax >> 8),
            ZeroOp::Pushf => {
                let f = s.r.flag;
                push16(&mut s, f)
            }
            ZeroOp::Popf => {
                let v = pop16(&mut s);
                s.r.flag = v;
            }
            ZeroOp::Xlat => {
                let off = s.r.bx.wrapping_add(s.r.ax & 0xFF);
                let v = s.m.get(phys(s.r.ds, off));
                s.r.ax = (s.r.ax & 0xFF00) | v as u16;
            }
            ZeroOp::Stc => s.r.flag |= CF,
            ZeroOp::Clc => s.r.flag &= !CF,
            ZeroOp::Cmc => s.r.flag ^= CF,
            ZeroOp::Std => s.r.flag |= DF,
            ZeroOp::Cld => s.r.flag &= !DF,
            ZeroOp::Sti => s.r.flag |= IF,
            ZeroOp::Cli => s.r.flag &= !IF,
            ZeroOp::Hlt => outcome = Outcome::Halt,
            ZeroOp::Nop => {}
            ZeroOp::Ret => match s.call_stack.pop() {
                Some(p) => outcome = Outcome::Ret(p),
                None => outcome = Outcome::RetEmpty,
            },
        },
        Instr::Str(rep, op, w) => {
            string_full(*rep, *op, *w, &mut s);
        }
        Instr::Jmp(mn, target) => {
            let mn = mn.as_str();
            let taken = match mn {
                "jcxz" => s.r.cx == 0,
                "loop" => {
                    s.r.cx = s.r.cx.wrapping_sub(1);
                    s.r.cx != 0
                }
                "loope" | "loopz" => {
                    s.r.cx = s.r.cx.wrapping_sub(1);
                    s.r.cx != 0 && s.r.flag & ZF != 0
                }
                "loopne" | "loopnz" => {
                    s.r.cx = s.r.cx.wrapping_sub(1);
                    s.r.cx != 0 && s.r.flag & ZF == 0
                }
                _ => jump_taken(mn, s.r.flag).expect("jump mnemonic"),
            };
            if taken {
                outcome = Outcome::Jump(target.clone());
            }
        }
        Instr::Call(n) => {
            s.call_stack.push(cur + 1);
            outcome = Outcome::Call(n.clone());
        }
        Instr::Int(n) => outcome = Outcome::Int(*n),
        Instr::Print(_) => outcome = Outcome::Print,
    }
    RefStep { outcome, post: s, undef, alts }
}
