//! Reference ALU of the 8086, written from the 8086 Family User's Manual semantics.
//! Deliberately plain: wide-integer arithmetic, single-bit-step shifts.

pub const CF: u16 = 1 << 0;
pub const PF: u16 = 1 << 2;
pub const AF: u16 = 1 << 4;
pub const ZF: u16 = 1 << 6;
pub const SF: u16 = 1 << 7;
pub const TF: u16 = 1 << 8;
pub const IF: u16 = 1 << 9;
pub const DF: u16 = 1 << 10;
pub const OF: u16 = 1 << 11;
pub const STATUS6: u16 = CF | PF | AF | ZF | SF | OF;
pub const ALL9: u16 = STATUS6 | TF | IF | DF;

#[derive(Clone, Copy, PartialEq, Eq, Debug, Hash, PartialOrd, Ord)]
pub enum W {
    B,
    W,
}
impl W {
    pub fn bits(self) -> u32 {
        match self {
            W::B => 8,
            W::W => 16,
        }
    }
    pub fn mask(self) -> u32 {
        match self {
            W::B => 0xFF,
            W::W => 0xFFFF,
        }
    }
    pub fn sign(self) -> u32 {
        match self {
            W::B => 0x80,
            W::W => 0x8000,
        }
    }
    pub fn bytes(self) -> u32 {
        match self {
            W::B => 1,
            W::W => 2,
        }
    }
    pub fn name(self) -> &'static str {
        match self {
            W::B => "byte",
            W::W => "word",
        }
    }
}

pub fn parity_even(v: u32) -> bool {
    (v & 0xFF).count_ones() % 2 == 0
}

/// Result of a flag-setting operation: `flags` is the new flag word, `undef` the mask of bits whose
/// value the manual leaves undefined (never compared).
#[derive(Clone, Copy, Debug, PartialEq, Eq)]
pub struct FlagRes {
    pub flags: u16,
    pub undef: u16,
}

fn put(flags: u16, bit: u16, v: bool) -> u16 {
    if v {
        flags | bit
    } else {
        flags & !bit
    }
}

pub fn szp(w: W, flags: u16, r: u32) -> u16 {
    let f = put(flags, SF, r & w.sign() != 0);
    let f = put(f, ZF, r & w.mask() == 0);
    put(f, PF, parity_even(r))
}

/// r = a + b + c
pub fn add(w: W, flags: u16, a: u32, b: u32, c: u32) -> (u32, u16) {
    let a = a & w.mask();
    let b = b & w.mask();
    let wide = a + b + c;
    let r = wide & w.mask();
    let mut f = szp(w, flags, r);
    f = put(f, CF, wide > w.mask());
    f = put(f, AF, (a ^ b ^ r) & 0x10 != 0);
    f = put(f, OF, (!(a ^ b) & (a ^ r)) & w.sign() != 0);
    (r, f)
}

/// r = a - b - c
pub fn sub(w: W, flags: u16, a: u32, b: u32, c: u32) -> (u32, u16) {
    let a = a & w.mask();
    let b = b & w.mask();
    let r = a.wrapping_sub(b).wrapping_sub(c) & w.mask();
    let mut f = szp(w, flags, r);
    f = put(f, CF, (a as u64) < (b as u64 + c as u64));
    f = put(f, AF, (a ^ b ^ r) & 0x10 != 0);
    f = put(f, OF, ((a ^ b) & (a ^ r)) & w.sign() != 0);
    (r, f)
}

/// Second, independent formulation (bit-serial full adder) used by the oracle self test.
pub fn add_bitserial(w: W, flags: u16, a: u32, b: u32, c: u32) -> (u32, u16) {
    let n = w.bits();
    let mut carry = c & 1;
    let mut r = 0u32;
    let mut carry_into_msb = 0;
    let mut carry3 = 0;
    for i in 0..n {
        let x = (a >> i) & 1;
        let y = (b >> i) & 1;
        if i == n - 1 {
            carry_into_msb = carry;
        }
        let s = x ^ y ^ carry;
        carry = (x & y) | (x & carry) | (y & carry);
        if i == 3 {
            carry3 = carry;
        }
        r |= s << i;
    }
    let mut f = flags;
    f = put(f, SF, (r >> (n - 1)) & 1 == 1);
    f = put(f, ZF, r == 0);
    f = put(f, PF, (r & 0xFF).count_ones() & 1 == 0);
    f = put(f, CF, carry == 1);
    f = put(f, AF, carry3 == 1);
    f = put(f, OF, carry ^ carry_into_msb == 1);
    (r, f)
}

pub fn sub_bitserial(w: W, flags: u16, a: u32, b: u32, c: u32) -> (u32, u16) {
    // a - b - c = a + ~b + (1-c), with carry and aux carry inverted
    let (r, f) = add_bitserial(w, flags, a, !b & w.mask(), 1 - (c & 1));
    (r, f ^ CF ^ AF)
}

#[derive(Clone, Copy, PartialEq, Eq, Debug, Hash)]
pub enum BinOp {
    Add,
    Adc,
    Sub,
    Sbb,
    Cmp,
    And,
    Or,
    Xor,
    Test,
}
impl BinOp {
    pub const ARITH: [BinOp; 5] = [BinOp::Add, BinOp::Adc, BinOp::Sub, BinOp::Sbb, BinOp::Cmp];
    pub const LOGIC: [BinOp; 4] = [BinOp::And, BinOp::Or, BinOp::Xor, BinOp::Test];
    pub fn name(self) -> &'static str {
        match self {
            BinOp::Add => "add",
            BinOp::Adc => "adc",
            BinOp::Sub => "sub",
            BinOp::Sbb => "sbb",
            BinOp::Cmp => "cmp",
            BinOp::And => "and",
            BinOp::Or => "or",
            BinOp::Xor => "xor",
            BinOp::Test => "test",
        }
    }
    pub fn is_logic(self) -> bool {
        matches!(self, BinOp::And | BinOp::Or | BinOp::Xor | BinOp::Test)
    }
    pub fn writes(self) -> bool {
        !matches!(self, BinOp::Cmp | BinOp::Test)
    }
}

/// Binary ALU operation: returns (value to write back or None, flags, undefined mask)
pub fn binop(op: BinOp, w: W, flags: u16, a: u32, b: u32) -> (Option<u32>, FlagRes) {
    let cin = (flags & CF != 0) as u32;
    match op {
        BinOp::Add => {
            let (r, f) = add(w, flags, a, b, 0);
            (Some(r), FlagRes { flags: f, undef: 0 })
        }
        BinOp::Adc => {
            let (r, f) = add(w, flags, a, b, cin);
            (Some(r), FlagRes { flags: f, undef: 0 })
        }
        BinOp::Sub => {
            let (r, f) = sub(w, flags, a, b, 0);
            (Some(r), FlagRes { flags: f, undef: 0 })
        }
        BinOp::Sbb => {
            let (r, f) = sub(w, flags, a, b, cin);
            (Some(r), FlagRes { flags: f, undef: 0 })
        }
        BinOp::Cmp => {
            let (_, f) = sub(w, flags, a, b, 0);
            (None, FlagRes { flags: f, undef: 0 })
        }
        BinOp::And | BinOp::Or | BinOp::Xor | BinOp::Test => {
            let r = match op {
                BinOp::And | BinOp::Test => a & b,
                BinOp::Or => a | b,
                _ => a ^ b,
            } & w.mask();
            let f = szp(w, flags, r) & !(CF | OF);
            (
                if op == BinOp::Test { None } else { Some(r) },
                FlagRes { flags: f, undef: AF },
            )
        }
    }
}

#[derive(Clone, Copy, PartialEq, Eq, Debug, Hash)]
pub enum UnOp {
    Inc,
    Dec,
    Neg,
    Not,
}
impl UnOp {
    pub fn name(self) -> &'static str {
        match self {
            UnOp::Inc => "inc",
            UnOp::Dec => "dec",
            UnOp::Neg => "neg",
            UnOp::Not => "not",
        }
    }
}

pub fn unop(op: UnOp, w: W, flags: u16, a: u32) -> (u32, FlagRes) {
    match op {
        UnOp::Inc => {
            let (r, f) = add(w, flags, a, 1, 0);
            (r, FlagRes { flags: (f & !CF) | (flags & CF), undef: 0 })
        }
        UnOp::Dec => {
            let (r, f) = sub(w, flags, a, 1, 0);
            (r, FlagRes { flags: (f & !CF) | (flags & CF), undef: 0 })
        }
        UnOp::Neg => {
            let (r, f) = sub(w, flags, 0, a, 0);
            (r, FlagRes { flags: f, undef: 0 })
        }
        UnOp::Not => ((!a) & w.mask(), FlagRes { flags, undef: 0 }),
    }
}

#[derive(Clone, Copy, PartialEq, Eq, Debug, Hash)]
pub enum ShOp {
    Shl,
    Sal,
    Shr,
    Sar,
    Rol,
    Ror,
    Rcl,
    Rcr,
}
impl ShOp {
    pub const ALL: [ShOp; 8] = [
        ShOp::Shl,
        ShOp::Sal,
        ShOp::Shr,
        ShOp::Sar,
        ShOp::Rol,
        ShOp::Ror,
        ShOp::Rcl,
        ShOp::Rcr,
    ];
    pub fn name(self) -> &'static str {
        match self {
            ShOp::Shl => "shl",
            ShOp::Sal => "sal",
            ShOp::Shr => "shr",
            ShOp::Sar => "sar",
            ShOp::Rol => "rol",
            ShOp::Ror => "ror",
            ShOp::Rcl => "rcl",
            ShOp::Rcr => "rcr",
        }
    }
    pub fn is_shift(self) -> bool {
        matches!(self, ShOp::Shl | ShOp::Sal | ShOp::Shr | ShOp::Sar)
    }
}

/// One single-bit step; returns (new value, new CF)
pub fn shift_step(op: ShOp, w: W, v: u32, cf: bool) -> (u32, bool) {
    let n = w.bits();
    let msb = (v >> (n - 1)) & 1;
    let lsb = v & 1;
    match op {
        ShOp::Shl | ShOp::Sal => ((v << 1) & w.mask(), msb == 1),
        ShOp::Shr => (v >> 1, lsb == 1),
        ShOp::Sar => ((v >> 1) | (msb << (n - 1)), lsb == 1),
        ShOp::Rol => (((v << 1) | msb) & w.mask(), msb == 1),
        ShOp::Ror => ((v >> 1) | (lsb << (n - 1)), lsb == 1),
        ShOp::Rcl => (((v << 1) | cf as u32) & w.mask(), msb == 1),
        ShOp::Rcr => ((v >> 1) | ((cf as u32) << (n - 1)), lsb == 1),
    }
}

/// Shift/rotate by `count` single-bit steps.
pub fn shift(op: ShOp, w: W, flags: u16, v: u32, count: u32) -> (u32, FlagRes) {
    let v = v & w.mask();
    if count == 0 {
        return (v, FlagRes { flags, undef: 0 });
    }
    let mut cur = v;
    let mut cf = flags & CF != 0;
    for _ in 0..count {
        let (nv, ncf) = shift_step(op, w, cur, cf);
        cur = nv;
        cf = ncf;
    }
    let mut f = put(flags, CF, cf);
    let mut undef = 0u16;
    let n = w.bits();
    let msb_r = (cur >> (n - 1)) & 1;
    if count == 1 {
        let of = match op {
            ShOp::Shl | ShOp::Sal | ShOp::Rol | ShOp::Rcl => msb_r != cf as u32,
            ShOp::Shr => (v >> (n - 1)) & 1 == 1,
            ShOp::Sar => false,
            ShOp::Ror | ShOp::Rcr => msb_r != (cur >> (n - 2)) & 1,
        };
        f = put(f, OF, of);
    } else {
        undef |= OF;
    }
    if op.is_shift() {
        f = szp(w, f, cur);
        undef |= AF;
    }
    (cur, FlagRes { flags: f, undef })
}

#[derive(Clone, Copy, PartialEq, Eq, Debug, Hash)]
pub enum MulOp {
    Mul,
    Imul,
    Div,
    Idiv,
}
impl MulOp {
    pub const ALL: [MulOp; 4] = [MulOp::Mul, MulOp::Imul, MulOp::Div, MulOp::Idiv];
    pub fn name(self) -> &'static str {
        match self {
            MulOp::Mul => "mul",
            MulOp::Imul => "imul",
            MulOp::Div => "div",
            MulOp::Idiv => "idiv",
        }
    }
}

/// Outcome of MUL/IMUL/DIV/IDIV on the accumulator pair.
#[derive(Clone, Copy, Debug, PartialEq, Eq)]
pub enum MulDiv {
    /// new (AX) for byte ops, new (DX:AX) for word ops, flags, undefined mask
    Ok { lo: u32, hi: u32, fr: FlagRes },
    /// divide error (INT 0)
    DivErr,
    /// IDIV whose quotient is exactly -2^(w-1): divide error on the 8086, accepted by later CPUs;
    /// either outcome is accepted (DESIGN section 4.4)
    Either { lo: u32, hi: u32, fr: FlagRes },
}

/// `lo`/`hi`: for byte ops lo = AL, hi = AH; for word ops lo = AX, hi = DX.
pub fn muldiv(op: MulOp, w: W, flags: u16, lo: u32, hi: u32, x: u32) -> MulDiv {
    let n = w.bits();
    let m = w.mask();
    let x = x & m;
    let sx = |v: u32| -> i64 {
        if v & w.sign() != 0 {
            v as i64 - (1i64 << n)
        } else {
            v as i64
        }
    };
    match op {
        MulOp::Mul => {
            let p = (lo & m) as u64 * x as u64;
            let l = (p as u32) & m;
            let h = ((p >> n) as u32) & m;
            let c = h != 0;
            let f = put(put(flags, CF, c), OF, c);
            MulDiv::Ok { lo: l, hi: h, fr: FlagRes { flags: f, undef: SF | ZF | PF | AF } }
        }
        MulOp::Imul => {
            let p = sx(lo & m) * sx(x);
            let pu = p as u64;
            let l = (pu as u32) & m;
            let h = ((pu >> n) as u32) & m;
            let ext = if l & w.sign() != 0 { m } else { 0 };
            let c = h != ext;
            let f = put(put(flags, CF, c), OF, c);
            MulDiv::Ok { lo: l, hi: h, fr: FlagRes { flags: f, undef: SF | ZF | PF | AF } }
        }
        MulOp::Div => {
            if x == 0 {
                return MulDiv::DivErr;
            }
            let d = (((hi & m) as u64) << n) | (lo & m) as u64;
            let q = d / x as u64;
            let r = d % x as u64;
            if q > m as u64 {
                return MulDiv::DivErr;
            }
            MulDiv::Ok { lo: q as u32, hi: r as u32, fr: FlagRes { flags, undef: STATUS6 } }
        }
        MulOp::Idiv => {
            if x == 0 {
                return MulDiv::DivErr;
            }
            let du = (((hi & m) as u64) << n) | (lo & m) as u64;
            let d: i64 = if du & (1u64 << (2 * n - 1)) != 0 { du as i64 - (1i64 << (2 * n)) } else { du as i64 };
            let s = sx(x);
            let q = d / s; // truncates toward zero
            let r = d % s; // sign of dividend
            let smax = (1i64 << (n - 1)) - 1;
            if q > smax || q < -(smax + 1) {
                return MulDiv::DivErr;
            }
            let res_lo = (q as u64 as u32) & m;
            let res_hi = (r as u64 as u32) & m;
            let fr = FlagRes { flags, undef: STATUS6 };
            if q == -(smax + 1) {
                return MulDiv::Either { lo: res_lo, hi: res_hi, fr };
            }
            MulDiv::Ok { lo: res_lo, hi: res_hi, fr }
        }
    }
}

#[derive(Clone, Copy, PartialEq, Eq, Debug, Hash)]
pub enum AdjOp {
    Aaa,
    Aas,
    Daa,
    Das,
    Aam,
    Aad,
    Cbw,
    Cwd,
}
impl AdjOp {
    pub const ALL: [AdjOp; 8] =
        [AdjOp::Aaa, AdjOp::Aas, AdjOp::Daa, AdjOp::Das, AdjOp::Aam, AdjOp::Aad, AdjOp::Cbw, AdjOp::Cwd];
    pub fn name(self) -> &'static str {
        match self {
            AdjOp::Aaa => "aaa",
            AdjOp::Aas => "aas",
            AdjOp::Daa => "daa",
            AdjOp::Das => "das",
            AdjOp::Aam => "aam",
            AdjOp::Aad => "aad",
            AdjOp::Cbw => "cbw",
            AdjOp::Cwd => "cwd",
        }
    }
}

/// One admissible outcome of an adjust instruction.
#[derive(Clone, Copy, Debug, PartialEq, Eq)]
pub struct AdjOut {
    pub ax: u16,
    pub dx: u16,
    pub fr: FlagRes,
}

/// All admissible outcomes (8086 manual pseudo code; later-SDM pseudo code where it differs on
/// non-BCD inputs). The first one is the 8086 manual's.
pub fn adjust(op: AdjOp, flags: u16, ax: u16, dx: u16) -> Vec<AdjOut> {
    let al = (ax & 0xFF) as u32;
    let ah = (ax >> 8) as u32;
    let af = flags & AF != 0;
    let cf = flags & CF != 0;
    let mk = |al: u32, ah: u32| -> u16 { (((ah & 0xFF) << 8) | (al & 0xFF)) as u16 };
    let mut out = Vec::new();
    match op {
        AdjOp::Aaa | AdjOp::Aas => {
            let undef = OF | SF | ZF | PF;
            if (al & 0x0F) > 9 || af {
                let f = flags | AF | CF;
                if op == AdjOp::Aaa {
                    // 8086: AL+6 (8 bit), AH+1
                    out.push(AdjOut { ax: mk((al + 6) & 0x0F, ah + 1), dx, fr: FlagRes { flags: f, undef } });
                    // SDM: AX += 0x106
                    let axn = (ax as u32 + 0x106) & 0xFFFF;
                    out.push(AdjOut { ax: (axn & 0xFF0F) as u16, dx, fr: FlagRes { flags: f, undef } });
                } else {
                    out.push(AdjOut {
                        ax: mk(al.wrapping_sub(6) & 0x0F, ah.wrapping_sub(1)),
                        dx,
                        fr: FlagRes { flags: f, undef },
                    });
                    let axn = (ax as u32).wrapping_sub(6) & 0xFFFF;
                    let axn = (axn & 0x00FF) | ((((axn >> 8).wrapping_sub(1)) & 0xFF) << 8);
                    out.push(AdjOut { ax: (axn & 0xFF0F) as u16, dx, fr: FlagRes { flags: f, undef } });
                }
            } else {
                let f = flags & !(AF | CF);
                out.push(AdjOut { ax: mk(al & 0x0F, ah), dx, fr: FlagRes { flags: f, undef } });
            }
        }
        AdjOp::Daa | AdjOp::Das => {
            let add = op == AdjOp::Daa;
            // variant A: 8086 manual (second test on the updated AL)
            {
                let mut a = al;
                let mut f = flags;
                if (a & 0x0F) > 9 || af {
                    a = if add { (a + 6) & 0xFF } else { a.wrapping_sub(6) & 0xFF };
                    f |= AF;
                } else {
                    f &= !AF;
                }
                if a > 0x9F || cf {
                    a = if add { (a + 0x60) & 0xFF } else { a.wrapping_sub(0x60) & 0xFF };
                    f |= CF;
                } else {
                    f &= !CF;
                }
                let f = szp(W::B, f, a);
                out.push(AdjOut { ax: mk(a, ah), dx, fr: FlagRes { flags: f, undef: OF } });
            }
            // variant B: SDM (tests on the old AL, carry out of the first step)
            {
                let old_al = al;
                let mut a = al;
                let mut f = flags & !CF;
                if (a & 0x0F) > 9 || af {
                    let t = if add { a + 6 } else { a.wrapping_sub(6) };
                    let carry = if add { t > 0xFF } else { a < 6 };
                    a = t & 0xFF;
                    if cf || carry {
                        f |= CF;
                    }
                    f |= AF;
                } else {
                    f &= !AF;
                }
                if old_al > 0x99 || cf {
                    a = if add { (a + 0x60) & 0xFF } else { a.wrapping_sub(0x60) & 0xFF };
                    f |= CF;
                } else if add {
                    f &= !CF;
                }
                let f = szp(W::B, f, a);
                out.push(AdjOut { ax: mk(a, ah), dx, fr: FlagRes { flags: f, undef: OF } });
            }
        }
        AdjOp::Aam => {
            let q = al / 10;
            let r = al % 10;
            let f = szp(W::B, flags, r);
            out.push(AdjOut { ax: mk(r, q), dx, fr: FlagRes { flags: f, undef: OF | AF | CF } });
        }
        AdjOp::Aad => {
            let r = (ah * 10 + al) & 0xFF;
            let f = szp(W::B, flags, r);
            out.push(AdjOut { ax: mk(r, 0), dx, fr: FlagRes { flags: f, undef: OF | AF | CF } });
        }
        AdjOp::Cbw => {
            let h = if al & 0x80 != 0 { 0xFF } else { 0 };
            out.push(AdjOut { ax: mk(al, h), dx, fr: FlagRes { flags, undef: 0 } });
        }
        AdjOp::Cwd => {
            let d = if ax & 0x8000 != 0 { 0xFFFF } else { 0 };
            out.push(AdjOut { ax, dx: d, fr: FlagRes { flags, undef: 0 } });
        }
    }
    out.dedup();
    out
}

/// The 31 conditional-jump predicates (+ jmp) by canonical or synonym mnemonic (lower case).
pub fn jump_taken(mn: &str, flags: u16) -> Option<bool> {
    let cf = flags & CF != 0;
    let zf = flags & ZF != 0;
    let sf = flags & SF != 0;
    let of = flags & OF != 0;
    let pf = flags & PF != 0;
    Some(match mn {
        "jmp" => true,
        "ja" | "jnbe" => !cf && !zf,
        "jae" | "jnb" | "jnc" => !cf,
        "jb" | "jnae" | "jc" => cf,
        "jbe" | "jna" => cf || zf,
        "je" | "jz" => zf,
        "jne" | "jnz" => !zf,
        "jg" | "jnle" => !zf && sf == of,
        "jge" | "jnl" => sf == of,
        "jl" | "jnge" => sf != of,
        "jle" | "jng" => zf || sf != of,
        "jo" => of,
        "jno" => !of,
        "js" => sf,
        "jns" => !sf,
        "jp" | "jpe" => pf,
        "jnp" | "jpo" => !pf,
        _ => return None,
    })
}

pub const JUMP_MNEMONICS: [&str; 32] = [
    "jmp", "ja", "jnbe", "jae", "jnb", "jb", "jnae", "jbe", "jna", "jc", "je", "jz", "jg", "jnle", "jge", "jnl",
    "jl", "jnge", "jle", "jng", "jnc", "jne", "jnz", "jno", "jnp", "jpo", "jns", "jo", "jp", "jpe", "js", "jcxz",
];
pub const LOOP_MNEMONICS: [&str; 5] = ["loop", "loope", "loopz", "loopne", "loopnz"];

/// complementary condition pairs (canonical names)
pub const COMPLEMENTS: [(&str, &str); 8] = [
    ("ja", "jbe"),
    ("jae", "jb"),
    ("je", "jne"),
    ("jg", "jle"),
    ("jge", "jl"),
    ("jo", "jno"),
    ("js", "jns"),
    ("jp", "jnp"),
];

/// synonym groups
pub const SYNONYMS: [&[&str]; 14] = [
    &["ja", "jnbe"],
    &["jae", "jnb", "jnc"],
    &["jb", "jnae", "jc"],
    &["jbe", "jna"],
    &["je", "jz"],
    &["jne", "jnz"],
    &["jg", "jnle"],
    &["jge", "jnl"],
    &["jl", "jnge"],
    &["jle", "jng"],
    &["jp", "jpe"],
    &["jnp", "jpo"],
    &["loope", "loopz"],
    &["loopne", "loopnz"],
];
