//! Violation records, known-findings matching (tiny expression language), reporting, evidence.

use serde_json::{json, Value};
use std::collections::BTreeMap;
use std::sync::atomic::{AtomicU64, Ordering};
use std::sync::Mutex;

// ---------------------------------------------------------------------------------------------
// expression language: integers, identifiers, unary ! - ~, binary * / % + - << >> < <= > >= == != & ^ | && ||

#[derive(Clone, Debug)]
pub enum Expr {
    Num(i64),
    Var(String),
    Un(char, Box<Expr>),
    Bin(&'static str, Box<Expr>, Box<Expr>),
}

struct Lexer<'a> {
    s: &'a [u8],
    i: usize,
}

#[derive(Clone, Debug, PartialEq)]
enum T {
    Num(i64),
    Id(String),
    Op(&'static str),
    LP,
    RP,
    End,
}

const OPS: [&str; 21] = [
    "&&", "||", "==", "!=", "<=", ">=", "<<", ">>", "<", ">", "+", "-", "*", "/", "%", "&", "|", "^", "!", "~", "=",
];

impl<'a> Lexer<'a> {
    fn next(&mut self) -> Result<T, String> {
        while self.i < self.s.len() && (self.s[self.i] as char).is_whitespace() {
            self.i += 1;
        }
        if self.i >= self.s.len() {
            return Ok(T::End);
        }
        let c = self.s[self.i] as char;
        if c.is_ascii_digit() {
            let st = self.i;
            while self.i < self.s.len() && (self.s[self.i] as char).is_ascii_alphanumeric() {
                self.i += 1;
            }
            let t = std::str::from_utf8(&self.s[st..self.i]).unwrap();
            let v = if let Some(h) = t.strip_prefix("0x").or(t.strip_prefix("0X")) {
                i64::from_str_radix(h, 16)
            } else if let Some(b) = t.strip_prefix("0b") {
                i64::from_str_radix(b, 2)
            } else {
                t.parse::<i64>()
            };
            return v.map(T::Num).map_err(|e| format!("bad number {}: {}", t, e));
        }
        if c.is_ascii_alphabetic() || c == '_' {
            let st = self.i;
            while self.i < self.s.len() && ((self.s[self.i] as char).is_ascii_alphanumeric() || self.s[self.i] == b'_') {
                self.i += 1;
            }
            return Ok(T::Id(std::str::from_utf8(&self.s[st..self.i]).unwrap().to_string()));
        }
        if c == '(' {
            self.i += 1;
            return Ok(T::LP);
        }
        if c == ')' {
            self.i += 1;
            return Ok(T::RP);
        }
        for op in OPS.iter() {
            if self.s[self.i..].starts_with(op.as_bytes()) {
                self.i += op.len();
                return Ok(T::Op(op));
            }
        }
        Err(format!("unexpected character {:?} at {}", c, self.i))
    }
}

fn prec(op: &str) -> u8 {
    match op {
        "||" => 1,
        "&&" => 2,
        "|" => 3,
        "^" => 4,
        "&" => 5,
        "==" | "!=" => 6,
        "<" | "<=" | ">" | ">=" => 7,
        "<<" | ">>" => 8,
        "+" | "-" => 9,
        "*" | "/" | "%" => 10,
        _ => 0,
    }
}

struct Parser<'a> {
    lx: Lexer<'a>,
    cur: T,
}

impl<'a> Parser<'a> {
    fn adv(&mut self) -> Result<(), String> {
        self.cur = self.lx.next()?;
        Ok(())
    }
    fn primary(&mut self) -> Result<Expr, String> {
        match self.cur.clone() {
            T::Num(n) => {
                self.adv()?;
                Ok(Expr::Num(n))
            }
            T::Id(s) => {
                self.adv()?;
                Ok(Expr::Var(s))
            }
            T::LP => {
                self.adv()?;
                let e = self.expr(1)?;
                if self.cur != T::RP {
                    return Err("expected )".into());
                }
                self.adv()?;
                Ok(e)
            }
            T::Op("!") => {
                self.adv()?;
                Ok(Expr::Un('!', Box::new(self.primary()?)))
            }
            T::Op("-") => {
                self.adv()?;
                Ok(Expr::Un('-', Box::new(self.primary()?)))
            }
            T::Op("~") => {
                self.adv()?;
                Ok(Expr::Un('~', Box::new(self.primary()?)))
            }
            t => Err(format!("unexpected token {:?}", t)),
        }
    }
    fn expr(&mut self, min: u8) -> Result<Expr, String> {
        let mut lhs = self.primary()?;
        loop {
            let op = match &self.cur {
                T::Op(o) if prec(o) >= min && prec(o) > 0 => *o,
                _ => break,
            };
            let p = prec(op);
            self.adv()?;
            let rhs = self.expr(p + 1)?;
            lhs = Expr::Bin(op, Box::new(lhs), Box::new(rhs));
        }
        Ok(lhs)
    }
}

pub fn parse_expr(s: &str) -> Result<Expr, String> {
    let mut p = Parser { lx: Lexer { s: s.as_bytes(), i: 0 }, cur: T::End };
    p.adv()?;
    let e = p.expr(1)?;
    if p.cur != T::End {
        return Err(format!("trailing input in {:?}", s));
    }
    Ok(e)
}

pub type Vars<'a> = &'a [(&'a str, i64)];

pub fn eval(e: &Expr, vars: Vars) -> Option<i64> {
    Some(match e {
        Expr::Num(n) => *n,
        Expr::Var(v) => vars.iter().find(|(k, _)| k == v)?.1,
        Expr::Un(c, a) => {
            let a = eval(a, vars)?;
            match c {
                '!' => (a == 0) as i64,
                '-' => a.wrapping_neg(),
                _ => !a,
            }
        }
        Expr::Bin(op, a, b) => {
            let x = eval(a, vars)?;
            // short circuit
            if *op == "&&" {
                if x == 0 {
                    return Some(0);
                }
                return Some((eval(b, vars)? != 0) as i64);
            }
            if *op == "||" {
                if x != 0 {
                    return Some(1);
                }
                return Some((eval(b, vars)? != 0) as i64);
            }
            let y = eval(b, vars)?;
            match *op {
                "==" => (x == y) as i64,
                "!=" => (x != y) as i64,
                "<" => (x < y) as i64,
                "<=" => (x <= y) as i64,
                ">" => (x > y) as i64,
                ">=" => (x >= y) as i64,
                "<<" => x.wrapping_shl(y as u32),
                ">>" => x.wrapping_shr(y as u32),
                "+" => x.wrapping_add(y),
                "-" => x.wrapping_sub(y),
                "*" => x.wrapping_mul(y),
                "/" => {
                    if y == 0 {
                        return None;
                    }
                    x.wrapping_div(y)
                }
                "%" => {
                    if y == 0 {
                        return None;
                    }
                    x.wrapping_rem(y)
                }
                "&" => x & y,
                "|" => x | y,
                "^" => x ^ y,
                _ => return None,
            }
        }
    })
}

// ---------------------------------------------------------------------------------------------

#[derive(Debug)]
pub struct Known {
    pub property: String,
    pub status: String,
    pub site: String,
    pub field: String,
    pub when_src: String,
    pub when: Expr,
    pub got_src: Option<String>,
    pub got: Option<Expr>,
    /// textual observation the entry is limited to (for non-numeric observations)
    pub got_text: Option<String>,
    pub what: String,
    pub absorbed: AtomicU64,
}

/// `pat` is a '|'-separated list of alternatives, each an exact site or a prefix ending in '*'
fn site_matches(pat: &str, site: &str) -> bool {
    pat.split('|').any(|alt| {
        if let Some(p) = alt.strip_suffix('*') {
            site.starts_with(p)
        } else {
            alt == site
        }
    })
}

pub fn load_known(path: &str, property: &str) -> Result<Vec<Known>, String> {
    let txt = match std::fs::read_to_string(path) {
        Ok(t) => t,
        Err(e) => return Err(format!("cannot read {}: {}", path, e)),
    };
    let v: Value = serde_json::from_str(&txt).map_err(|e| format!("{}: {}", path, e))?;
    let arr = v.as_array().ok_or("known_findings.json: not an array")?;
    let mut out = Vec::new();
    for e in arr {
        let g = |k: &str| e.get(k).and_then(|x| x.as_str()).map(|s| s.to_string());
        let prop = g("property").ok_or("entry without property")?;
        if prop != property {
            continue;
        }
        let status = g("status").unwrap_or_else(|| "known".into());
        let when_src = g("when").unwrap_or_else(|| "1".into());
        let when = parse_expr(&when_src).map_err(|e| format!("when {:?}: {}", when_src, e))?;
        let got_src = g("got");
        let got = match &got_src {
            Some(s) => Some(parse_expr(s).map_err(|e| format!("got {:?}: {}", s, e))?),
            None => None,
        };
        out.push(Known {
            property: prop,
            status,
            site: g("site").unwrap_or_default(),
            field: g("field").unwrap_or_default(),
            when_src,
            when,
            got_src,
            got,
            got_text: g("got_text"),
            what: g("what").unwrap_or_default(),
            absorbed: AtomicU64::new(0),
        });
    }
    Ok(out)
}

/// A violation as produced by a check.
#[derive(Clone, Debug)]
pub struct Viol {
    pub site: String,
    pub field: String,
    pub vars: Vec<(String, i64)>,
    /// numeric observation (compared with a known entry's `got` expression) if there is one
    pub got_val: Option<i64>,
    pub expected: String,
    pub got: String,
    /// replayable case description
    pub case: Value,
    /// smaller = simpler counterexample
    pub weight: u64,
}

pub struct Reporter {
    pub property: String,
    pub tier: String,
    pub known: Vec<Known>,
    pub unknown: Mutex<BTreeMap<(String, String), (u64, Viol)>>,
    pub unknown_total: AtomicU64,
    pub started: std::time::Instant,
}

impl Reporter {
    pub fn new(property: &str, tier: &str) -> Reporter {
        let path = std::env::var("VERIF_KNOWN").unwrap_or_else(|_| format!("{}/known_findings.json", crate::cli::home()));
        let known = match load_known(&path, property) {
            Ok(k) => k,
            Err(e) => {
                eprintln!("MACHINERY: {}", e);
                std::process::exit(2);
            }
        };
        Reporter {
            property: property.to_string(),
            tier: tier.to_string(),
            known,
            unknown: Mutex::new(BTreeMap::new()),
            unknown_total: AtomicU64::new(0),
            started: std::time::Instant::now(),
        }
    }

    /// Is this (site, field, vars, got) absorbed by a known entry? Cheap pre-check usable in hot loops.
    pub fn absorbed_by(&self, site: &str, field: &str, vars: Vars, got_val: Option<i64>, got_text: &str) -> bool {
        for k in self.known.iter() {
            if k.status != "known" || k.field != field || !site_matches(&k.site, site) {
                continue;
            }
            if eval(&k.when, vars).unwrap_or(0) == 0 {
                continue;
            }
            if let Some(g) = &k.got {
                match (eval(g, vars), got_val) {
                    (Some(a), Some(b)) if a == b => {}
                    _ => continue,
                }
            }
            if let Some(t) = &k.got_text {
                if !got_text.contains(t.as_str()) {
                    continue;
                }
            }
            k.absorbed.fetch_add(1, Ordering::Relaxed);
            return true;
        }
        false
    }

    /// Report a violation (absorbed by a known finding or recorded as new).
    pub fn report(&self, v: Viol) {
        let vars: Vec<(&str, i64)> = v.vars.iter().map(|(k, x)| (k.as_str(), *x)).collect();
        if self.absorbed_by(&v.site, &v.field, &vars, v.got_val, &v.got) {
            return;
        }
        self.unknown_total.fetch_add(1, Ordering::Relaxed);
        let mut u = self.unknown.lock().unwrap();
        let key = (v.site.clone(), v.field.clone());
        match u.get_mut(&key) {
            Some((n, old)) => {
                *n += 1;
                if v.weight < old.weight {
                    *old = v;
                }
            }
            None => {
                u.insert(key, (1, v));
            }
        }
    }

    pub fn unknown_count(&self) -> u64 {
        self.unknown_total.load(Ordering::Relaxed)
    }

    /// Print KNOWN-FINDING / VIOLATION lines, write replay files; returns the exit code.
    pub fn finish(&self, cov: Coverage) -> i32 {
        let mut known_json = Vec::new();
        for k in self.known.iter() {
            let n = k.absorbed.load(Ordering::Relaxed);
            known_json.push(json!({"site":k.site,"field":k.field,"when":k.when_src,"got":k.got_src,"status":k.status,"absorbed":n,"what":k.what}));
            if k.status == "known" && n > 0 {
                println!(
                    "KNOWN-FINDING: property={} site={} field={} when=\"{}\" instances={} — {}",
                    self.property, k.site, k.field, k.when_src, n, k.what
                );
            }
        }
        let u = self.unknown.lock().unwrap();
        let mut classes: Vec<&(u64, Viol)> = u.values().collect();
        classes.sort_by_key(|(_, v)| v.weight);
        let dir = format!("{}/replays/{}", crate::cli::home(), self.property);
        let _ = std::fs::create_dir_all(&dir);
        let mut printed = 0;
        let mut viol_json = Vec::new();
        for (n, v) in classes.iter() {
            let rec = json!({
                "property": self.property, "tier": self.tier, "site": v.site, "field": v.field,
                "case": v.case, "vars": v.vars.iter().map(|(k,x)| (k.clone(), json!(x))).collect::<serde_json::Map<_,_>>(),
                "expected": v.expected, "got": v.got, "instances_in_class": n,
                "how": format!("./check {} --replay <this file>", self.property),
            });
            let txt = serde_json::to_string_pretty(&rec).unwrap();
            let h = fnv(txt.as_bytes());
            let path = format!("{}/{:016x}.json", dir, h);
            let _ = std::fs::write(&path, &txt);
            if printed < 20 {
                println!("VIOLATION property={} replay={}", self.property, path);
                println!(
                    "  site={} field={} instances={} expected={} got={}",
                    v.site,
                    v.field,
                    n,
                    trunc(&v.expected, 200),
                    trunc(&v.got, 200)
                );
                printed += 1;
            }
            if viol_json.len() < 2000 {
                viol_json.push(json!({"site":v.site,"field":v.field,"instances":n,"replay":path,"expected":trunc(&v.expected,80),"got":trunc(&v.got,80)}));
            }
        }
        let nviol = classes.len();
        cov.write(self, known_json, viol_json, nviol);
        if nviol > 0 {
            1
        } else {
            0
        }
    }
}

fn trunc(s: &str, n: usize) -> String {
    if s.len() <= n {
        s.to_string()
    } else {
        let mut e = n;
        while !s.is_char_boundary(e) {
            e -= 1;
        }
        format!("{}…", &s[..e])
    }
}

pub fn fnv(b: &[u8]) -> u64 {
    let mut h: u64 = 0xcbf29ce484222325;
    for x in b {
        h ^= *x as u64;
        h = h.wrapping_mul(0x100000001b3);
    }
    h
}

/// Coverage numbers measured by a check.
#[derive(Default)]
pub struct Coverage {
    pub states: u64,
    pub transitions: u64,
    pub evaluations: u64,
    pub distinct_nontrivial: u64,
    pub distinct_outcomes: u64,
    pub exhaustive: bool,
    pub rule: String,
    pub bounds: Value,
    pub caps_hit: Vec<String>,
    pub samples: Vec<Value>,
    pub assumptions: Vec<String>,
    pub extra: serde_json::Map<String, Value>,
    pub cli_runs: u64,
}

impl Coverage {
    fn write(&self, r: &Reporter, known: Vec<Value>, viols: Vec<Value>, nviol: usize) {
        let seed: i64 = std::env::var("VERIF_SEED").ok().and_then(|s| s.parse().ok()).unwrap_or(0);
        let mut cov = serde_json::Map::new();
        cov.insert("states".into(), json!(self.states.max(1)));
        cov.insert("transitions".into(), json!(self.transitions.max(1)));
        cov.insert("traces_validated_against_impl".into(), json!(self.transitions));
        cov.insert("evaluations".into(), json!(self.evaluations.max(1)));
        cov.insert("distinct_nontrivial".into(), json!(self.distinct_nontrivial));
        cov.insert("distinct_outcomes".into(), json!(self.distinct_outcomes));
        cov.insert("exhaustive".into(), json!(self.exhaustive && self.caps_hit.is_empty()));
        cov.insert("rule".into(), json!(self.rule));
        cov.insert("bounds".into(), self.bounds.clone());
        cov.insert("caps_hit".into(), json!(self.caps_hit));
        cov.insert("known".into(), json!(known));
        cov.insert("violation_classes".into(), json!(viols));
        cov.insert("cli_runs".into(), json!(self.cli_runs));
        let samples = if self.samples.is_empty() { vec![json!("no sample recorded")] } else { self.samples.clone() };
        cov.insert("samples".into(), json!(samples));
        for (k, v) in self.extra.iter() {
            cov.insert(k.clone(), v.clone());
        }
        let ev = json!({
            "property_id": r.property,
            "tier": r.tier,
            "seed": seed,
            "level": "model_checking",
            "coverage": cov,
            "assumptions": self.assumptions,
            "wall_s": r.started.elapsed().as_secs_f64(),
            "violations": nviol,
        });
        let _ = std::fs::create_dir_all(format!("{}/evidence", crate::cli::home()));
        let path = format!("{}/evidence/{}.json", crate::cli::home(), r.property);
        if let Err(e) = std::fs::write(&path, serde_json::to_string_pretty(&ev).unwrap()) {
            eprintln!("MACHINERY: cannot write {}: {}", path, e);
            std::process::exit(2);
        }
    }
}

#[cfg(test)]
mod tests {
    use super::*;
    #[test]
    fn exprs() {
        let e = parse_expr("zf==0 && sf!=of").unwrap();
        assert_eq!(eval(&e, &[("zf", 0), ("sf", 1), ("of", 0)]), Some(1));
        assert_eq!(eval(&e, &[("zf", 1), ("sf", 1), ("of", 0)]), Some(0));
        let e = parse_expr("(a & 0xF) + 1 > 0xF || !(b >> 7)").unwrap();
        assert_eq!(eval(&e, &[("a", 15), ("b", 0x80)]), Some(1));
        assert_eq!(eval(&e, &[("a", 1), ("b", 0x80)]), Some(0));
        assert_eq!(eval(&parse_expr("x").unwrap(), &[]), None);
    }
}
