//! Binding to the code under test: real Preprocessor, DataParser, Interpreter.

use crate::mach::*;
use emulator_8086_lib as lib;
use lalrpop_util::ParseError;
use lib::{
    DataParser, Interpreter, InterpreterContext, Label, LabelType, Preprocessor, PreprocessorContext,
    PreprocessorOutput, State, VM,
};
use std::collections::HashMap;
use std::panic::{catch_unwind, AssertUnwindSafe};

pub fn silence_panics() {
    std::panic::set_hook(Box::new(|_| {}));
}

pub fn panic_msg(e: Box<dyn std::any::Any + Send>) -> String {
    if let Some(s) = e.downcast_ref::<&str>() {
        s.to_string()
    } else if let Some(s) = e.downcast_ref::<String>() {
        s.clone()
    } else {
        "panic".to_string()
    }
}

#[derive(Clone, Debug, PartialEq, Eq)]
pub struct LabelInfo {
    pub is_code: bool,
    pub source_position: usize,
    pub map: usize,
}

/// Everything the real Preprocessor produced for one source text.
#[derive(Clone, Debug, Default)]
pub struct Asm {
    pub code: Vec<String>,
    pub data: Vec<String>,
    pub labels: HashMap<String, LabelInfo>,
    pub fns: HashMap<String, usize>,
    pub source_map: HashMap<usize, usize>,
    pub undefined: Vec<(usize, String)>,
}

#[derive(Clone, Debug, PartialEq, Eq)]
pub enum AsmErr {
    /// diagnostic: (position if any, message)
    Diag { pos: Option<usize>, msg: String },
    Panic(String),
}

pub fn parse_error_to_diag<T: std::fmt::Display>(e: ParseError<usize, T, &str>) -> AsmErr {
    let msg = format!("{}", e);
    let pos = match &e {
        ParseError::UnrecognizedToken { token: (s, _, _), .. } => Some(*s),
        ParseError::InvalidToken { location } => Some(*location),
        ParseError::UnrecognizedEOF { location, .. } => Some(*location),
        ParseError::ExtraToken { token: (s, _, _) } => Some(*s),
        _ => None,
    };
    AsmErr::Diag { pos, msg }
}

/// Run the real Preprocessor on `src` (comment stripping is the driver's job, not done here).
thread_local! {
    /// parser objects are expensive to build (regex compilation, 3-7 ms); one per thread is reused.
    /// (C19 separately checks that a reused parser object answers like a fresh one.)
    static PRE: Preprocessor = Preprocessor::new();
}

pub fn assemble(src: &str) -> Result<Asm, AsmErr> {
    PRE.with(|p| assemble_with(p, src))
}

/// assemble with a fresh Preprocessor object
pub fn assemble_fresh(src: &str) -> Result<Asm, AsmErr> {
    let p = Preprocessor::new();
    assemble_with(&p, src)
}

pub fn assemble_with(p: &Preprocessor, src: &str) -> Result<Asm, AsmErr> {
    let r = catch_unwind(AssertUnwindSafe(|| {
        let mut ctx = PreprocessorContext::default();
        let mut out = PreprocessorOutput::default();
        match p.parse(&mut ctx, &mut out, src) {
            Ok(_) => {}
            Err(e) => {
                let (pos, msg) = match &e {
                    ParseError::UnrecognizedToken { token: (s, t, _), expected } => {
                        if t.1.is_empty() {
                            (Some(*s), expected.get(0).cloned().unwrap_or_default())
                        } else {
                            (Some(*s), format!("Unexpected Token : {}", t))
                        }
                    }
                    ParseError::InvalidToken { location } => (Some(*location), format!("{}", e)),
                    ParseError::UnrecognizedEOF { location, .. } => (Some(*location), format!("{}", e)),
                    ParseError::ExtraToken { token: (s, _, _) } => (Some(*s), format!("{}", e)),
                    _ => (None, format!("{}", e)),
                };
                return Err(AsmErr::Diag { pos, msg });
            }
        }
        let PreprocessorContext { label_map, mapper, fn_map, undefined_labels, .. } = ctx;
        let mut labels = HashMap::new();
        for (k, v) in label_map.iter() {
            labels.insert(
                k.clone(),
                LabelInfo {
                    is_code: matches!(v.get_type(), LabelType::CODE),
                    source_position: v.source_position as usize,
                    map: v.map as usize,
                },
            );
        }
        let mut undefined: Vec<(usize, String)> = undefined_labels.into_iter().collect();
        undefined.sort();
        Ok(Asm { code: out.code, data: out.data, labels, fns: fn_map, source_map: mapper.get_source_map(), undefined })
    }));
    match r {
        Ok(x) => x,
        Err(e) => Err(AsmErr::Panic(panic_msg(e))),
    }
}

impl Asm {
    pub fn ictx(&self) -> InterpreterContext {
        let mut label_map = HashMap::new();
        for (k, v) in self.labels.iter() {
            label_map.insert(
                k.clone(),
                Label::new(if v.is_code { LabelType::CODE } else { LabelType::DATA }, v.source_position as _, v.map as _),
            );
        }
        // (built through Default so that a field added to the context does not break the harness)
        let mut c = InterpreterContext::default();
        c.fn_map = self.fns.clone();
        c.label_map = label_map;
        c
    }
    /// the driver-level acceptance checks (undefined labels, start)
    pub fn driver_accepts(&self) -> Result<usize, String> {
        for (_, l) in self.undefined.iter() {
            if !self.labels.contains_key(l) {
                return Err(format!("Label {} used but not defined", l));
            }
        }
        match self.labels.get("start") {
            Some(l) if l.is_code => Ok(l.map),
            _ => Err("Error : necessary label 'start' is not found in code".to_string()),
        }
    }
}

/// (position, name) of an entry of the preprocessor's forward-reference collection, whatever collection it is
pub trait UndefEntry {
    fn entry(self) -> (usize, String);
}
impl UndefEntry for &(usize, String) {
    fn entry(self) -> (usize, String) {
        (self.0, self.1.clone())
    }
}
impl UndefEntry for (&usize, &String) {
    fn entry(self) -> (usize, String) {
        (*self.0, self.1.clone())
    }
}

/// the interpreter's call stack as indices (whatever integer type the field has)
pub fn cs_get(ictx: &InterpreterContext) -> Vec<usize> {
    ictx.call_stack.iter().map(|x| *x as usize).collect()
}

pub fn cs_set(ictx: &mut InterpreterContext, v: &[usize]) {
    ictx.call_stack.clear();
    for x in v {
        ictx.call_stack.push(*x as _);
    }
}

#[derive(Clone, Debug, PartialEq, Eq)]
pub enum Exec {
    Ok(St),
    Err(String),
    Panic(String),
}

#[derive(Clone, Debug, PartialEq, Eq)]
pub enum St {
    Halt,
    Print,
    Jmp(usize),
    Next,
    Int(u8),
    Repeat,
}

impl St {
    pub fn from(s: State) -> St {
        match s {
            State::HALT => St::Halt,
            State::PRINT => St::Print,
            State::JMP(n) => St::Jmp(n),
            State::NEXT => St::Next,
            State::INT(n) => St::Int(n),
            State::REPEAT => St::Repeat,
        }
    }
}

pub struct Machine {
    pub interp: Interpreter,
}

thread_local! {
    /// one Interpreter / DataParser per thread (construction costs 3 ms / 0.3 ms)
    pub static MACH: Machine = Machine::new();
    static DATAP: DataParser = DataParser::new();
}

impl Machine {
    pub fn new() -> Machine {
        Machine { interp: Interpreter::new() }
    }
    /// one call of Interpreter::parse, panics caught
    pub fn exec(&self, idx: usize, vm: &mut VM, ictx: &mut InterpreterContext, line: &str) -> Exec {
        let r = catch_unwind(AssertUnwindSafe(|| self.interp.parse(idx, vm, ictx, line)));
        match r {
            Ok(Ok(s)) => Exec::Ok(St::from(s)),
            Ok(Err(e)) => Exec::Err(format!("{}", e)),
            Err(e) => Exec::Panic(panic_msg(e)),
        }
    }
    /// Execute a line, re-issuing it while the interpreter answers REPEAT (as the driver does).
    /// Returns the final state and the number of parse calls; `horizon` bounds the re-issues.
    pub fn exec_repeat(
        &self,
        idx: usize,
        vm: &mut VM,
        ictx: &mut InterpreterContext,
        line: &str,
        horizon: usize,
    ) -> (Exec, usize) {
        let mut n = 0;
        loop {
            n += 1;
            let r = self.exec(idx, vm, ictx, line);
            if r != Exec::Ok(St::Repeat) || n >= horizon {
                return (r, n);
            }
        }
    }
}

/// Load data lines with the real DataParser, as the driver does (DS set to 0 afterwards).
pub fn load_data(vm: &mut VM, data: &[String]) -> Result<(), String> {
    let r = catch_unwind(AssertUnwindSafe(|| {
        DATAP.with(|dp| {
            let mut ctr = 0usize;
            for l in data {
                if let Err(e) = dp.parse(vm, &mut ctr, l) {
                    return Err(format!("data line {:?}: {}", l, e));
                }
            }
            vm.arch.ds = 0;
            Ok(())
        })
    }));
    match r {
        Ok(x) => x,
        Err(e) => Err(format!("PANIC {}", panic_msg(e))),
    }
}

/// Replica of the driver's run loop around the real Interpreter. Returns the trace of executed
/// code indices, the final reason, and leaves the machine in `vm`.
#[derive(Clone, Debug, PartialEq, Eq)]
pub enum StopReason {
    Halt,
    Err(String),
    Panic(String),
    DivErr(usize),
    Horizon,
    /// interrupt the replica does not service (10h/21h) - caller decides
    Int(usize, u8),
}

pub struct RunResult {
    pub trace: Vec<usize>,
    pub prints: Vec<usize>,
    pub stop: StopReason,
}

pub fn run_program(asm: &Asm, vm: &mut VM, horizon: usize) -> Result<RunResult, String> {
    let start = asm.driver_accepts()?;
    load_data(vm, &asm.data)?;
    let mut code = asm.code.clone();
    code.push("hlt".to_owned());
    let mut ictx = asm.ictx();
    let mut idx = start;
    let mut trace = Vec::new();
    let mut prints = Vec::new();
    let mut steps = 0;
    loop {
        if steps >= horizon {
            return Ok(RunResult { trace, prints, stop: StopReason::Horizon });
        }
        steps += 1;
        if idx >= code.len() {
            return Ok(RunResult { trace, prints, stop: StopReason::Panic(format!("index {} out of code", idx)) });
        }
        if trace.last() != Some(&idx) || !code[idx].starts_with("rep") {
            trace.push(idx);
        }
        let r = MACH.with(|m| m.exec(idx, vm, &mut ictx, &code[idx]));
        match r {
            Exec::Ok(St::Halt) => return Ok(RunResult { trace, prints, stop: StopReason::Halt }),
            Exec::Ok(St::Print) => {
                prints.push(idx);
                idx += 1;
            }
            Exec::Ok(St::Jmp(n)) => idx = n,
            Exec::Ok(St::Next) => idx += 1,
            Exec::Ok(St::Int(0)) => return Ok(RunResult { trace, prints, stop: StopReason::DivErr(idx) }),
            Exec::Ok(St::Int(3)) => idx += 1,
            Exec::Ok(St::Int(n)) => return Ok(RunResult { trace, prints, stop: StopReason::Int(idx, n) }),
            Exec::Ok(St::Repeat) => {}
            Exec::Err(e) => return Ok(RunResult { trace, prints, stop: StopReason::Err(e) }),
            Exec::Panic(e) => return Ok(RunResult { trace, prints, stop: StopReason::Panic(e) }),
        }
    }
}

pub fn regs_of(vm: &VM) -> Regs {
    Regs::from_vm(vm)
}
