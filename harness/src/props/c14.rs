//! C14 — invalid programs are rejected with a diagnostic before anything executes.

use super::common::*;
use crate::cli::*;
use crate::findings::*;
use crate::pipe::*;
use rayon::prelude::*;
use serde_json::json;
use std::sync::atomic::{AtomicU64, Ordering};

/// A base program: data lines and code lines (one item per line); every base begins its code with
/// `start:` + `print flags`, so that any execution is visible on stdout.
#[derive(Clone, Debug)]
struct Base {
    name: &'static str,
    data: Vec<&'static str>,
    code: Vec<&'static str>,
}

fn bases(thorough: bool) -> Vec<Base> {
    let mut v = vec![
        Base { name: "straight", data: vec!["bv: db 5", "wv: dw 0x1234"], code: vec!["start:", "print flags", "mov ax, 5", "add ax, word wv", "print reg"] },
        Base { name: "loop", data: vec!["bv: db 5", "wv: dw 7"], code: vec!["start:", "print flags", "mov cx, 3", "again:", "inc ax", "loop again", "print reg", "hlt"] },
        Base { name: "proc", data: vec!["bv: db 1", "wv: dw 2"], code: vec!["def f {", "inc bx", "}", "start:", "print flags", "call f", "call f", "print reg"] },
        Base { name: "proc-after", data: vec!["bv: db 1", "wv: dw 2"], code: vec!["start:", "print flags", "jmp over", "def g {", "stc", "ret", "clc", "}", "over:", "call g", "print flags"] },
        Base { name: "macro", data: vec!["bv: db 1", "wv: dw 2"], code: vec!["macro m (a) -> inc a dec a <-", "start:", "print flags", "m(ax)", "m(word wv)", "print reg"] },
        Base { name: "forward", data: vec!["bv: db 1", "wv: dw 2"], code: vec!["start:", "print flags", "cmp ax, 0", "je fin", "mov bx, 1", "fin:", "print reg"] },
        Base { name: "nodata", data: vec![], code: vec!["start:", "print flags", "mov al, 1", "hlt"] },
        Base { name: "int", data: vec!["bv: db 65", "wv: dw 2"], code: vec!["start:", "print flags", "mov ah, 2", "mov dl, 66", "int 0x21", "print reg"] },
    ];
    if thorough {
        v.push(Base { name: "strings", data: vec!["bv: db \"hello\"", "wv: dw [3]"], code: vec!["start:", "print flags", "mov cx, 2", "rep movs byte", "print mem 0 -> 15"] });
        v.push(Base { name: "stack", data: vec!["bv: db 1", "wv: dw 2"], code: vec!["start:", "print flags", "push ax", "push word wv", "pop bx", "pop cx", "print reg"] });
        v.push(Base { name: "nested", data: vec!["bv: db 1", "wv: dw 2"], code: vec!["def a {", "inc ax", "}", "def b {", "call a", "call a", "}", "start:", "print flags", "call b", "x:", "print reg", "jnc y", "jmp x", "y:", "hlt"] });
    }
    v
}

/// invalid code lines (each is invalid wherever it is placed in a base program)
fn bad_code_lines() -> Vec<(&'static str, String)> {
    let mut v: Vec<(&'static str, String)> = Vec::new();
    let mut add = |class: &'static str, l: &str| v.push((class, l.to_string()));
    for l in ["jmp nolabel", "jc nolabel", "loop nolabel", "jcxz nolabel"] {
        add("undefined-label", l);
    }
    for l in ["jmp bv", "jne wv", "loop bv"] {
        add("jump-to-data-label", l);
    }
    for l in ["call nolabel", "call start", "call bv"] {
        add("call-non-procedure", l);
    }
    for l in ["mov al, byte start", "mov ax, word start", "inc byte start", "lea ax, word start", "push word start", "mov ax, offset start", "mov al, offset start"] {
        add("code-label-as-data", l);
    }
    for l in ["mov al, byte nolabel", "add word nolabel, 5", "mov ax, offset nolabel", "print mem offset nolabel -> 5"] {
        add("unknown-name", l);
    }
    for l in [
        "mov al, bx", "add ax, bl", "mov al, word [bx]", "mov ax, byte [bx]", "xchg ax, byte [bx]", "cmp bl, word wv", "mov byte bv, ax", "and ax, byte bv", "push al", "push byte [bx]", "pop byte bv",
        "lea al, word [bx]", "lea ax, byte [bx]", "mov es, al", "mov al, ds", "shl ax, bl", "shl ax, cx", "mov al, 0x100",
    ] {
        add("mixed-sizes", l);
    }
    for l in ["mov byte [bx], byte [si]", "add word wv, word [bx]", "mov word [bx], word wv", "xchg byte [bx], byte [di]", "cmp byte bv, byte bv", "movs byte [si], byte [di]"] {
        add("two-memory-operands", l);
    }
    for l in [
        "mov al, 256", "mov al, -129", "mov ax, 65536", "mov ax, -32769", "add bl, 256", "sub cx, 65536", "and al, 256", "and al, -1", "or ax, 65536", "test ax, -1", "shl ax, 256", "rol bl, 256",
        "mov ax, word [65536]", "mov ax, word [bx, 65536]", "mov ax, word [bx, -32769]", "mov ax, word [bx, si, 65536]", "mov al, byte [-1]", "int 256", "mov al, 0b100000000", "mov ax, 0x10000",
        "mov byte [bx], 256", "mov word [bx], 65536", "mov byte bv, -129", "print mem 0 : 1048576", "print mem 1048575 : 1", "print mem 4294967296 -> 5", "print mem 0 -> 4294967296",
    ] {
        add("constant-out-of-range", l);
    }
    for l in [
        "in al, 5", "IN AL, 5", "in al, dl", "out 5, al", "OUT 5, AL", "lds ax, [bx]", "LDS AX, [BX]", "les bx, [si]", "wait", "WAIT", "esc", "ESC", "lock", "LOCK", "into", "INTO", "iret", "IRET",
        "movsb", "movsw", "cwde", "pusha", "mov eax, 1", "int", "ret 2", "jmp 5", "jmp [bx]", "call [bx]", "mov ds, 5", "mov ds, es", "pop cs", "mul 5", "inc 5", "push 5", "set 5", "db 5",
        "segment x", "org 100", "offset bv", "mov ax,", "mov , ax", "mov ax bx", "add", "print", "print regs", "print mem", "print mem 5", "print mem 5 -> ", "def", "def {", "macro", "}", "{",
    ] {
        add("unsupported", l);
    }
    v
}

fn bad_data_lines() -> Vec<(&'static str, String)> {
    let mut v: Vec<(&'static str, String)> = Vec::new();
    let mut add = |class: &'static str, l: &str| v.push((class, l.to_string()));
    for l in [
        "set 65536", "set -1", "db 256", "db -129", "dw 65536", "dw -32769", "db [65536]", "dw [65536]", "db [256, 3]", "db [-129, 3]", "dw [65536, 3]", "db [3, 65536]", "db 0x100", "dw 0x10000", "db 0b100000000",
    ] {
        add("constant-out-of-range", l);
    }
    for l in ["dd 5", "dq 5", "db", "dw", "db [", "db [1,2,3]", "db 'a'", "db \"abc", "equ 5", "x db 5", "db 5,6", "set", "db offset nolabel", "start: db 1", "mov ax, 1"] {
        add("unsupported", l);
    }
    v
}

struct Mutant {
    class: String,
    what: String,
    src: String,
}

fn render(data: &[String], code: &[String]) -> String {
    let mut s = String::new();
    for l in data {
        s.push_str(l);
        s.push('\n');
    }
    for l in code {
        s.push_str(l);
        s.push('\n');
    }
    s
}

fn mutants(b: &Base, quick: bool) -> Vec<Mutant> {
    let data: Vec<String> = b.data.iter().map(|s| s.to_string()).collect();
    let code: Vec<String> = b.code.iter().map(|s| s.to_string()).collect();
    let mut out = Vec::new();
    let has_labels = data.len() >= 2;
    // positions where an instruction line may be inserted: after start's print, ..., end; inside procedures
    let start_idx = code.iter().position(|l| l == "start:").unwrap();
    let mut positions: Vec<usize> = Vec::new();
    for k in 0..=code.len() {
        // not between "def f {" and nothing, not inside a macro definition line; any line boundary works
        // as long as the preceding line is not a jump target requirement; keep it simple: all boundaries
        // except before a '}' directly after "def .. {" (empty procedure is not the mutation under test)
        if k > 0 && code[k - 1].starts_with("macro ") && k <= start_idx {
            positions.push(k);
            continue;
        }
        positions.push(k);
    }
    let bad = bad_code_lines();
    for (bi, (class, line)) in bad.iter().enumerate() {
        if !has_labels && (line.contains("bv") || line.contains("wv")) {
            continue;
        }
        for (pi, k) in positions.iter().enumerate() {
            // quick: every bad line at three positions (first, rotating middle, last)
            if quick && !(pi == 0 || pi + 1 == positions.len() || pi == 1 + (bi % (positions.len().max(3) - 2))) {
                continue;
            }
            // a data directive placed before the first code item is simply one more definition
            if *k == 0 && (line.starts_with("set ") || line.starts_with("db ")) {
                continue;
            }
            let mut c2 = code.clone();
            c2.insert(*k, line.clone());
            out.push(Mutant { class: class.to_string(), what: format!("insert {:?} at code position {}", line, k), src: render(&data, &c2) });
        }
    }
    for (class, line) in bad_data_lines() {
        for k in 0..=data.len() {
            if quick && k != 0 && k != data.len() {
                continue;
            }
            // an instruction after the last definition is ordinary code; before a definition it is not
            if line == "mov ax, 1" && k == data.len() {
                continue;
            }
            let mut d2 = data.clone();
            d2.insert(k, line.clone());
            out.push(Mutant { class: class.to_string(), what: format!("insert {:?} at data position {}", line, k), src: render(&d2, &code) });
        }
    }
    // structural mutations
    // drop each label definition that is used
    for (k, l) in code.iter().enumerate() {
        if l.ends_with(':') && l != "start:" {
            let name = &l[..l.len() - 1];
            if code.iter().any(|x| x.ends_with(&format!(" {}", name))) {
                let mut c2 = code.clone();
                c2.remove(k);
                out.push(Mutant { class: "undefined-label".into(), what: format!("drop the definition of {}", name), src: render(&data, &c2) });
            }
            // duplicate the label at every other position
            for p in 0..=code.len() {
                if quick && p != 0 && p != code.len() && p != k {
                    continue;
                }
                let mut c2 = code.clone();
                c2.insert(p, l.clone());
                out.push(Mutant { class: "duplicate-definition".into(), what: format!("duplicate label {} at {}", name, p), src: render(&data, &c2) });
            }
        }
        if l.starts_with("def ") {
            // duplicate the procedure at the end and at the beginning
            let end = code.iter().enumerate().skip(k).find(|(_, x)| *x == "}").map(|(i, _)| i).unwrap();
            let body: Vec<String> = code[k..=end].to_vec();
            for p in [0usize, end + 1, code.len()] {
                let mut c2 = code.clone();
                for (i, x) in body.iter().enumerate() {
                    c2.insert(p + i, x.clone());
                }
                out.push(Mutant { class: "duplicate-definition".into(), what: format!("duplicate procedure {} at {}", l, p), src: render(&data, &c2) });
            }
        }
    }
    // duplicate start, duplicate data label
    {
        let mut c2 = code.clone();
        c2.push("start:".into());
        out.push(Mutant { class: "duplicate-definition".into(), what: "second start label at the end".into(), src: render(&data, &c2) });
        if has_labels {
            let mut d2 = data.clone();
            d2.push("bv: db 9".into());
            out.push(Mutant { class: "duplicate-definition".into(), what: "second definition of data label bv".into(), src: render(&d2, &code) });
            // a code label named like a data label
            let mut c2 = code.clone();
            c2.push("bv:".into());
            out.push(Mutant { class: "duplicate-definition".into(), what: "code label named like the data label bv".into(), src: render(&data, &c2) });
        }
    }
    // remove start / make it a data label / only in another case
    {
        let mut c2 = code.clone();
        c2.remove(start_idx);
        out.push(Mutant { class: "no-start".into(), what: "remove the start label".into(), src: render(&data, &c2) });
        let mut c3 = code.clone();
        c3[start_idx] = "Start:".into();
        out.push(Mutant { class: "no-start".into(), what: "start spelled Start".into(), src: render(&data, &c3) });
        let mut d2 = data.clone();
        d2.insert(0, "start: db 1".into());
        out.push(Mutant { class: "no-start".into(), what: "start is a data label".into(), src: render(&d2, &c2) });
        let mut c4 = code.clone();
        c4[start_idx] = "def start {".into();
        c4.push("}".into());
        out.push(Mutant { class: "no-start".into(), what: "start is a procedure name".into(), src: render(&data, &c4) });
    }
    out
}

pub fn run(tier: &Tier) -> i32 {
    let rep_o = Reporter::new("C14", tier.name());
    let c_o = Counters::default();
    let rep = &rep_o;
    let c = &c_o;
    ensure_bin();
    let bs = bases(tier.thorough);
    // the bases themselves must be valid and must execute (otherwise the mutants prove nothing)
    for b in bs.iter() {
        let data: Vec<String> = b.data.iter().map(|s| s.to_string()).collect();
        let code: Vec<String> = b.code.iter().map(|s| s.to_string()).collect();
        let src = render(&data, &code);
        let o = run_cli(&src, "", &CliOpts::default());
        if !o.out().contains("Output of line") || o.abnormal().is_some() {
            eprintln!("MACHINERY: base program {} does not run: {}", b.name, o.summary());
            return 2;
        }
    }
    let mut all: Vec<(String, Mutant)> = Vec::new();
    for b in bs.iter() {
        for m in mutants(b, !tier.thorough) {
            all.push((b.name.to_string(), m));
        }
    }
    // INT numbers exhaustively
    for n in 0..=255u32 {
        if n == 3 || n == 0x10 || n == 0x21 {
            continue;
        }
        let fmt = match n % 3 {
            0 => format!("int {}", n),
            1 => format!("int 0x{:x}", n),
            _ => format!("INT 0b{:b}", n),
        };
        all.push(("int".into(), Mutant { class: "unsupported-interrupt".into(), what: fmt.clone(), src: format!("start:\nprint flags\n{}\nprint reg\n", fmt) }));
    }
    let lib_rejected = AtomicU64::new(0);
    all.par_iter().for_each(|(base, m)| {
        let site = format!("{} / {}", m.class, base);
        c.add_exec(1);
        // library level
        let lib = match assemble(&m.src) {
            Err(AsmErr::Diag { msg, .. }) => {
                if msg.trim().is_empty() {
                    Some("empty diagnostic".to_string())
                } else {
                    None
                }
            }
            Err(AsmErr::Panic(p)) => Some(format!("PANIC {}", p)),
            Ok(a) => match a.driver_accepts() {
                Err(_) => None,
                Ok(_) => Some(format!("accepted: code {:?}", a.code)),
            },
        };
        if lib.is_none() {
            lib_rejected.fetch_add(1, Ordering::Relaxed);
        }
        // the real binary
        let o = run_cli(&m.src, "n\nn\nn\n", &CliOpts::default());
        let out = o.out();
        let mut bad: Vec<(&str, String)> = Vec::new();
        if let Some(l) = lib {
            bad.push(("not-refused", l));
        }
        if let Some(a) = o.abnormal() {
            bad.push(("abort", a));
        }
        if out.trim().is_empty() {
            bad.push(("no-diagnostic", "empty stdout".into()));
        }
        if out.contains("Output of line") || out.contains(">>>") || out.contains("OF : ") || out.contains("Int 3") || out.contains("AX : ") {
            bad.push(("executed", "program output present".into()));
        }
        c.outcome(if bad.is_empty() { "refused" } else { "problem" });
        for (field, why) in bad {
            let got = format!("{}: {} | {}", m.what, why, o.summary());
            if rep.absorbed_by(&site, field, &[], None, &got) {
                continue;
            }
            rep.report(Viol {
                site: site.clone(),
                field: field.into(),
                vars: vec![],
                got_val: None,
                expected: "refused with a non-empty diagnostic, nothing executed".into(),
                got,
                case: json!({"src": m.src, "stdin": "n\nn\nn\n", "mutation": m.what}),
                weight: m.src.len() as u64,
            });
        }
    });
    for (b, m) in all.iter().step_by(all.len() / 8 + 1) {
        c.sample(json!({"base": b, "class": m.class, "mutation": m.what, "src": m.src}));
    }
    c.states.fetch_add(all.len() as u64, Ordering::Relaxed);
    let mut cov = Coverage::default();
    cov.exhaustive = true;
    cov.rule = format!("{} valid base programs (each verified to run and print) x every applicable single semantic mutation: about 160 individually invalid code lines (undefined / data / non-procedure targets, code labels and unknown names as data operands and under OFFSET, mixed operand sizes, two memory operands, every constant class pushed one beyond each end of its range, unsupported mnemonics, interrupts and directives) inserted at {} code positions, 30 invalid data lines at the data positions, dropped and duplicated label / procedure definitions, four ways of lacking a code label 'start', and INT n for all n in 0..255 other than 3, 10h, 21h. Each mutant is checked at library level (Preprocessor Err or the driver-level label checks) AND through the real binary: stdout must carry a diagnostic and no program output, prompt or interrupt output", bs.len(), if tier.thorough { "all" } else { "the first, the last and a rotating middle" });
    cov.bounds = json!({"bases": bs.len(), "mutants": all.len(), "refused_at_library_level": lib_rejected.load(Ordering::Relaxed), "tier": tier.name()});
    cov.assumptions = common_assumptions();
    cov.cli_runs = CLI_RUNS.load(Ordering::Relaxed);
    cov.distinct_nontrivial = all.len() as u64;
    let cov = finish_cov(c, cov);
    rep.finish(cov)
}
