//! C04 — every operand form resolves to the architecturally correct location.

use super::common::*;
use crate::alu::*;
use crate::ast::*;
use crate::engine::*;
use crate::findings::*;
use crate::lattice::*;
use crate::mach::*;
use crate::refexec::*;
use rayon::prelude::*;
use serde_json::json;
use std::sync::atomic::Ordering;

#[derive(Clone, Copy, Debug, PartialEq, Eq)]
enum Consumer {
    MovRM,
    AddRM,
    CmpRM,
    MovMR,
    MovMI,
    AddMR,
    IncM,
    NotM,
    ShlM,
    XchgMR,
    Lea,
    MovRMAlias,
}

const CONSUMERS: [Consumer; 12] = [
    Consumer::MovRM,
    Consumer::AddRM,
    Consumer::CmpRM,
    Consumer::MovMR,
    Consumer::MovMI,
    Consumer::AddMR,
    Consumer::IncM,
    Consumer::NotM,
    Consumer::ShlM,
    Consumer::XchgMR,
    Consumer::Lea,
    Consumer::MovRMAlias,
];

fn build(cons: Consumer, w: W, m: Mem) -> Option<Instr> {
    let mo = Opnd::Mem(w, m);
    let r = if w == W::B { Opnd::R8(2) } else { Opnd::R16(R_DX) }; // dl / dx: never part of an address
    Some(match cons {
        Consumer::MovRM => Instr::Mov(r, mo),
        Consumer::AddRM => Instr::Bin(BinOp::Add, r, mo),
        Consumer::CmpRM => Instr::Bin(BinOp::Cmp, r, mo),
        Consumer::MovMR => Instr::Mov(mo, r),
        Consumer::MovMI => Instr::Mov(mo, Opnd::Imm(if w == W::B { 0x5A } else { 0x5AA5 })),
        Consumer::AddMR => Instr::Bin(BinOp::Add, mo, r),
        Consumer::IncM => Instr::Un(UnOp::Inc, mo),
        Consumer::NotM => Instr::Un(UnOp::Not, mo),
        Consumer::ShlM => Instr::Shift(ShOp::Shl, mo, Count::Imm(1)),
        Consumer::XchgMR => Instr::Xchg(mo, r),
        Consumer::Lea => {
            if w == W::B {
                return None;
            }
            Instr::Lea(R_DX, mo)
        }
        Consumer::MovRMAlias => {
            // destination register is one of the address registers
            let regs = m.regs();
            if regs.is_empty() || w == W::B {
                return None;
            }
            Instr::Mov(Opnd::R16(regs[0]), mo)
        }
    })
}

fn all_mems(thorough: bool) -> Vec<Mem> {
    let disps: Vec<i32> = if thorough {
        vec![0, 1, -1, 2, 0x7FFF, -0x8000, 0xFFFF, 0x8000, -2, 0x00FF, 0x0100]
    } else {
        vec![0, 1, -1, 2, 0x7FFF, -0x8000, 0xFFFF, 0x8000]
    };
    let mut forms = Vec::new();
    for n in [0u16, 1, 0x000E, 0x000F, 0x0010, 0x0011, 0x0123, 0x7FFF, 0x8000, 0xFFFF] {
        forms.push(MemForm::Direct(n));
    }
    for r in [R_BX, R_BP, R_SI, R_DI] {
        forms.push(MemForm::Reg(r));
        for d in disps.iter() {
            forms.push(MemForm::RegDisp(r, *d));
        }
    }
    for b in [R_BX, R_BP] {
        for i in [R_SI, R_DI] {
            forms.push(MemForm::BaseIndex(b, i, None));
            for d in disps.iter() {
                forms.push(MemForm::BaseIndex(b, i, Some(*d)));
            }
        }
    }
    let mut out = Vec::new();
    for f in forms {
        out.push(Mem { seg: None, form: f });
        for s in 0..4 {
            out.push(Mem { seg: Some(s), form: f });
        }
    }
    out
}

const DECOY_SEGS: [u16; 4] = [0x2340, 0x3450, 0x4560, 0x5670];

fn state_for(i: &Instr, m: &Mem, w: W, base: u16, idx: u16, segval: u16, mv: u32, rv: u32, dc: &DataCtx) -> (RefM, u32, u16, u16) {
    let mut s = RefM { r: Regs::distinct(0x31), m: SMem::new(0), call_stack: vec![] };
    s.r.flag = 0xF000;
    // segments: decoys everywhere, the effective one gets segval
    for k in 0..4 {
        let mut d = DECOY_SEGS[k];
        if d == segval {
            d ^= 0x0101;
        }
        s.r.setseg(k, d);
    }
    let eff = match m.seg {
        Some(x) => x,
        None => {
            if m.base_is_bp() {
                SEG_SS
            } else {
                SEG_DS
            }
        }
    };
    s.r.setseg(eff, segval);
    // data register value
    match i.operands().iter().find(|o| matches!(o, Opnd::R8(_) | Opnd::R16(_))) {
        Some(Opnd::R8(r)) => s.r.set8(*r, rv as u8),
        Some(Opnd::R16(r)) => s.r.set16(*r, rv as u16),
        _ => {}
    }
    // address registers (after the data register, so that an aliasing destination keeps the address)
    let regs = m.regs();
    if regs.len() >= 1 {
        s.r.set16(regs[0], base);
    }
    if regs.len() >= 2 {
        s.r.set16(regs[1], idx);
    }
    let off = ea_offset(m, &s.r);
    let addr = phys(segval, off);
    match w {
        W::B => s.m.set(addr, mv as u8),
        W::W => s.m.set16(addr, mv as u16),
    }
    let _ = dc;
    // decoys: same offset in the other segments, the unwrapped offset, neighbours
    let occupied: Vec<u32> = (0..w.bytes()).map(|k| (addr + k) & 0xFFFFF).collect();
    let mut put = |a: u32, v: u8, s: &mut RefM| {
        let a = a & 0xFFFFF;
        if !occupied.contains(&a) && !s.m.cells.contains_key(&a) {
            s.m.set(a, v);
        }
    };
    for k in 0..4 {
        if k != eff {
            let a = phys(s.r.getseg(k), off);
            put(a, 0xD0 + k as u8, &mut s);
            put(a + 1, 0xE0 + k as u8, &mut s);
        }
    }
    // unwrapped sum of the parts
    let raw: i64 = match m.form {
        MemForm::Direct(n) => n as i64,
        MemForm::Reg(_) => base as i64,
        MemForm::RegDisp(_, d) => base as i64 + d as i64,
        MemForm::BaseIndex(_, _, d) => base as i64 + idx as i64 + d.unwrap_or(0) as i64,
    };
    let unwrapped = ((segval as i64 * 16 + raw).rem_euclid(1 << 20)) as u32;
    put(unwrapped, 0xC1, &mut s);
    put(unwrapped + 1, 0xC2, &mut s);
    put(addr.wrapping_sub(1), 0xB1, &mut s);
    put(addr + w.bytes(), 0xB2, &mut s);
    put(addr + w.bytes() + 1, 0xB3, &mut s);
    (s, addr, off, segval)
}

fn sweep_mem(rep: &Reporter, c: &Counters, thorough: bool) -> usize {
    let mems = all_mems(thorough);
    let mut shapes: Vec<(Consumer, W, Mem)> = Vec::new();
    for cons in CONSUMERS {
        for w in [W::B, W::W] {
            for m in mems.iter() {
                shapes.push((cons, w, *m));
            }
        }
    }
    // thorough: the 12-value word lattice plus mid-range values (no boundary, bytes differing), and ten segment values
    let regvals: Vec<u16> = if thorough {
        w16_small().iter().map(|v| *v as u16).chain([0x1234u16, 0x00F8, 0xABCD]).collect()
    } else {
        vec![0, 1, 0x8000, 0xFFFF]
    };
    let segvals: Vec<u16> = if thorough { S6.iter().cloned().chain([0x1234u16, 0x8000, 0xABCD, 0xFFFE]).collect() } else { S6.to_vec() };
    let n = shapes.len();
    shapes.par_iter().for_each(|(cons, w, m)| {
        with_worker(|wk| {
            let i = match build(*cons, *w, *m) {
                Some(i) => i,
                None => return,
            };
            let site = i.shape();
            let mut p = match prepare(&i) {
                Ok(p) => p,
                Err(e) => {
                    c.block(format!("{}: {:?}", site, e));
                    return;
                }
            };
            let nregs = m.regs().len();
            let bases: &[u16] = if nregs >= 1 { &regvals } else { &[0] };
            let idxs: &[u16] = if nregs >= 2 { &regvals } else { &[0] };
            for b in bases {
                for x in idxs {
                    for sv in segvals.iter() {
                        let mv: u32 = if *w == W::B { 0x7C } else { 0x7C3E };
                        let rv: u32 = if *w == W::B { 0x91 } else { 0x91A7 };
                        let (pre, addr, off, segv) = state_for(&i, m, *w, *b, *x, *sv, mv, rv, &p.dc);
                        wk.case(
                            rep,
                            c,
                            &mut p,
                            &pre,
                            &site,
                            &[
                                ("base", *b as i64),
                                ("index", *x as i64),
                                ("segv", segv as i64),
                                ("off", off as i64),
                                ("addr", addr as i64),
                                ("w", w.bits() as i64),
                            ],
                            *b as u64 + *x as u64 + *sv as u64,
                            true,
                        );
                    }
                }
            }
            // targeted: register values chosen so that segment*16+offset lands exactly on and around
            // 2^20 (0xFFFFE .. 0x100001) and on the largest reachable sum, for three segment values
            if nregs >= 1 {
                let d: i64 = match m.form {
                    MemForm::RegDisp(_, d) => d as i64,
                    MemForm::BaseIndex(_, _, d) => d.unwrap_or(0) as i64,
                    _ => 0,
                };
                for sv in [0xFFFFu16, 0xF001, 0xF800] {
                    for target in [0xFFFFEi64, 0xFFFFF, 0x100000, 0x100001, 0x100002] {
                        let off = target - sv as i64 * 16;
                        if off < 0 || off > 0xFFFF {
                            continue;
                        }
                        let idxs: &[u16] = if nregs >= 2 { &[0x0007, 0xFFF0] } else { &[0] };
                        for x in idxs {
                            let b = (off - d - *x as i64).rem_euclid(1 << 16) as u16;
                            let mv: u32 = if *w == W::B { 0x7C } else { 0x7C3E };
                            let rv: u32 = if *w == W::B { 0x91 } else { 0x91A7 };
                            let (pre, addr, off, segv) = state_for(&i, m, *w, b, *x, sv, mv, rv, &p.dc);
                            wk.case(
                                rep,
                                c,
                                &mut p,
                                &pre,
                                &site,
                                &[("base", b as i64), ("index", *x as i64), ("segv", segv as i64), ("off", off as i64), ("addr", addr as i64), ("w", w.bits() as i64)],
                                b as u64 + *x as u64 + sv as u64,
                                true,
                            );
                        }
                    }
                }
            }
            c.shapes.fetch_add(1, Ordering::Relaxed);
            wk.flush(c);
            c.sample(json!({"source_line": render_instr(&p.instr), "emitted": p.line, "shape": site}));
        })
    });
    n
}

/// EVERY catalog shape with a register-based memory operand (all instruction kinds, not only the 12 consumers
/// above), with the address registers solved so that the operand lies at 0xFFFFE, 0xFFFFF (a word operand then
/// has its high byte at physical 0) and 0x100000 (= 0), for two segment values. LEA accesses no memory and is
/// left to the sweep above (its recorded finding is keyed on that sweep's destination register).
fn sweep_catalog_wrap(rep: &Reporter, c: &Counters, thorough: bool) -> usize {
    let cat = crate::catalog::catalog(&crate::catalog::CatOpts { disps: if thorough { vec![2, -3, 0x7FFF] } else { vec![2, -3] }, all_regs: thorough });
    let shapes: Vec<&Instr> = cat
        .iter()
        .filter(|i| {
            let mems: Vec<&Opnd> = i.operands().into_iter().filter(|o| matches!(o, Opnd::Mem(..))).collect();
            mems.len() == 1 && !matches!(i, Instr::Str(..) | Instr::Lea(..)) && matches!(mems[0], Opnd::Mem(_, m) if !m.regs().is_empty())
        })
        .collect();
    let n = shapes.len();
    shapes.par_iter().for_each(|i| {
        with_worker(|wk| {
            let (w, m) = match i.operands().into_iter().find(|o| matches!(o, Opnd::Mem(..))) {
                Some(Opnd::Mem(w, m)) => (*w, *m),
                _ => return,
            };
            let site = i.shape();
            let mut p = match prepare(i) {
                Ok(p) => p,
                Err(e) => {
                    c.block(format!("{}: {:?}", site, e));
                    return;
                }
            };
            let nregs = m.regs().len();
            let d: i64 = match m.form {
                MemForm::RegDisp(_, d) => d as i64,
                MemForm::BaseIndex(_, _, d) => d.unwrap_or(0) as i64,
                _ => 0,
            };
            for sv in [0xFFFFu16, 0xF001] {
                for target in [0xFFFFEi64, 0xFFFFF, 0x100000] {
                    let off = target - sv as i64 * 16;
                    if off < 0 || off > 0xFFFF {
                        continue;
                    }
                    let x: u16 = if nregs >= 2 { 0x0007 } else { 0 };
                    // both address registers may be the same register ([bx, bx] does not exist; base and index differ)
                    let b = (off - d - x as i64).rem_euclid(1 << 16) as u16;
                    let mv: u32 = if w == W::B { 0x7C } else { 0x7C3E };
                    let rv: u32 = if w == W::B { 0x91 } else { 0x91A7 };
                    let (pre, addr, off, segv) = state_for(i, &m, w, b, x, sv, mv, rv, &p.dc);
                    wk.case(rep, c, &mut p, &pre, &site, &[("base", b as i64), ("index", x as i64), ("segv", segv as i64), ("off", off as i64), ("addr", addr as i64), ("w", w.bits() as i64)], b as u64 + sv as u64, true);
                }
            }
            c.shapes.fetch_add(1, Ordering::Relaxed);
            wk.flush(c);
        })
    });
    n
}

/// Histories of two memory operands: EVERY ordered pair over (26 address forms x {no override, ES, SS, CS} x
/// {load, store}), executed one after the other by ONE Interpreter object on ONE machine and compared with the
/// reference after each step. All four segment registers differ and every cell an operand of the alphabet can name
/// under any of them holds its own value, so an operand resolved with the segment (or any other part) of the
/// operand before it reads or writes a recognisably wrong cell.
fn sweep_form_pairs(rep: &Reporter, c: &Counters, thorough: bool) -> crate::seqx::SeqStats {
    let mut forms: Vec<MemForm> = vec![MemForm::Direct(0x0010), MemForm::Direct(0x0123)];
    for r in [R_BX, R_BP, R_SI, R_DI] {
        forms.push(MemForm::Reg(r));
        for d in [2, -1] {
            forms.push(MemForm::RegDisp(r, d));
        }
    }
    for b in [R_BX, R_BP] {
        for i in [R_SI, R_DI] {
            forms.push(MemForm::BaseIndex(b, i, None));
            for d in [2, -1] {
                forms.push(MemForm::BaseIndex(b, i, Some(d)));
            }
        }
    }
    let overrides: Vec<Option<usize>> = if thorough { vec![None, Some(0), Some(1), Some(2), Some(3)] } else { vec![None, Some(SEG_ES), Some(SEG_SS), Some(SEG_CS)] };
    let mut focus: Vec<Instr> = Vec::new();
    let mut mems: Vec<Mem> = Vec::new();
    for f in forms.iter() {
        for o in overrides.iter() {
            let m = Mem { seg: *o, form: *f };
            mems.push(m);
            focus.push(Instr::Mov(Opnd::R8(2), Opnd::Mem(W::B, m)));
            focus.push(Instr::Mov(Opnd::Mem(W::B, m), Opnd::Imm(0x5A)));
        }
    }
    let mut init = RefM { r: Regs::distinct(0x31), m: SMem::new(0), call_stack: vec![] };
    init.r.flag = 0xF000;
    init.r.ds = 0x1000;
    init.r.es = 0x2000;
    init.r.ss = 0x3000;
    init.r.cs = 0x4000;
    init.r.set16(R_BX, 0x0100);
    init.r.set16(R_BP, 0x0200);
    init.r.set16(R_SI, 0x0010);
    init.r.set16(R_DI, 0x0020);
    init.r.sp = 0x0800;
    for m in mems.iter() {
        let off = ea_offset(m, &init.r);
        for (k, sv) in [init.r.ds, init.r.es, init.r.ss, init.r.cs].iter().enumerate() {
            let a = phys(*sv, off);
            init.m.set(a, (0x11 + 0x40 * k as u32 + (off as u32 * 7)) as u8 | 1);
        }
    }
    crate::seqx::explore_sequences(rep, c, &focus, &[], 2, &[init])
}

/// data-label operands with DS in S6
fn sweep_labels(rep: &Reporter, c: &Counters) {
    let mut is: Vec<Instr> = Vec::new();
    let lb = Opnd::Label(W::B, "bv".into());
    let lw = Opnd::Label(W::W, "wv".into());
    is.push(Instr::Mov(Opnd::R8(2), lb.clone()));
    is.push(Instr::Mov(Opnd::R16(R_DX), lw.clone()));
    is.push(Instr::Mov(lb.clone(), Opnd::R8(2)));
    is.push(Instr::Mov(lw.clone(), Opnd::R16(R_DX)));
    is.push(Instr::Mov(lb.clone(), Opnd::Imm(0x5A)));
    is.push(Instr::Mov(lw.clone(), Opnd::Imm(0x5AA5)));
    is.push(Instr::Bin(BinOp::Add, lb.clone(), Opnd::R8(2)));
    is.push(Instr::Bin(BinOp::Add, Opnd::R16(R_DX), lw.clone()));
    is.push(Instr::Un(UnOp::Inc, lb.clone()));
    is.push(Instr::Un(UnOp::Not, lw.clone()));
    is.push(Instr::Xchg(lw.clone(), Opnd::R16(R_DX)));
    is.push(Instr::Xchg(Opnd::R8(2), lb.clone()));
    is.push(Instr::Lea(R_DX, lw.clone()));
    is.push(Instr::Mov(Opnd::Seg(SEG_ES), lw.clone()));
    is.push(Instr::Mov(lw.clone(), Opnd::Seg(SEG_SS)));
    is.push(Instr::Push(lw.clone()));
    is.push(Instr::Pop(lw.clone()));
    is.par_iter().for_each(|i| {
        with_worker(|wk| {
            let site = i.shape();
            let mut p = match prepare(i) {
                Ok(p) => p,
                Err(e) => {
                    c.block(format!("{}: {:?}", site, e));
                    return;
                }
            };
            for ds in S6.iter() {
                for other in [0x2340u16, 0xFFFF] {
                    let mut pre = RefM { r: Regs::distinct(0x55), m: SMem::new(0), call_stack: vec![] };
                    pre.r.flag = 0xF000;
                    pre.r.es = other;
                    pre.r.ss = other ^ 0x1111;
                    pre.r.cs = 0x4560;
                    pre.r.ds = *ds;
                    pre.r.sp = 0x0100;
                    let a = opnd_addr(i.operands().iter().find(|o| o.is_mem()).unwrap(), &pre.r, &p.dc).unwrap();
                    pre.m.set16(a, 0x7C3E);
                    pre.m.set(a.wrapping_sub(1) & 0xFFFFF, 0xB1);
                    pre.m.set((a + 2) & 0xFFFFF, 0xB2);
                    wk.case(rep, c, &mut p, &pre, &site, &[("segv", *ds as i64), ("addr", a as i64)], *ds as u64, true);
                }
            }
            c.shapes.fetch_add(1, Ordering::Relaxed);
            wk.flush(c);
        })
    });
}

/// EVERY catalog shape with a data-label operand, with the labels laid out at offset 15 / 16 / 17 so that with
/// DS = 0xFFFF the operand is the last byte of memory, a word across the end of memory, or the first bytes again
fn sweep_labels_top(rep: &Reporter, c: &Counters) -> usize {
    let cat = crate::catalog::catalog(&crate::catalog::CatOpts { disps: vec![2], all_regs: false });
    let shapes: Vec<&Instr> = cat.iter().filter(|i| i.operands().into_iter().any(|o| matches!(o, Opnd::Label(..))) && !matches!(i, Instr::Lea(..))).collect();
    let layouts: Vec<(Vec<DataDef>, u16, u16)> = vec![
        (vec![DataDef::Arr(None, W::B, 15), DataDef::Val(Some("wv".into()), W::W, 0), DataDef::Val(Some("bv".into()), W::B, 0)], 17, 15),
        (vec![DataDef::Arr(None, W::B, 15), DataDef::Val(Some("bv".into()), W::B, 0), DataDef::Val(Some("wv".into()), W::W, 0)], 15, 16),
    ];
    let work: Vec<(&Instr, usize)> = shapes.iter().flat_map(|i| (0..layouts.len()).map(move |k| (*i, k))).collect();
    work.par_iter().for_each(|(i, k)| {
        with_worker(|wk| {
            let (data, bv_off, wv_off) = &layouts[*k];
            let mut prog = std_program(i);
            prog.data = data.clone();
            let site = i.shape();
            let mut p = match prepare_src(i, crate::ast::render(&prog)) {
                Ok(p) => p,
                Err(e) => {
                    c.block(format!("{}: {:?}", site, e));
                    return;
                }
            };
            p.dc.labels.insert("bv".into(), *bv_off);
            p.dc.labels.insert("wv".into(), *wv_off);
            for ds in [0xFFFFu16, 0xFFFE, 0x0FFF] {
                let mut pre = RefM { r: Regs::distinct(0x55), m: SMem::new(0), call_stack: vec![] };
                pre.r.flag = 0xF000;
                pre.r.es = 0x2340;
                pre.r.ss = 0x3450;
                pre.r.cs = 0x4560;
                pre.r.ds = ds;
                pre.r.sp = 0x0100;
                let a = opnd_addr(i.operands().iter().find(|o| matches!(o, Opnd::Label(..))).unwrap(), &pre.r, &p.dc).unwrap();
                pre.m.set16(a, 0x7C3E);
                pre.m.set(a.wrapping_sub(1) & 0xFFFFF, 0xB1);
                pre.m.set((a + 2) & 0xFFFFF, 0xB2);
                // where an unwrapped high byte would be looked for there is nothing (index 2^20 does not exist);
                // the byte after the segment start is a decoy for "wrapped within the segment"
                wk.case(rep, c, &mut p, &pre, &site, &[("segv", ds as i64), ("addr", a as i64)], ds as u64, true);
            }
            c.shapes.fetch_add(1, Ordering::Relaxed);
            wk.flush(c);
        })
    });
    shapes.len()
}

/// byte registers alias exactly their half of the 16-bit register
fn sweep_byte_alias(rep: &Reporter, c: &Counters) {
    let parents = w16_small();
    let work: Vec<(usize, u32)> = (0..8).flat_map(|r| (0..256u32).map(move |v| (r, v))).collect();
    work.par_iter().for_each(|(r, v)| {
        with_worker(|wk| {
            let i = Instr::Mov(Opnd::R8(*r), Opnd::Imm(*v as i32));
            let site = i.shape();
            let mut p = match prepare(&i) {
                Ok(p) => p,
                Err(e) => {
                    c.block(format!("{}: {:?}", site, e));
                    return;
                }
            };
            for par in parents.iter() {
                let mut pre = RefM { r: Regs::distinct(0x11), m: SMem::new(0), call_stack: vec![] };
                pre.r.set16(r & 3, *par as u16);
                wk.case(rep, c, &mut p, &pre, &site, &[("a", *v as i64), ("parent", *par as i64)], *v as u64, false);
            }
            // register to register through every pair
            for r2 in 0..8usize {
                let i2 = Instr::Mov(Opnd::R8(*r), Opnd::R8(r2));
                if *v >= 4 {
                    break;
                }
                if let Ok(mut p2) = prepare(&i2) {
                    for par in parents.iter() {
                        let mut pre = RefM { r: Regs::distinct(0x77 + *v as u16), m: SMem::new(0), call_stack: vec![] };
                        pre.r.set16(r & 3, *par as u16);
                        wk.case(rep, c, &mut p2, &pre, &i2.shape(), &[("parent", *par as i64)], 0, false);
                    }
                }
            }
            wk.audit(rep, &p, &site);
            wk.flush(c);
        })
    });
    c.shapes.fetch_add(8, Ordering::Relaxed);
}

pub fn run(tier: &Tier) -> i32 {
    let rep = Reporter::new("C04", tier.name());
    let c = Counters::default();
    let n = sweep_mem(&rep, &c, tier.thorough);
    let n_wrap = sweep_catalog_wrap(&rep, &c, tier.thorough);
    sweep_labels(&rep, &c);
    let n_lab_top = sweep_labels_top(&rep, &c);
    let pairs = sweep_form_pairs(&rep, &c, tier.thorough);
    sweep_byte_alias(&rep, &c);
    let mut cov = Coverage::default();
    cov.exhaustive = true;
    cov.rule = "every case = (consumer instruction with one memory operand, pre-state): all address forms of syntax.md (direct, indirect, based, indexed, based-indexed, with 8 displacements incl. negative and wrapping ones) x {no override, ES, CS, SS, DS} x both widths x 12 consumers (loads, stores, read-modify-writes, xchg, lea, destination aliasing an address register) x base/index register lattice x 6 segment values chosen so that seg*16+off straddles 2^20, plus, for every shape, register values solved so that seg*16+off is exactly 0xFFFFE, 0xFFFFF, 2^20, 2^20+1, 2^20+2 for three segment values. The operand value sits only at the reference address; decoy markers sit at the same offset in the other segments, at the unwrapped offset and at the neighbouring bytes; the whole 1 MB is compared after every execution. Plus EVERY shape of the instruction catalog that has a register-based memory operand (all instruction kinds) with the operand solved to lie at 0xFFFFE, 0xFFFFF and 2^20 for two segment values. Plus EVERY catalog shape with a data-label operand with the label at offset 15 / 16 / 17 under DS = 0xFFFF, 0xFFFE, 0x0FFF (last byte of memory, word across the end). Plus histories: every ordered pair over 26 address forms x {none, ES, SS, CS} x {load, store} on one Interpreter object with four different segment values and every nameable cell distinct. Plus data-label operands with 6 DS values and byte-register aliasing (8 registers x 256 values x parent lattice)".into();
    cov.bounds = json!({"mem_shapes": n, "catalog_shapes_at_the_top_of_memory": n_wrap, "label_shapes_at_the_top_of_memory": n_lab_top, "operand_pair_histories": pairs.sequences, "operand_pair_steps": pairs.steps, "register_values": if tier.thorough {15} else {4}, "segments": if tier.thorough {10} else {6}, "tier": tier.name()});
    cov.assumptions = common_assumptions();
    cov.assumptions.push("physical address = (segment*16 + ((base+index+disp) mod 2^16)) mod 2^20; default segment SS iff BP is the base".into());
    let cov = finish_cov(&c, cov);
    rep.finish(cov)
}
