//! C15 — any input text is answered with a result or a diagnostic: no abort, no hang.
//!
//! Bounded-exhaustive instead of sampled: (a) all short strings over a 40-character alphabet to the
//! three library parsers and (through prompt sessions of the real binary) to the print reader, all
//! short byte strings as source files; (b) all token sequences up to a length; (c) the complete 1-edit
//! neighbourhood of seed programs; (d) deterministic pathological families at sizes 10 .. 10^5.
//! In-process cases run in child processes of this harness (chunks of the enumerated space), so that
//! a stack overflow or abort is a verdict about one case (found by bisection), not a harness crash.

use super::common::*;
use crate::cli::*;
use crate::findings::*;
use crate::pipe::*;
use emulator_8086_lib as lib;
use lib::{DataParser, Interpreter, Preprocessor, PreprocessorContext, PreprocessorOutput, VM};
use rayon::prelude::*;
use serde_json::json;
use std::io::Read;
use std::panic::{catch_unwind, AssertUnwindSafe};
use std::process::{Command, Stdio};
use std::sync::atomic::{AtomicU64, Ordering};
use std::time::{Duration, Instant};

const ALPHA40: &[u8] = b"amov1059xb\"[](),:;-><_ \n\0{}@#'.+*/\\=!?%&|";

fn repo_dir() -> String {
    std::env::var("VERIF_REPO").unwrap_or_else(|_| "/repo".to_string())
}

fn alpha_chars() -> Vec<char> {
    let mut v: Vec<char> = ALPHA40.iter().map(|b| *b as char).collect();
    v.push('\u{e9}');
    v.push('\u{ff}');
    v.push('\t');
    v
}

fn tokens() -> Vec<&'static str> {
    vec![
        "mov", "add", "adc", "sub", "sbb", "cmp", "inc", "dec", "neg", "and", "or", "xor", "test", "not", "shl", "sal", "shr", "sar", "rol", "ror", "rcl", "rcr", "mul", "imul", "div", "idiv", "aaa",
        "aas", "daa", "das", "aam", "aad", "cbw", "cwd", "push", "pop", "pushf", "popf", "lahf", "sahf", "xlat", "xchg", "lea", "movs", "lods", "stos", "cmps", "scas", "rep", "repe", "repz",
        "repne", "repnz", "jmp", "je", "jne", "jcxz", "jna", "loop", "loope", "loopne", "call", "ret", "int", "hlt", "nop", "stc", "clc", "cmc", "std", "cld", "sti", "cli", "ax", "bx", "cx", "dx",
        "al", "ah", "bl", "cl", "sp", "bp", "si", "di", "cs", "ds", "es", "ss", "byte", "word", "offset", "db", "dw", "set", "def", "macro", "print", "flags", "reg", "mem", "start:", "x:", "x",
        "f", "[", "]", "(", ")", ",", ":", "->", "<-", "{", "}", "\"", "0", "5", "0x10", "0b1", "-1", "65536", "\"ab\"", "\n", "MOV", "AX", "BYTE", "PRINT",
    ]
}

#[derive(Clone, Copy, PartialEq, Eq, Debug)]
enum Target {
    Pre,
    Data,
    Interp,
}

/// The enumerated in-process space: a list of generators, each with a length and an indexed access.
#[derive(Clone)]
enum Gen {
    /// all strings of exactly `len` characters over the alphabet
    Strings(usize),
    /// all sequences of exactly `len` tokens joined by a space
    Tokens(usize),
    /// 1-edit neighbourhood of seed `k`: for each position: delete, duplicate, substitute by each alphabet character
    Edits(usize),
    /// 2-edit neighbourhood of a short seed: pairs of substitutions from a small alphabet
    Edits2(usize),
    /// size families
    Family(usize),
}

struct Space {
    gens: Vec<(Gen, usize)>,
    seeds: Vec<(String, String)>,
    chars: Vec<char>,
    toks: Vec<&'static str>,
    fam: Vec<(String, String)>,
    total: usize,
}

fn seeds() -> Vec<(String, String)> {
    let mut v = Vec::new();
    let mut names: Vec<String> = Vec::new();
    if let Ok(rd) = std::fs::read_dir(format!("{}/examples", repo_dir())) {
        for e in rd.flatten() {
            if let Some(n) = e.file_name().to_str() {
                if n.ends_with(".s") {
                    names.push(n.to_string());
                }
            }
        }
    }
    names.sort();
    let re = regex::Regex::new(r";.*\n?").unwrap();
    for n in names {
        if let Ok(s) = std::fs::read_to_string(format!("{}/examples/{}", repo_dir(), n)) {
            // the library sees the text as the driver passes it on: comments stripped
            v.push((format!("examples/{}", n), re.replace_all(&s, "\n").to_string()));
        }
    }
    for (n, s) in [
        ("mini-data", "set 0x10\nbv: db 5\nwv: dw [3, 2]\ns: db \"hi\"\nstart:\nmov ax, word wv\nlea bx, byte s\nprint mem offset s : 2\n"),
        ("mini-macro", "macro m(a,b) -> mov a, b inc a <-\nmacro n(q) -> m(q, 5) <-\ndef f {\nn(ax)\n}\nstart:\ncall f\nn(bx)\nprint reg\n"),
        ("mini-mem", "start:\nmov byte es[bx, si, -2], 5\nadd word [bp, 4], 0x7fff\nrep movs byte\nshl word [0x10], cl\nint 0x21\nprint mem 0 -> 0b11\nprint mem :5\n"),
        ("mini-jump", "start:\nl1: cmp ax, bx\njne l2\nloop l1\nl2:\njcxz l1\nhlt\n"),
    ] {
        v.push((n.to_string(), s.to_string()));
    }
    v
}

fn families(thorough: bool) -> Vec<(String, String)> {
    let sizes: Vec<usize> = if thorough { vec![10, 100, 1000, 10_000, 100_000] } else { vec![10, 100, 1000, 10_000, 100_000] };
    let mut v: Vec<(String, String)> = Vec::new();
    let rep = |s: &str, n: usize| s.repeat(n);
    for n in sizes {
        let mut add = |name: &str, text: String| v.push((format!("{} x {}", name, n), text));
        add("instruction lines", format!("start:\n{}", rep("inc ax\n", n)));
        add("blank lines", format!("{}start:\nhlt\n", rep("\n", n)));
        add("blank lines at the end", format!("start:\nhlt{}", rep("\n", n)));
        add("spaces in a line", format!("start:\nmov ax,{} 1\n", rep(" ", n)));
        add("decimal digits", format!("start:\nmov ax, {}\n", rep("7", n)));
        add("zero digits", format!("start:\nmov ax, {}1\n", rep("0", n)));
        add("hex digits", format!("start:\nmov ax, 0x{}\n", rep("f", n)));
        add("binary digits", format!("start:\nmov ax, 0b{}\n", rep("1", n)));
        add("negative digits", format!("start:\nmov ax, -{}\n", rep("9", n)));
        add("db digits", format!("db {}\nstart:\n", rep("3", n)));
        add("string length", format!("s: db \"{}\"\nstart:\nhlt\n", rep("a", n)));
        add("dw string length", format!("s: dw \"{}\"\nstart:\nhlt\n", rep("a", n.min(30_000))));
        add("unterminated string", format!("s: db \"{}\nstart:\nhlt\n", rep("a", n)));
        add("open brackets", format!("start:\nmov ax, word {}\n", rep("[", n)));
        add("bracket pairs", format!("start:\nmov ax, word {}bx{}\n", rep("[", n), rep("]", n)));
        add("open parens", format!("start:\nm{}\n", rep("(", n)));
        add("nested macro uses", format!("macro m(a) -> inc a <-\nstart:\n{}ax{}\n", rep("m(", n), rep(")", n)));
        add("commas", format!("start:\nmov ax{} bx\n", rep(",", n)));
        add("labels", {
            let mut s = String::from("start:\n");
            for k in 0..n {
                s.push_str(&format!("l{}:\n", k));
            }
            s
        });
        add("jumps to one label", format!("start:\n{}end_:\n", rep("jmp end_\n", n)));
        add("procedures", {
            let mut s = String::new();
            for k in 0..n.min(20_000) {
                s.push_str(&format!("def p{} {{\ninc ax\n}}\n", k));
            }
            s.push_str("start:\ncall p0\n");
            s
        });
        add("macro definitions", {
            let mut s = String::new();
            for k in 0..n.min(20_000) {
                s.push_str(&format!("macro m{}(a) -> inc a <-\n", k));
            }
            s.push_str("start:\nm0(ax)\n");
            s
        });
        add("macro chain", {
            // m0 uses m1 uses m2 ... (depth n)
            let d = n.min(5000);
            let mut s = String::new();
            for k in 0..d {
                if k + 1 < d {
                    s.push_str(&format!("macro m{}(a) -> m{}(a) <-\n", k, k + 1));
                } else {
                    s.push_str(&format!("macro m{}(a) -> inc a <-\n", k));
                }
            }
            s.push_str("start:\nm0(ax)\n");
            s
        });
        add("macro parameters", {
            let k = n.min(2000);
            let ps: Vec<String> = (0..k).map(|i| format!("p{}", i)).collect();
            let args: Vec<String> = (0..k).map(|_| "ax".to_string()).collect();
            format!("macro big({}) -> inc p0 inc p{} inc p{} <-\nstart:\nbig({})\n", ps.join(","), k / 2, k - 1, args.join(","))
        });
        // every macro use builds a parser of its own (about 7 ms): linear, but the sizes are kept small
        add("macro uses", format!("macro m(a) -> inc a dec a <-\nstart:\n{}", rep("m(ax)\n", n.min(if thorough { 1000 } else { 300 }))));
        add("data definitions", format!("{}start:\nhlt\n", rep("db 1\n", n.min(60_000))));
        add("set directives", format!("{}start:\nhlt\n", rep("set 5\ndb [3]\n", n.min(50_000))));
        add("long identifier", format!("start:\njmp {}\n{}:\n", rep("a", n), rep("a", n)));
        // quadratic in the length of one line (known finding): capped, the scaling oracle sees it at 10^4
        add("one long line of instructions", format!("start: {}\n", rep("inc ax ", n.min(if thorough { 30_000 } else { 10_000 }))));
        add("comment characters", format!("start:\nhlt ;{}\n", rep(";", n)));
        add("colons", format!("start{}\n", rep(":", n)));
        add("print statements parsed", format!("start:\nhlt\n{}", rep("print mem 0 -> 3\n", n.min(20_000))));
    }
    // special shapes
    for (name, text) in [
        ("empty file", ""),
        ("only a newline", "\n"),
        ("one line without newline", "start:"),
        ("one instruction without newline", "stc"),
        ("one-line program with a breakpoint", "start: mov ax, 5 int 3 print reg"),
        ("one-line program with a divide error", "start: mov bl, 0 div bl"),
        ("one-line program with an unsupported interrupt", "start: mov ah, 0x77 int 0x21"),
        ("one-line program with a macro", "macro m(a) -> inc a int 3 <- start: m(ax) print flags"),
        ("no final newline", "start:\nmov ax, 5\nprint reg"),
        ("CRLF line ends", "start:\r\nmov ax, 5\r\nprint reg\r\n"),
        ("CR only", "start:\rmov ax, 5\rprint reg\r"),
        ("tabs and form feeds", "start:\n\tmov\tax,\t5\n\x0cprint reg\n"),
        ("NUL characters", "start:\nmov ax, 5\0\nprint reg\n"),
        ("UTF-8 BOM", "\u{feff}start:\nmov ax, 5\n"),
        ("non-ASCII identifier", "st\u{e4}rt:\nmov ax, 5\n"),
        ("non-ASCII in string", "s: db \"h\u{e9}llo\"\nstart:\nhlt\n"),
        ("non-ASCII before an error on the same line", "start:\nmov ax, \u{e9}\u{e9}\u{e9} @\n"),
        ("non-ASCII in a comment before a run-time message", "start: ; \u{e9}\u{e9}\u{e9}\u{e9}\nprint reg ; \u{fc}\nint 3\n"),
        ("wide characters", "start:\nmov ax, \u{1F600}\n"),
        ("error on a last line ending in a 2-byte character, no newline", "start:\nmov ax, 5\nmov bx, \u{e9}"),
        ("error on a last line ending in a 3-byte character, no newline", "start:\nmov ax, 5\nmov bx, \u{20ac}"),
        ("error on a last line ending in a 4-byte character, no newline", "start:\nmov ax, 5\nmov bx, \u{1F600}"),
        ("undefined label on a last line ending in a no-break space, no newline", "start:\nmov ax, 5\njmp nowhere\u{a0}"),
        ("only comments", "; nothing\n; at all"),
        ("only a quote", "\""),
        ("only an open brace", "def f {"),
        ("macro arrow only", "macro m(a) ->"),
        ("macro without end", "macro m(a) -> inc a"),
        ("macro jumping twice to one later label", "macro oor(x, l) -> cmp x,10 ja l cmp x,0 je l <-\nstart:\nmov ax, 5\noor(ax, bad)\noor(bx, bad)\nmov bx, 1\nbad:\nprint reg\n"),
        ("recursive macro", "macro r(a) -> r(a) <-\nstart:\nr(ax)\n"),
        ("recursion closed by a later use of a macro that expanded before", "macro skip(a) -> inc ax <-\nmacro run(k) -> k (k) <-\nstart:\nrun(skip)\nrun(skip)\nrun(run)\n"),
        ("mutually recursive macros", "macro p(a) -> q(a) <-\nmacro q(a) -> p(a) <-\nstart:\np(ax)\n"),
        ("macro passing itself", "macro p(a) -> a(a) <-\nstart:\np(p)\n"),
        ("huge array counts", "a: db [65535]\nb: db [65535]\nc: dw [65535]\nstart:\nhlt\n"),
        ("set at the top of memory", "set 0xffff\na: db [65535]\nstart:\nmov al, byte a\n"),
    ] {
        v.push((name.to_string(), text.to_string()));
    }
    // legal corner programs: every way a program can end (a taken jump / loop / call-free fall to a label that is
    // the very last thing in the file, after a hlt, an ordinary instruction or nothing; with and without final newline)
    for j in ["jmp e_", "je e_", "loop e_", "jcxz e_", ""] {
        for last in ["hlt\n", "inc ax\n", "print reg\n", "", "nop\nprint reg\n", "nop\nnop\ninc ax\nint 3\n"] {
            for tail in ["e_:\n", "e_:", "e_: ; end\n", "e_:\n\n\n"] {
                let text = format!("start:\nxor cx, cx\n{}\n{}{}", j, last, tail);
                v.push((format!("program end: {:?} / {:?} / {:?}", j, last, tail), text));
            }
        }
    }
    // ... and every kind of data definition whose image reaches or crosses the last byte of memory
    for def in ["db 5", "dw 5", "db [2]", "dw [2]", "db \"ab\"", "dw \"ab\"", "db [1,2]", "dw [1,2]", "db [2;7]", "dw [2;7]", "db -1", "dw -1", "dw offset s_"] {
        for pad in [13usize, 14, 15] {
            let text = format!("set 0xffff\ndb [{}]\ns_: {}\nt_: db 9\nstart:\nmov al, byte s_\nmov bl, byte t_\nprint mem 0xFFFFD : 2\nprint mem 0 : 4\n", pad, def);
            v.push((format!("data at the end of memory: {} after {} bytes", def, pad), text));
        }
    }
    // multi-byte characters at EVERY byte offset of a line that a message quotes: runs of 2-, 3- and 4-byte
    // characters shifted by 0..4 ASCII characters, in three sizes (any cut of the quoted text at a fixed byte
    // count below 400 / 6 000 / 80 000 bytes falls inside a character for one of the shifts)
    for unit in ["\u{e9}", "\u{20ac}", "\u{1F600}"] {
        for pad in 0..5usize {
            for n in [200usize, 3000, 40_000] {
                let run = format!("{}{}", "a".repeat(pad), unit.repeat(n / unit.len().max(1) * 2));
                v.push((format!("syntax error after {} bytes of {:?} shifted by {}", run.len(), unit, pad), format!("start:\nmov ax, {} @\n", run)));
                v.push((format!("error after a string of {} bytes of {:?} shifted by {}", run.len(), unit, pad), format!("s: db \"{}\" @\nstart:\nhlt\n", run)));
                if n == 200 {
                    v.push((format!("run-time messages on lines with {} bytes of {:?} shifted by {}", run.len(), unit, pad), format!("start: ; {}\nmov bl, 0 ; {}\nint 3 ; {}\nprint reg ; {}\ndiv bl ; {}\n", run, run, run, run, run)));
                }
            }
        }
    }
    // names of half a megabyte and a megabyte in every place a name can stand
    for n in [400_000usize, 1_000_000] {
        let nm = "a".repeat(n);
        v.push((format!("macro parameter name of {} characters", n), format!("macro m({}) -> inc {} <-\nstart:\nm(ax)\n", nm, nm)));
        if n < 1_000_000 {
            continue;
        }
        v.push((format!("macro name of {} characters", n), format!("macro {}(p) -> inc p <-\nstart:\n{}(ax)\n", nm, nm)));
        v.push((format!("macro argument of {} characters", n), format!("macro m(p) -> jmp p <-\nstart:\nm({})\n{}:\n", nm, nm)));
        v.push((format!("label of {} characters", n), format!("start:\njmp {}\n{}:\nhlt\n", nm, nm)));
        v.push((format!("procedure name of {} characters", n), format!("def {} {{\ninc ax\n}}\nstart:\ncall {}\n", nm, nm)));
        v.push((format!("data label of {} characters", n), format!("{}: db 5\nstart:\nmov al, byte {}\nmov bx, offset {}\n", nm, nm, nm)));
    }
    for ch in ["a", ";", "\"", "\n", " ", "(", "[", "0", ":", "\u{e9}"] {
        v.push((format!("1 MB of {:?}", ch), ch.repeat((1 << 20) / ch.len())));
    }
    v
}

impl Space {
    fn new(thorough: bool) -> Space {
        let chars = alpha_chars();
        let toks = tokens();
        let seeds = seeds();
        let fam = families(thorough);
        let mut gens: Vec<(Gen, usize)> = Vec::new();
        let nc = chars.len();
        for l in 0..=3usize {
            gens.push((Gen::Strings(l), nc.pow(l as u32)));
        }
        if thorough {
            gens.push((Gen::Strings(4), nc.pow(4)));
        }
        let nt = toks.len();
        for l in 1..=3usize {
            gens.push((Gen::Tokens(l), nt.pow(l as u32)));
        }
        for (k, (_, s)) in seeds.iter().enumerate() {
            let n = s.chars().count();
            gens.push((Gen::Edits(k), n * (2 + nc) + nc));
        }
        // 2-edit neighbourhoods of the short seeds
        for (k, (_, s)) in seeds.iter().enumerate() {
            let n = s.chars().count();
            let has_macro = s.contains("macro");
            if (n <= 160 || (thorough && n <= 400)) && (thorough || !has_macro) {
                gens.push((Gen::Edits2(k), n * n * 16));
            }
        }
        for k in 0..fam.len() {
            gens.push((Gen::Family(k), 1));
        }
        let total = gens.iter().map(|(_, n)| *n).sum();
        Space { gens, seeds, chars, toks, fam, total }
    }

    /// the `i`-th case of the space: (description, text)
    fn get(&self, mut i: usize) -> (String, String) {
        for (g, n) in self.gens.iter() {
            if i >= *n {
                i -= *n;
                continue;
            }
            return match g {
                Gen::Strings(l) => {
                    let mut s = String::new();
                    let nc = self.chars.len();
                    let mut k = i;
                    for _ in 0..*l {
                        s.push(self.chars[k % nc]);
                        k /= nc;
                    }
                    (format!("string #{} of length {}", i, l), s)
                }
                Gen::Tokens(l) => {
                    let nt = self.toks.len();
                    let mut k = i;
                    let mut parts = Vec::new();
                    for _ in 0..*l {
                        parts.push(self.toks[k % nt]);
                        k /= nt;
                    }
                    (format!("token sequence #{} of length {}", i, l), parts.join(" "))
                }
                Gen::Edits(sd) => {
                    let (name, seed) = &self.seeds[*sd];
                    let cs: Vec<char> = seed.chars().collect();
                    let nc = self.chars.len();
                    let per = 2 + nc;
                    let mut out: Vec<char> = cs.clone();
                    let what;
                    if i >= cs.len() * per {
                        // append each alphabet character at the end
                        let a = i - cs.len() * per;
                        out.push(self.chars[a]);
                        what = format!("append {:?}", self.chars[a]);
                    } else {
                        let pos = i / per;
                        let op = i % per;
                        if op == 0 {
                            out.remove(pos);
                            what = format!("delete position {}", pos);
                        } else if op == 1 {
                            out.insert(pos, cs[pos]);
                            what = format!("duplicate position {}", pos);
                        } else {
                            out[pos] = self.chars[op - 2];
                            what = format!("position {} := {:?}", pos, self.chars[op - 2]);
                        }
                    }
                    (format!("1-edit of {}: {}", name, what), out.into_iter().collect())
                }
                Gen::Edits2(sd) => {
                    let (name, seed) = &self.seeds[*sd];
                    let mut cs: Vec<char> = seed.chars().collect();
                    let n = cs.len();
                    let small: [char; 4] = ['(', '"', '\n', '0'];
                    let p1 = i / (n * 16);
                    let r = i % (n * 16);
                    let p2 = r / 16;
                    let a = small[(r % 16) / 4];
                    let b = small[r % 4];
                    cs[p1] = a;
                    cs[p2] = b;
                    (format!("2-edit of {}: position {} := {:?}, position {} := {:?}", name, p1, a, p2, b), cs.into_iter().collect())
                }
                Gen::Family(k) => (format!("family: {}", self.fam[*k].0), self.fam[*k].1.clone()),
            };
        }
        panic!("index out of the space");
    }
}

thread_local! {
    static PP: Preprocessor = Preprocessor::new();
    static DP: DataParser = DataParser::new();
    static IP: Interpreter = Interpreter::new();
}

/// run one text through the three library parsers; returns the panics (target, message)
fn run_case(text: &str, vm: &mut VM) -> Vec<(Target, String)> {
    let mut bad = Vec::new();
    let r = catch_unwind(AssertUnwindSafe(|| {
        PP.with(|p| {
            let mut ctx = PreprocessorContext::default();
            let mut out = PreprocessorOutput::default();
            let _ = p.parse(&mut ctx, &mut out, text);
        })
    }));
    if let Err(e) = r {
        bad.push((Target::Pre, panic_msg(e)));
    }
    // the data loader and the interpreter take one line at a time; long texts are for the assembler
    if text.len() <= 4096 {
        let r = catch_unwind(AssertUnwindSafe(|| {
            DP.with(|p| {
                let mut ctr = 0usize;
                let _ = p.parse(vm, &mut ctr, text);
            })
        }));
        if let Err(e) = r {
            bad.push((Target::Data, panic_msg(e)));
        }
        let r = catch_unwind(AssertUnwindSafe(|| {
            IP.with(|p| {
                let mut ictx = lib::InterpreterContext::default();
                ictx.fn_map.insert("f".into(), 0);
                ictx.label_map.insert("x".into(), lib::Label::new(lib::LabelType::CODE, 0, 0));
                let _ = p.parse(0, vm, &mut ictx, text);
            })
        }));
        if let Err(e) = r {
            bad.push((Target::Interp, panic_msg(e)));
        }
    }
    bad
}

/// child process: `verif C15-chunk <tier> <lo> <hi>` — prints one JSON line per failing case, then DONE
pub fn chunk_main(args: &[String]) -> i32 {
    let thorough = args[0] == "thorough";
    if args[1] == "families" {
        let sp = Space::new(thorough);
        println!("{} {}", sp.total - sp.fam.len(), sp.total);
        let mut lo = 0;
        for (g, n) in sp.gens.iter() {
            if !matches!(g, Gen::Family(_)) {
                let name = match g {
                    Gen::Strings(l) => format!("strings {}", l),
                    Gen::Tokens(l) => format!("tokens {}", l),
                    Gen::Edits(k) => format!("edits {}", sp.seeds[*k].0),
                    Gen::Edits2(k) => format!("edits2 {}", sp.seeds[*k].0),
                    _ => String::new(),
                };
                eprintln!("GEN {} {} {}", lo, n, name);
            }
            lo += n;
        }
        return 0;
    }
    let lo: usize = args[1].parse().unwrap();
    let hi: usize = args[2].parse().unwrap();
    let sp = Space::new(thorough);
    let mut vm = VM::new();
    let mut n = 0u64;
    for i in lo..hi.min(sp.total) {
        let (what, text) = sp.get(i);
        // CPU time of this thread, so that the load on the machine does not enter the measurement
        let cpu_now = || -> u128 {
            let mut ts: libc::timespec = unsafe { std::mem::zeroed() };
            unsafe { libc::clock_gettime(libc::CLOCK_THREAD_CPUTIME_ID, &mut ts) };
            ts.tv_sec as u128 * 1000 + ts.tv_nsec as u128 / 1_000_000
        };
        let t0 = cpu_now();
        let bad = run_case(&text, &mut vm);
        let ms = cpu_now() - t0;
        if ms > 20 && std::env::var("VERIF_DEBUG").is_ok() {
            eprintln!("DEBUG {} ms  {} bytes  {}", ms, text.len(), what);
        }
        for (t, msg) in bad {
            println!("{}", json!({"i": i, "what": what, "target": format!("{:?}", t), "panic": msg, "len": text.len()}));
        }
        // timing of the family inputs is evaluated by the parent (scaling between sizes)
        if what.starts_with("family") {
            println!("{}", json!({"i": i, "what": what, "target": "timing", "ms": ms as u64, "len": text.len()}));
        } else if ms as usize > 5000 + text.len() / 25 {
            println!("{}", json!({"i": i, "what": what, "target": "time", "panic": format!("{} ms for {} bytes", ms, text.len()), "len": text.len()}));
        }
        n += 1;
        // a DataParser / Interpreter call may have scribbled on the machine; reset cheaply now and then
        if n % 4096 == 0 {
            vm = VM::new();
        }
    }
    println!("DONE {}", n);
    0
}

static TIMINGS: std::sync::Mutex<Vec<(String, usize, u64)>> = std::sync::Mutex::new(Vec::new());

/// the class of a case: generator kind, or the family name without its size
fn site_of(what: &str) -> String {
    if let Some(f) = what.strip_prefix("family: ") {
        return format!("family {}", f.split(" x ").next().unwrap_or(f));
    }
    what.split(':').next().unwrap_or("").split('#').next().unwrap_or("").trim().to_string()
}

/// scaling oracle: within one family, going to the next size must not raise the cost per byte by more
/// than a factor 3 (quadratic behaviour raises it by the size ratio, 10; on the unchanged tree no family exceeds 1.2), once the time is measurable (1 s of CPU time)
fn scaling_violations(name_len_ms: &[(String, usize, u64)]) -> Vec<(String, String)> {
    let mut by: std::collections::BTreeMap<String, Vec<(usize, u64, String)>> = Default::default();
    for (what, len, ms) in name_len_ms {
        by.entry(site_of(what)).or_default().push((*len, *ms, what.clone()));
    }
    let mut out = Vec::new();
    for (fam, mut v) in by {
        v.sort();
        for w in v.windows(2) {
            let (l1, m1, _) = &w[0];
            let (l2, m2, what2) = &w[1];
            if *l2 < l1 * 3 {
                continue;
            }
            let r1 = (*m1).max(3) as f64 / *l1 as f64;
            let r2 = *m2 as f64 / *l2 as f64;
            if std::env::var("VERIF_C15_TIMINGS").is_ok() && *m2 >= 100 {
                eprintln!("TIMING {} : {} ms / {} B after {} ms / {} B : growth {:.2}", what2, m2, l2, m1, l1, r2 / r1);
            }
            if *m2 >= 1000 && r2 > 3.0 * r1 {
                out.push((fam.clone(), format!("{}: {} ms for {} bytes, after {} ms for {} bytes: the cost per byte grew {:.1}-fold", what2, m2, l2, m1, l1, r2 / r1)));
            }
        }
        if let Some((l, m, what)) = v.iter().find(|(_, m, _)| *m > 120_000) {
            out.push((fam.clone(), format!("{}: {} ms for {} bytes", what, m, l)));
        }
    }
    out
}

struct ChunkOut {
    lines: Vec<serde_json::Value>,
    done: bool,
    abnormal: Option<String>,
}

fn spawn_chunk(tier: &str, lo: usize, hi: usize, timeout_s: u64) -> ChunkOut {
    let exe = std::env::current_exe().expect("exe");
    let mut child = Command::new(exe).arg("C15-chunk").arg(tier).arg(lo.to_string()).arg(hi.to_string()).stdin(Stdio::null()).stdout(Stdio::piped()).stderr(Stdio::null()).spawn().expect("spawn chunk");
    let mut so = child.stdout.take().unwrap();
    let (tx, rx) = std::sync::mpsc::channel();
    let h = std::thread::spawn(move || {
        let mut s = String::new();
        let _ = so.read_to_string(&mut s);
        let _ = tx.send(s);
    });
    let deadline = Instant::now() + Duration::from_secs(timeout_s);
    let mut timed_out = false;
    let status = loop {
        match child.try_wait() {
            Ok(Some(st)) => break Some(st),
            Ok(None) => {
                if Instant::now() > deadline {
                    let _ = child.kill();
                    let _ = child.wait();
                    timed_out = true;
                    break None;
                }
                std::thread::sleep(Duration::from_millis(20));
            }
            Err(_) => break None,
        }
    };
    let text = rx.recv_timeout(Duration::from_secs(5)).unwrap_or_default();
    let _ = h.join();
    let mut lines = Vec::new();
    let mut done = false;
    for l in text.lines() {
        if l.starts_with("DONE") {
            done = true;
        } else if let Ok(v) = serde_json::from_str::<serde_json::Value>(l) {
            lines.push(v);
        }
    }
    let abnormal = if timed_out {
        Some(format!("no answer within {} s", timeout_s))
    } else {
        match status {
            Some(st) if st.success() && done => None,
            Some(st) => {
                use std::os::unix::process::ExitStatusExt;
                Some(match st.signal() {
                    Some(sig) => format!("killed by signal {} ({})", sig, if sig == 11 || sig == 6 { "stack overflow / abort" } else { "?" }),
                    None => format!("exit status {:?}", st.code()),
                })
            }
            None => Some("no status".into()),
        }
    };
    ChunkOut { lines, done, abnormal }
}

/// run a range in a child; on abnormal end bisect down to the culprit case
fn explore_range(rep: &Reporter, sp: &Space, tier: &str, lo: usize, hi: usize, counted: &AtomicU64) {
    let out = spawn_chunk(tier, lo, hi, 300);
    for v in out.lines.iter() {
        let i = v["i"].as_u64().unwrap_or(0) as usize;
        let (what, text) = sp.get(i);
        let target = v["target"].as_str().unwrap_or("?").to_string();
        if target == "timing" {
            TIMINGS.lock().unwrap().push((what.clone(), text.len(), v["ms"].as_u64().unwrap_or(0)));
            continue;
        }
        let site = format!("{} / {}", target, site_of(&what));
        let got = format!("{}: {}", what, v["panic"].as_str().unwrap_or(""));
        if rep.absorbed_by(&site, "panic", &[], None, &got) {
            continue;
        }
        rep.report(Viol { site, field: if target == "time" { "time".into() } else { "panic".into() }, vars: vec![], got_val: None, expected: "a result or a diagnostic".into(), got, case: json!({"text": clip_text(&text, 4000), "index": i, "what": what}), weight: text.len() as u64 });
    }
    match out.abnormal {
        None => {
            counted.fetch_add((hi - lo) as u64, Ordering::Relaxed);
        }
        Some(a) => {
            if hi - lo <= 1 {
                let (what, text) = sp.get(lo);
                let site = format!("abort / {}", site_of(&what));
                counted.fetch_add(1, Ordering::Relaxed);
                rep.report(Viol { site, field: "abort".into(), vars: vec![], got_val: None, expected: "a result or a diagnostic".into(), got: format!("{}: the process handling this text was {}", what, a), case: json!({"text": clip_text(&text, 4000), "index": lo, "what": what}), weight: text.len() as u64 });
            } else {
                let mid = lo + (hi - lo) / 2;
                explore_range(rep, sp, tier, lo, mid, counted);
                explore_range(rep, sp, tier, mid, hi, counted);
            }
        }
    }
}

fn cli_verdict(rep: &Reporter, c: &Counters, site: &str, what: &str, src: &[u8], stdin: &str, interpreted: bool, timeout_ms: u64, rss_cap_kb: u64) -> CliOut {
    let mut o = CliOpts::default();
    o.interpreted = interpreted;
    o.timeout_ms = timeout_ms;
    o.cap = 8 << 20;
    let out = run_cli_bytes(src, stdin.as_bytes(), &o);
    c.add_exec(1);
    let mut bad: Option<(String, String)> = None;
    if let Some(a) = out.abnormal() {
        // a program that loops by itself is not the emulator hanging: ask the replica loop
        let mut looping = false;
        if out.timed_out || out.capped {
            if let Ok(text) = std::str::from_utf8(src) {
                let re = regex::Regex::new(r";.*\n?").unwrap();
                let stripped = re.replace_all(text, "\n").to_string();
                if let Ok(asm) = assemble(&stripped) {
                    let mut vm = VM::new();
                    if let Ok(rr) = run_program(&asm, &mut vm, 20_000) {
                        looping = rr.stop == StopReason::Horizon;
                    }
                }
            }
        }
        if !looping {
            bad = Some(("abort".into(), format!("{}: {}", a, clip_text(&out.summary(), 700))));
        }
    } else if out.max_rss_kb > rss_cap_kb {
        bad = Some(("memory".into(), format!("peak resident set {} KB for {} bytes of input (ceiling {} KB)", out.max_rss_kb, src.len(), rss_cap_kb)));
    }
    c.outcome(&format!("cli status {:?}", out.status));
    if let Some((field, got)) = bad {
        let got = format!("{}: {}", what, got);
        if !rep.absorbed_by(site, &field, &[], None, &got) {
            let src_txt = String::from_utf8_lossy(src).to_string();
            rep.report(Viol { site: site.to_string(), field, vars: vec![], got_val: None, expected: "exit status 0 or 1 within the watchdog, with a result or a diagnostic".into(), got, case: json!({"src": clip_text(&src_txt, 4000), "src_len": src.len(), "stdin": stdin, "interpreted": interpreted, "what": what}), weight: src.len() as u64 });
        }
    }
    out
}

pub fn run(tier: &Tier) -> i32 {
    let rep_o = Reporter::new("C15", tier.name());
    let c_o = Counters::default();
    let rep = &rep_o;
    let c = &c_o;
    ensure_bin();
    let sp = Space::new(tier.thorough);

    // ---------------- in-process space, in child processes
    let counted = AtomicU64::new(0);
    let chunk = 6_000usize;
    let mut ranges: Vec<(usize, usize)> = Vec::new();
    {
        // cheap cases in big chunks, the family cases (last generators) one per chunk
        let fam_start = sp.total - sp.fam.len();
        let mut lo = 0;
        while lo < fam_start {
            let hi = (lo + chunk).min(fam_start);
            ranges.push((lo, hi));
            lo = hi;
        }
        for i in fam_start..sp.total {
            ranges.push((i, i + 1));
        }
    }
    ranges.par_iter().for_each(|(lo, hi)| explore_range(rep, &sp, tier.name(), *lo, *hi, &counted));
    c.add_exec(counted.load(Ordering::Relaxed));
    {
        let t = TIMINGS.lock().unwrap().clone();
        for (fam, got) in scaling_violations(&t) {
            let site = format!("time / {}", fam);
            if !rep.absorbed_by(&site, "time", &[], None, &got) {
                rep.report(Viol { site, field: "time".into(), vars: vec![], got_val: None, expected: "time proportional to the input: the cost per byte does not grow more than 3-fold from one size to the next".into(), got, case: json!({"family": fam}), weight: 0 });
            }
        }
    }
    let cli_timings: std::sync::Mutex<Vec<(String, usize, u64)>> = std::sync::Mutex::new(Vec::new());
    // ---------------- the print reader: prompt sessions of the real binary
    let prompt_lines = AtomicU64::new(0);
    {
        let mut all: Vec<String> = Vec::new();
        let nc = sp.chars.len();
        for l in 0..=3usize {
            for i in 0..nc.pow(l as u32) {
                let mut s = String::new();
                let mut k = i;
                for _ in 0..l {
                    s.push(sp.chars[k % nc]);
                    k /= nc;
                }
                // a line is a line: newlines inside would split it, NUL is kept
                if s.contains('\n') {
                    continue;
                }
                // n / q would end the session early
                let t = s.trim().to_ascii_lowercase();
                if t == "n" || t == "q" {
                    continue;
                }
                all.push(s);
            }
        }
        // print commands with every short suffix and the token sequences that start with print
        let toks = &sp.toks;
        for a in toks.iter() {
            for b in toks.iter() {
                if a.contains('\n') || b.contains('\n') {
                    continue;
                }
                all.push(format!("print {} {}", a, b));
                all.push(format!("print mem {} {}", a, b));
            }
        }
        for n in [10usize, 100, 1000, 10_000, 100_000] {
            all.push(format!("print mem {} -> 5", "9".repeat(n)));
            all.push(format!("print mem 0 : 0x{}", "f".repeat(n)));
            all.push(format!("print mem :{}", " ".repeat(n)));
            all.push("print ".repeat(n));
            all.push(format!("print mem 0b{} -> 1", "1".repeat(n)));
        }
        let chunks: Vec<&[String]> = all.chunks(4000).collect();
        chunks.par_iter().for_each(|ch| {
            let mut stdin = String::new();
            for l in ch.iter() {
                stdin.push_str(l);
                stdin.push('\n');
            }
            stdin.push_str("n\n");
            let out = cli_verdict(rep, c, "print reader / prompt session", &format!("{} lines starting with {:?}", ch.len(), ch[0]), b"start:\nmov ax, 5\nint 3\nprint reg\n", &stdin, false, 60_000, 400_000);
            prompt_lines.fetch_add(ch.len() as u64, Ordering::Relaxed);
            // the session must have reached the end: the program's print after the prompt is there
            if out.abnormal().is_none() && !out.out().contains("Output of line 4") {
                rep.report(Viol { site: "print reader / prompt session".into(), field: "abort".into(), vars: vec![], got_val: None, expected: "the session continues after every line and the program finishes".into(), got: clip_text(&out.summary(), 500), case: json!({"first_line": ch[0], "lines": ch.len()}), weight: 0 });
            }
        });
    }
    // ---------------- source files through the binary
    let files = AtomicU64::new(0);
    {
        // (1) all byte strings of length <= 1, length 2 over a 64-byte subset (thorough: all 65536)
        let mut bytes_cases: Vec<Vec<u8>> = vec![vec![]];
        for b in 0..=255u8 {
            bytes_cases.push(vec![b]);
        }
        let subset: Vec<u8> = if tier.thorough { (0..=255u8).collect() } else { b"am:s\n\r\t \"[](),;-><_019x{}\0@\x7f\x80\xc3\xa9\xff\xfe\xef\xbb\xbfqn.#$%&'*+/=?\\^`|~AZ".to_vec() };
        for a in subset.iter() {
            for b in subset.iter() {
                bytes_cases.push(vec![*a, *b]);
            }
        }
        bytes_cases.par_iter().for_each(|b| {
            cli_verdict(rep, c, "source file / short byte string", &format!("bytes {:02X?}", b), b, "", false, 6000, 400_000);
            files.fetch_add(1, Ordering::Relaxed);
        });
        // (2) the size families and special shapes, plain and -i with a closed stdin
        let fam: Vec<(usize, bool)> = (0..sp.fam.len()).flat_map(|k| [(k, false), (k, true)]).collect();
        fam.par_iter().for_each(|(k, interp)| {
            let (name, text) = &sp.fam[*k];
            // ceilings: 20 s and 1.5 GB for the largest inputs; 6 s / 400 MB below 100 KB
            let big = text.len() > 100_000;
            let o = cli_verdict(rep, c, &format!("source file / {}", name.split(" x ").next().unwrap_or(name)), name, text.as_bytes(), "", *interp, if big { 30_000 } else { 10_000 }, if big { 1_500_000 } else { 400_000 });
            if !*interp && !o.timed_out {
                cli_timings.lock().unwrap().push((format!("family: {}", name), text.len(), o.cpu_ms));
            }
            files.fetch_add(1, Ordering::Relaxed);
        });
        for (fam, got) in scaling_violations(&cli_timings.lock().unwrap()) {
            let site = format!("source file time / {}", fam);
            if !rep.absorbed_by(&site, "time", &[], None, &got) {
                rep.report(Viol { site, field: "time".into(), vars: vec![], got_val: None, expected: "time proportional to the input".into(), got, case: json!({"family": fam}), weight: 0 });
            }
        }
        // (3) invalid UTF-8 and binary garbage
        let mut garbage: Vec<(String, Vec<u8>)> = Vec::new();
        garbage.push(("lone continuation bytes".into(), vec![0x80; 100]));
        garbage.push(("truncated multi-byte sequence at the end".into(), b"start:\nmov ax, 5\n\xe2\x82".to_vec()));
        garbage.push(("overlong encoding".into(), b"start:\n\xc0\xaf\n".to_vec()));
        garbage.push(("all byte values".into(), (0..=255u8).collect()));
        garbage.push(("all byte values, 64 times".into(), (0..16384usize).map(|i| (i % 256) as u8).collect()));
        garbage.push(("UTF-16 text".into(), "start:\nmov ax, 5\n".encode_utf16().flat_map(|u| u.to_le_bytes()).collect()));
        garbage.par_iter().for_each(|(name, b)| {
            cli_verdict(rep, c, "source file / invalid UTF-8", name, b, "", false, 6000, 400_000);
            files.fetch_add(1, Ordering::Relaxed);
        });
        // (3'') valid programs whose last line ends in multi-byte white space without a newline, single-stepped to the end
        {
            let srcs: Vec<String> = vec![
                "start:\nmov ax, 5\nprint reg\u{a0}".into(),
                "start:\nmov ax, 5\nmov bx, 6\u{3000}".into(),
                "start:\nstc\u{2003}".into(),
                "start:\nmov bl, 0\ndiv bl\u{a0}".into(),
                "start:\nint 3\nint 3\u{a0}\u{a0}".into(),
            ];
            let work: Vec<(usize, bool)> = (0..srcs.len()).flat_map(|k| [(k, false), (k, true)]).collect();
            work.par_iter().for_each(|(k, interp)| {
                cli_verdict(rep, c, "source file / last line ends in multi-byte white space", &format!("{:?}{}", srcs[*k], if *interp { " -i" } else { "" }), srcs[*k].as_bytes(), &"n\n".repeat(12), *interp, 6000, 400_000);
                files.fetch_add(1, Ordering::Relaxed);
            });
        }
        // (3') command lines: every argument list of up to 3 (thorough 4) elements over the file, a missing file, a
        //      directory, the documented flag in both spellings, an unknown flag, an empty argument, "--";
        //      stdin closed, one "n", or unreadable
        {
            let alpha: Vec<&str> = vec!["{FILE}", "/nonexistent/x.s", "/", "-i", "--interpreted", "-x", "", "--", "-ii", "--interpreted=1"];
            let maxlen = if tier.thorough { 4 } else { 3 };
            let mut lists: Vec<Vec<String>> = vec![vec![]];
            let mut frontier: Vec<Vec<String>> = vec![vec![]];
            for _ in 0..maxlen {
                let mut next = Vec::new();
                for l in frontier.iter() {
                    for a in alpha.iter() {
                        let mut m = l.clone();
                        m.push(a.to_string());
                        next.push(m);
                    }
                }
                lists.extend(next.iter().cloned());
                frontier = next;
            }
            let argv_runs = AtomicU64::new(0);
            lists.par_iter().enumerate().for_each(|(k, av)| {
                let mut o = CliOpts::default();
                o.argv = Some(av.clone());
                o.timeout_ms = 6000;
                let stdin = match k % 3 {
                    0 => "",
                    1 => "n\nn\nn\nn\nn\nn\n",
                    _ => {
                        o.stdin_unreadable = true;
                        ""
                    }
                };
                let out = run_cli_bytes(b"start:\nmov ax, 5\nint 3\nprint reg\n", stdin.as_bytes(), &o);
                c.add_exec(1);
                argv_runs.fetch_add(1, Ordering::Relaxed);
                if let Some(a) = out.abnormal() {
                    rep.report(Viol { site: "command line".into(), field: "abort".into(), vars: vec![], got_val: None, expected: "exit status 0 or 1 within the watchdog, with a result, a usage text or a diagnostic".into(), got: format!("arguments {:?}: {}: {}", av, a, clip_text(&out.summary(), 700)), case: json!({"argv": av, "stdin": stdin, "stdin_unreadable": o.stdin_unreadable}), weight: av.len() as u64 });
                }
            });
            files.fetch_add(argv_runs.load(Ordering::Relaxed), Ordering::Relaxed);
        }
        // (4) 1-edit neighbourhoods of the straight-line seeds through the binary: deletion and three
        //     substitutions at every position
        let cli_seeds: Vec<(String, String)> = vec![
            ("cli-straight".into(), "bv: db 5\nstart:\nmov ax, 5 ; five\nadd al, byte bv\nprint reg\nint 3\nprint mem 0 -> 3".into()),
            ("cli-macro".into(), "macro m(a) -> inc a <-\ndef f {\nm(bx)\n}\nstart:\ncall f\nprint flags\n".into()),
        ];
        let mut edits: Vec<(String, Vec<u8>)> = Vec::new();
        for (name, s) in cli_seeds.iter() {
            let cs: Vec<char> = s.chars().collect();
            for pos in 0..cs.len() {
                let mut d = cs.clone();
                d.remove(pos);
                edits.push((format!("{}: delete position {}", name, pos), d.iter().collect::<String>().into_bytes()));
                for ch in if tier.thorough { vec!['@', '"', '(', '\n', '0', ';', ':', '[', '\u{e9}'] } else { vec!['@', '"', '(', '\n'] } {
                    let mut d = cs.clone();
                    d[pos] = ch;
                    edits.push((format!("{}: position {} := {:?}", name, pos, ch), d.iter().collect::<String>().into_bytes()));
                }
            }
        }
        edits.par_iter().for_each(|(what, b)| {
            cli_verdict(rep, c, "source file / 1-edit of a seed", what, b, "n\nn\n", false, 6000, 400_000);
            files.fetch_add(1, Ordering::Relaxed);
        });
    }

    for k in [0usize, sp.total / 3, sp.total / 2, sp.total - 40, sp.total - 1] {
        let (what, text) = sp.get(k.min(sp.total - 1));
        c.sample(json!({"index": k, "what": what, "text": clip_text(&text, 200)}));
    }
    c.states.fetch_add(sp.total as u64, Ordering::Relaxed);
    if (counted.load(Ordering::Relaxed) as usize) < sp.total && rep.unknown_count() == 0 {
        eprintln!("MACHINERY: C15 covered {} of {} in-process cases", counted.load(Ordering::Relaxed), sp.total);
        return 2;
    }
    let mut cov = Coverage::default();
    cov.exhaustive = true;
    let gen_desc: Vec<serde_json::Value> = sp
        .gens
        .iter()
        .filter(|(g, _)| !matches!(g, Gen::Family(_)))
        .map(|(g, n)| match g {
            Gen::Strings(l) => json!({"all strings of length": l, "cases": n}),
            Gen::Tokens(l) => json!({"all token sequences of length": l, "cases": n}),
            Gen::Edits(k) => json!({"1-edit neighbourhood of": sp.seeds[*k].0, "cases": n}),
            Gen::Edits2(k) => json!({"2-edit neighbourhood (4-character alphabet) of": sp.seeds[*k].0, "cases": n}),
            Gen::Family(_) => json!(null),
        })
        .collect();
    cov.rule = format!("in-process (each case to the real Preprocessor, and if at most 4 KB also as one line to the real DataParser and Interpreter; executed in child processes of the harness, an abnormal end is bisected to the single culprit): ALL strings of length <= {} over a {}-character alphabet (letters, digits, quotes, brackets, parentheses, punctuation, space, newline, NUL, tab, two non-ASCII characters), ALL sequences of <= 3 tokens over {} terminals of the source grammar, the COMPLETE 1-edit neighbourhood (delete, duplicate, substitute by each alphabet character, append) of {} seeds (the repository's examples and 4 mini programs), 2-edit neighbourhoods of the short seeds, and {} pathological inputs (33 families at sizes 10..10^5: line counts, blank lines, digit counts in every radix, string lengths, bracket / parenthesis nesting, nested macro uses, macro chains, labels, procedures, macro definitions, parameters; empty file, no final newline, CR / CRLF, NUL, BOM, non-ASCII, recursive macros, 1 MB of one character). Print reader: every string of length <= 3 and every 'print a b' / 'print mem a b' over the token alphabet typed as a line of a prompt session of the real binary, plus lines with up to 10^5 digits. Source files through the real binary: all byte strings of length <= 1, length 2 over a {}-byte subset, every family input plain and with -i (closed stdin), invalid UTF-8, and deletion + {} substitutions at every position of two seeds. Verdict: exit status 0/1, no signal, no watchdog expiry (unless the replica loop shows that the mutated program itself does not halt), peak memory and time under coarse ceilings Command lines: every argument list of up to 3 (thorough 4) elements over a 10-element alphabet (the file, a missing file, a directory, -i / --interpreted, unknown and malformed flags, an empty argument, --) with stdin closed / answering / unreadable must end with status 0 or 1.", if tier.thorough { 4 } else { 3 }, sp.chars.len(), sp.toks.len(), sp.seeds.len(), sp.fam.len(), if tier.thorough { 256 } else { 70 }, if tier.thorough { 9 } else { 4 });
    cov.bounds = json!({"in_process_cases": sp.total, "in_process_cases_completed": counted.load(Ordering::Relaxed), "generators": gen_desc, "family_inputs": sp.fam.len(), "prompt_lines": prompt_lines.load(Ordering::Relaxed), "source_files_through_the_binary": files.load(Ordering::Relaxed), "tier": tier.name()});
    cov.assumptions = common_assumptions();
    cov.assumptions.push("'time and memory proportional to the input' is checked only as absolute ceilings on finite families (binary: 10 s / 400 MB below 100 KB of input, 30 s / 1.5 GB above; in-process 120 s) and, within each size family, as a scaling test: from one size to the next the cost per byte (CPU time of the handling thread / child process, so that the load on the machine does not matter) must not grow more than 3-fold once the time exceeds 1 s (on the unchanged tree the largest growth is 1.2, apart from the recorded finding); no asymptotic claim".into());
    cov.assumptions.push("a watchdog expiry of the binary counts only if the replica run loop (real Interpreter, 20 000 steps) shows that the program itself halts".into());
    cov.cli_runs = CLI_RUNS.load(Ordering::Relaxed);
    cov.distinct_nontrivial = sp.total as u64;
    let cov = finish_cov(c, cov);
    rep.finish(cov)
}
