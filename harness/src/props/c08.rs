//! C08 — programs start at 'start', follow labels/calls/returns exactly, halt at the end.
//! All well-formed programs of a small scope, compared with a reference interpreter on the AST.

use super::common::*;
use crate::alu::*;
use crate::ast::*;
use crate::cli::*;
use crate::findings::*;
use crate::mach::*;
use crate::pipe::*;
use crate::refprog as rp;
use rayon::prelude::*;
use serde_json::json;
use std::collections::HashMap;
use std::sync::atomic::{AtomicU64, Ordering};

#[derive(Clone, Debug, PartialEq, Eq)]
enum A {
    Ins(Instr),
    Label(&'static str),
    Start,
    Proc(&'static str, Vec<Item>),
    MacroUse,
}

fn jmp(mn: &str, l: &str) -> Instr {
    Instr::Jmp(mn.into(), l.into())
}

fn alphabet(thorough: bool) -> Vec<A> {
    let mut v = vec![
        A::Ins(Instr::Zero(ZeroOp::Stc)),
        A::Ins(Instr::Zero(ZeroOp::Clc)),
        A::Label("a"),
        A::Label("b"),
        A::Ins(jmp("jmp", "a")),
        A::Ins(jmp("jmp", "b")),
        A::Ins(jmp("jc", "a")),
        A::Ins(jmp("jnc", "b")),
        A::Ins(Instr::Mov(Opnd::R16(R_CX), Opnd::Imm(2))),
        A::Ins(jmp("loop", "a")),
        A::Ins(Instr::Call("f".into())),
        A::Ins(Instr::Call("g".into())),
        A::Ins(Instr::Zero(ZeroOp::Hlt)),
        A::Ins(Instr::Print(PrintKind::Flags)),
        A::MacroUse,
        A::Ins(Instr::Zero(ZeroOp::Nop)),
        A::Proc("f", vec![Item::Ins(Instr::Zero(ZeroOp::Stc))]),
        A::Proc(
            "f",
            vec![
                Item::Ins(Instr::Zero(ZeroOp::Clc)),
                Item::Ins(Instr::Zero(ZeroOp::Ret)),
                Item::Ins(Instr::Zero(ZeroOp::Stc)),
            ],
        ),
        A::Proc("g", vec![Item::Ins(Instr::Call("f".into())), Item::Ins(Instr::Zero(ZeroOp::Cmc))]),
        A::Proc(
            "g",
            vec![Item::Label("c".into()), Item::Ins(Instr::Zero(ZeroOp::Cmc)), Item::Ins(jmp("jnc", "c"))],
        ),
        // the last instruction of the body is an unconditional jump and a label sits between it and the
        // closing brace: that label is the implied ret
        A::Proc(
            "f",
            vec![Item::Ins(jmp("jc", "z9")), Item::Ins(Instr::Zero(ZeroOp::Cmc)), Item::Ins(jmp("jmp", "z9")), Item::Label("z9".into())],
        ),
        // a body that emits nothing (or a single nop) still returns
        A::Proc("g", vec![Item::Ins(Instr::Zero(ZeroOp::Nop))]),
        A::Start,
    ];
    if thorough {
        v.push(A::Ins(jmp("jc", "b")));
        v.push(A::Ins(jmp("jnc", "a")));
        v.push(A::Ins(jmp("loop", "b")));
        v.push(A::Ins(Instr::Zero(ZeroOp::Cmc)));
        // (print statements are not among the documented contents of a procedure body: opcodes / macro use)
        v.push(A::Proc("f", vec![Item::MacroUse("m".into(), vec!["_".into()]), Item::Ins(Instr::Zero(ZeroOp::Cmc))]));
    }
    v
}

fn macro_bodies() -> HashMap<String, Vec<Item>> {
    let mut m = HashMap::new();
    m.insert("m".to_string(), vec![Item::Ins(Instr::Zero(ZeroOp::Stc)), Item::Ins(Instr::Zero(ZeroOp::Cmc))]);
    m
}

/// Build the program for a sequence; None if it is not well formed.
fn build(seq: &[usize], alpha: &[A]) -> Option<Program> {
    let mut labels: Vec<&str> = Vec::new();
    let mut procs: Vec<&str> = Vec::new();
    let mut uses_macro = false;
    let mut has_start = false;
    let mut code: Vec<Item> = Vec::new();
    let mut nproc_g_needs_f = false;
    for k in seq {
        match &alpha[*k] {
            A::Ins(i) => {
                if let Instr::Call(n) = i {
                    // procedures must be defined before they are called
                    if !procs.contains(&n.as_str()) {
                        return None;
                    }
                }
                code.push(Item::Ins(i.clone()));
            }
            A::Label(l) => {
                if labels.contains(l) {
                    return None;
                }
                labels.push(l);
                code.push(Item::Label(l.to_string()));
            }
            A::Start => {
                if has_start {
                    return None;
                }
                has_start = true;
                code.push(Item::Label("start".into()));
            }
            A::Proc(n, body) => {
                if procs.contains(n) {
                    return None;
                }
                for b in body {
                    if let Item::Ins(Instr::Call(x)) = b {
                        if !procs.contains(&x.as_str()) {
                            return None;
                        }
                        nproc_g_needs_f = true;
                    }
                    if let Item::MacroUse(..) = b {
                        uses_macro = true;
                    }
                }
                procs.push(n);
                code.push(Item::Proc(n.to_string(), body.clone()));
            }
            A::MacroUse => {
                uses_macro = true;
                code.push(Item::MacroUse("m".into(), vec!["_".into()]));
            }
        }
    }
    let _ = nproc_g_needs_f;
    if !has_start {
        return None;
    }
    // every jump target must be defined
    for it in code.iter() {
        if let Item::Ins(Instr::Jmp(_, t)) = it {
            if !labels.contains(&t.as_str()) {
                return None;
            }
        }
    }
    if uses_macro {
        code.insert(0, Item::MacroDef("m".into(), vec!["_".into()], "stc cmc".into()));
    }
    Some(Program { data: vec![], code })
}

#[derive(Default)]
struct Stats {
    programs: AtomicU64,
    diverging: AtomicU64,
    ret_empty: AtomicU64,
    steps: AtomicU64,
}

fn check_program(rep: &Reporter, c: &Counters, st: &Stats, prog: &Program, mb: &HashMap<String, Vec<Item>>, cli: bool) {
    check_program_h(rep, c, st, prog, mb, cli, 2000)
}

fn check_program_h(rep: &Reporter, c: &Counters, st: &Stats, prog: &Program, mb: &HashMap<String, Vec<Item>>, cli: bool, horizon: usize) {
    let src = render(prog);
    let flat = rp::flatten(prog, mb);
    let rr = rp::run(&flat, &rp::RunOpts { stdin: vec![], interpreted: false, horizon, dos_0a: false, rep_prompt_per_iteration: false });
    st.programs.fetch_add(1, Ordering::Relaxed);
    match rr.stop {
        rp::Stop::Horizon => {
            st.diverging.fetch_add(1, Ordering::Relaxed);
            return;
        }
        rp::Stop::RetEmpty => {
            // out of definition (fall-through into a procedure / stray ret)
            st.ret_empty.fetch_add(1, Ordering::Relaxed);
            return;
        }
        _ => {}
    }
    let viol = |field: &str, expected: String, got: String| {
        rep.report(Viol {
            site: "program".into(),
            field: field.into(),
            vars: vec![("items".into(), prog.code.len() as i64)],
            got_val: None,
            expected,
            got,
            case: if src.len() < 20_000 { json!({"src": src, "reference_trace": rr.trace, "reference_stop": format!("{:?}", rr.stop)}) } else { json!({"src_head": clip_text(&src, 600), "src_tail": src[src.len() - 400..].to_string(), "src_lines": src.lines().count(), "reference_stop": format!("{:?}", rr.stop)}) },
            weight: src.len() as u64,
        });
    };
    let asm = match assemble(&src) {
        Ok(a) => a,
        Err(e) => {
            viol("assemble", "well-formed program is accepted".into(), format!("{:?}", e));
            return;
        }
    };
    // map emitted-code indices to flattened-source indices (NOP may emit zero or one line)
    let nops: Vec<usize> = {
        // positions (in emitted order) where a NOP line would sit if NOP emitted one line
        let mut v = Vec::new();
        let mut n = 0usize;
        fn walk(items: &[Item], n: &mut usize, v: &mut Vec<usize>, mb: &HashMap<String, Vec<Item>>) {
            for it in items {
                match it {
                    Item::Ins(Instr::Zero(ZeroOp::Nop)) => {
                        v.push(*n + v.len());
                    }
                    Item::Ins(_) => *n += 1,
                    Item::Proc(_, b) => {
                        walk(b, n, v, mb);
                        *n += 1;
                    }
                    Item::MacroUse(m, _) => {
                        if let Some(b) = mb.get(m) {
                            walk(b, n, v, mb);
                        }
                    }
                    _ => {}
                }
            }
        }
        walk(&prog.code, &mut n, &mut v, mb);
        v
    };
    let map_idx: Box<dyn Fn(usize) -> Option<usize>> = if asm.code.len() == flat.ins.len() {
        Box::new(|i| Some(i))
    } else if asm.code.len() == flat.ins.len() + nops.len() {
        let nops = nops.clone();
        Box::new(move |i| {
            if nops.contains(&i) {
                None
            } else {
                Some(i - nops.iter().filter(|p| **p < i).count())
            }
        })
    } else {
        viol(
            "count",
            format!("{} emitted instructions (one per source instruction, implied ret per procedure)", flat.ins.len()),
            format!("{} emitted: {:?}", asm.code.len(), asm.code),
        );
        return;
    };
    let mut vm = emulator_8086_lib::VM::new();
    let run = match run_program(&asm, &mut vm, horizon * 2) {
        Ok(r) => r,
        Err(e) => {
            viol("refused", "program with start label runs".into(), e);
            return;
        }
    };
    st.steps.fetch_add(run.trace.len() as u64, Ordering::Relaxed);
    c.add_exec(run.trace.len() as u64);
    // trace (drop the appended hlt)
    let appended = asm.code.len();
    let got_trace: Vec<usize> = run.trace.iter().filter(|i| **i != appended).filter_map(|i| map_idx(*i)).collect();
    if got_trace != rr.trace {
        let k = got_trace.iter().zip(rr.trace.iter()).position(|(a, b)| a != b).unwrap_or(got_trace.len().min(rr.trace.len()));
        viol(
            "trace",
            clip_text(&format!("executed instruction indices {:?}", rr.trace), 1500),
            if got_trace.len() < 200 { format!("{:?} (first difference at step {}; emitted code {:?})", got_trace, k, asm.code) } else { format!("first difference at step {}: expected instruction {:?}, executed {:?}", k, rr.trace.get(k), got_trace.get(k)) },
        );
        return;
    }
    let stop_ok = match (&rr.stop, &run.stop) {
        (rp::Stop::Halt, StopReason::Halt) => true,
        (rp::Stop::EndOfProgram, StopReason::Halt) => run.trace.last() == Some(&appended),
        _ => false,
    };
    if !stop_ok {
        viol("stop", format!("{:?}", rr.stop), clip_text(&format!("{:?} (trace {:?})", run.stop, run.trace), 1500));
        return;
    }
    let got = Regs::from_vm(&vm);
    if let Some((n, e, g)) = rr.fin.r.diff(&got, 0xFFFF) {
        viol("final", format!("{} = 0x{:04X}", n, e), format!("{} = 0x{:04X}", n, g));
        return;
    }
    c.outcome(&format!("{:?}/{}", rr.stop, rr.trace.len().min(12)));
    if cli {
        let (_, rr2, out, res) = cli_conformance(prog, mb, &[], false, 2000);
        let _ = rr2;
        if let Some((field, expected, got)) = res {
            rep.report(Viol {
                site: "cli program".into(),
                field,
                vars: vec![],
                got_val: None,
                expected,
                got,
                case: json!({"src": src, "stdout": out.out()}),
                weight: src.len() as u64,
            });
        }
    }
}

fn enumerate(alpha_len: usize, k: usize) -> Vec<Vec<usize>> {
    let mut out: Vec<Vec<usize>> = vec![vec![]];
    let mut all = Vec::new();
    for _ in 0..k {
        let mut next = Vec::new();
        for s in out.iter() {
            for a in 0..alpha_len {
                let mut t = s.clone();
                t.push(a);
                next.push(t);
            }
        }
        all.extend(next.iter().cloned());
        out = next;
    }
    all
}

/// hand-built programs for the label positions the statement names explicitly
fn special_programs() -> Vec<Program> {
    let stc = || Item::Ins(Instr::Zero(ZeroOp::Stc));
    let clc = || Item::Ins(Instr::Zero(ZeroOp::Clc));
    let pf = || Item::Ins(Instr::Print(PrintKind::Flags));
    let mut v = Vec::new();
    // label last in the program
    v.push(Program { data: vec![], code: vec![b::label("start"), stc(), b::jmp("jmp", "e"), clc(), b::label("e")] });
    // recursion with the call in tail position (the return address is the implied ret itself), and with
    // code after the call; several activations
    for tail in [true, false] {
        for depth in [1i32, 2, 3, 5] {
            let mut body = vec![Item::Ins(Instr::Un(UnOp::Inc, Opnd::R16(R_DX))), Item::Ins(Instr::Un(UnOp::Dec, Opnd::R16(R_CX))), b::jmp("jcxz", "done_"), b::call("rec")];
            if !tail {
                body.push(Item::Ins(Instr::Un(UnOp::Inc, Opnd::R16(R_SI))));
            }
            body.push(b::label("done_"));
            v.push(Program { data: vec![], code: vec![b::proc("rec", body), b::label("start"), b::mov(b::r16("cx"), b::imm(depth)), b::call("rec"), pf(), b::print(PrintKind::Reg)] });
        }
    }
    // tail recursion ending in an explicit ret, and a jump onto itself that is left through a loop count
    v.push(Program {
        data: vec![],
        code: vec![
            b::proc("rec", vec![Item::Ins(Instr::Un(UnOp::Dec, Opnd::R16(R_CX))), b::jmp("jcxz", "done_"), b::call("rec"), Item::Ins(Instr::Zero(ZeroOp::Ret)), b::label("done_"), Item::Ins(Instr::Un(UnOp::Inc, Opnd::R16(R_DX)))]),
            b::label("start"),
            b::mov(b::r16("cx"), b::imm(4)),
            b::call("rec"),
            b::mov(b::r16("cx"), b::imm(3)),
            b::label("wait_"),
            b::jmp("loop", "wait_"),
            b::print(PrintKind::Reg),
        ],
    });
    // procedures and the data stack: a result handed back on the stack, a procedure that pops its argument,
    // nested calls around pushes (return addresses do not live on the emulated stack)
    {
        let ax = || b::r16("ax");
        let bx = || b::r16("bx");
        v.push(Program {
            data: vec![],
            code: vec![
                b::proc("f", vec![b::push(bx())]),
                b::proc("g", vec![b::pop(b::r16("si")), Item::Ins(Instr::Un(UnOp::Inc, Opnd::R16(R_SI))), b::push(b::r16("si"))]),
                b::proc("h", vec![b::push(ax()), b::call("f"), b::pop(b::r16("di")), b::pop(b::r16("bp"))]),
                b::label("start"),
                b::mov(ax(), b::imm(0x0031)),
                b::mov(bx(), b::imm(0x00AA)),
                b::push(ax()),
                b::call("f"),
                b::pop(b::r16("cx")),
                b::pop(b::r16("dx")),
                b::print(PrintKind::Reg),
                b::push(bx()),
                b::call("g"),
                b::pop(b::r16("di")),
                b::call("h"),
                b::print(PrintKind::Reg),
            ],
        });
    }
    // a procedure and a label that share their name (separate name spaces): forward and backward jumps
    v.push(Program {
        data: vec![],
        code: vec![
            b::proc("fin", vec![Item::Ins(Instr::Un(UnOp::Inc, Opnd::R16(R_DX)))]),
            b::label("start"),
            stc(),
            b::jmp("jc", "fin"),
            b::mov(b::r16("si"), b::imm(0x0BAD)),
            b::label("fin"),
            b::call("fin"),
            clc(),
            b::jmp("jc", "fin"),
            b::print(PrintKind::Reg),
        ],
    });
    // a procedure and a DATA label that share their name: the data label used before and after the definition of
    // the procedure, the procedure called before and after the uses (and a macro of that name as well)
    v.push(Program {
        data: vec![b::dw(Some("tot"), 5), b::db(Some("cnt"), 2)],
        code: vec![
            b::proc("first", vec![b::bin(BinOp::Add, b::lab16("tot"), b::imm(1))]),
            b::proc("tot", vec![Item::Ins(Instr::Un(UnOp::Inc, Opnd::R16(R_DX))), b::bin(BinOp::Add, b::r8("bl"), b::lab8("cnt"))]),
            b::proc("cnt", vec![b::bin(BinOp::Add, b::lab16("tot"), b::r16("dx"))]),
            b::label("start"),
            b::call("first"),
            b::bin(BinOp::Add, b::lab16("tot"), b::r16("dx")),
            b::mov(b::r16("ax"), b::lab16("tot")),
            b::call("tot"),
            b::call("cnt"),
            b::mov(b::r16("cx"), b::lab16("tot")),
            b::mov(b::r16("si"), Opnd::Offset("cnt".into())),
            b::print(PrintKind::Reg),
        ],
    });
    // label before a procedure, jumped over / into with a way out
    v.push(Program {
        data: vec![],
        code: vec![
            b::label("start"),
            b::jmp("jmp", "over"),
            b::label("p"),
            b::proc("f", vec![stc(), b::jmp("jmp", "done"), clc()]),
            b::label("over"),
            b::jmp("jmp", "p"),
            b::label("done"),
            pf(),
        ],
    });
    // label before a macro use and before a print
    v.push(Program {
        data: vec![],
        code: vec![
            Item::MacroDef("m".into(), vec!["_".into()], "stc cmc".into()),
            b::label("start"),
            b::jmp("jmp", "x"),
            stc(),
            b::label("x"),
            Item::MacroUse("m".into(), vec!["_".into()]),
            b::jmp("jnc", "y"),
            stc(),
            b::label("y"),
            pf(),
        ],
    });
    // nested calls to depth 4, several calls of the same procedure, start not first
    v.push(Program {
        data: vec![],
        code: vec![
            b::proc("p1", vec![Item::Ins(Instr::Un(UnOp::Inc, Opnd::R16(R_AX)))]),
            b::proc("p2", vec![b::call("p1"), b::call("p1")]),
            b::proc("p3", vec![b::call("p2"), b::call("p1"), Item::Ins(Instr::Zero(ZeroOp::Ret)), b::call("p2")]),
            b::proc("p4", vec![b::call("p3"), b::call("p3")]),
            clc(),
            b::label("start"),
            b::call("p4"),
            b::call("p2"),
            b::print(PrintKind::Reg),
            b::mov(b::r16("cx"), b::imm(3)),
            b::label("again"),
            b::call("p1"),
            b::jmp("loop", "again"),
            b::print(PrintKind::Reg),
            Item::Ins(Instr::Zero(ZeroOp::Hlt)),
            b::print(PrintKind::Reg),
        ],
    });
    v
}

/// programs whose calls, returns and jump targets lie at emitted-instruction indices around 2^16
/// (an index kept in 16 bits would wrap there)
fn large_programs() -> Vec<(String, Program)> {
    let mut v = Vec::new();
    let fill = |code: &mut Vec<Item>, n: usize| {
        for _ in 0..n {
            code.push(Item::Ins(Instr::Un(UnOp::Inc, Opnd::R16(R_BX))));
        }
    };
    // f occupies indices 0,1 (inc dx, implied ret); start's first instruction is index 2
    for call_at in [65534usize, 65535, 65536, 65537, 70000] {
        let mut code = vec![b::proc("f", vec![Item::Ins(Instr::Un(UnOp::Inc, Opnd::R16(R_DX)))]), b::label("start"), Item::Ins(Instr::Zero(ZeroOp::Stc))];
        fill(&mut code, call_at - 3);
        code.push(b::call("f")); // emitted index = call_at
        code.push(Item::Ins(Instr::Zero(ZeroOp::Cmc)));
        code.push(b::jmp("jmp", "tail"));
        code.push(b::mov(b::r16("cx"), b::imm(0x0BAD)));
        code.push(b::label("tail"));
        code.push(b::call("f"));
        code.push(b::jmp("jnc", "fin"));
        code.push(b::mov(b::r16("si"), b::imm(0x0BAD)));
        code.push(b::label("fin"));
        code.push(b::mov(b::r16("di"), b::imm(0x600D)));
        v.push((format!("call at emitted index {}", call_at), Program { data: vec![], code }));
    }
    // more than 255 of each kind of named thing; a call chain deeper than 255
    {
        let n = 300usize;
        let mut code: Vec<Item> = Vec::new();
        // p0 is a leaf, p(k) calls p(k-1): calling p299 nests 300 calls
        code.push(b::proc("p0", vec![Item::Ins(Instr::Un(UnOp::Inc, Opnd::R16(R_DX)))]));
        for k in 1..n {
            code.push(Item::Proc(format!("p{}", k), vec![b::call(&format!("p{}", k - 1)), Item::Ins(Instr::Un(UnOp::Inc, Opnd::R16(R_SI)))]));
        }
        code.push(b::label("start"));
        for k in [0usize, 1, 254, 255, 256, 257, 299] {
            code.push(b::call(&format!("p{}", k)));
        }
        // 300 labels, jumps to the ones around 255/256 (each skips an instruction that must not run)
        for k in 0..n {
            if [254usize, 255, 256, 299].contains(&k) {
                code.push(b::jmp("jmp", &format!("l{}", k)));
                code.push(b::mov(b::r16("di"), b::imm(0x0BAD)));
            }
            code.push(Item::Label(format!("l{}", k)));
            code.push(Item::Ins(Instr::Un(UnOp::Inc, Opnd::R16(R_BX))));
        }
        v.push(("300 procedures (call depth 300) and 300 labels".into(), Program { data: vec![], code }));
    }
    // recursion deeper than 2^15 and 2^16 pending calls: rec nests CX times, at the bottom two more calls
    for depth in [32767i32, 32768, 32769, 65535, 65536, 65537] {
        let code = vec![
            b::proc("leaf", vec![Item::Ins(Instr::Un(UnOp::Inc, Opnd::R16(R_BX)))]),
            b::proc("extra", vec![b::call("leaf"), Item::Ins(Instr::Un(UnOp::Inc, Opnd::R16(R_BX)))]),
            b::proc(
                "rec",
                vec![
                    Item::Ins(Instr::Un(UnOp::Inc, Opnd::R16(R_DX))),
                    Item::Ins(Instr::Un(UnOp::Dec, Opnd::R16(R_CX))),
                    b::jmp("jcxz", "bottom_"),
                    b::call("rec"),
                    Item::Ins(Instr::Un(UnOp::Inc, Opnd::R16(R_SI))),
                    b::jmp("jmp", "done_"),
                    b::label("bottom_"),
                    b::call("extra"),
                    b::label("done_"),
                ],
            ),
            b::label("start"),
            b::mov(b::r16("cx"), b::imm(depth - 2)),
            b::call("rec"),
            b::mov(b::r16("di"), b::imm(0x600D)),
        ];
        v.push((format!("recursion {} deep", depth), Program { data: vec![], code }));
    }
    // a loop whose body crosses index 2^16, and a procedure defined beyond it
    {
        let mut code = vec![b::label("start"), b::mov(b::r16("cx"), b::imm(2)), b::jmp("jmp", "again")];
        fill(&mut code, 65000);
        code.push(b::label("again"));
        fill(&mut code, 700);
        code.push(b::jmp("loop", "again"));
        code.push(b::jmp("jmp", "over"));
        code.push(b::proc("late", vec![Item::Ins(Instr::Un(UnOp::Inc, Opnd::R16(R_DX))), b::jmp("jc", "leave_"), Item::Ins(Instr::Un(UnOp::Inc, Opnd::R16(R_DX))), b::label("leave_")]));
        code.push(b::label("over"));
        code.push(Item::Ins(Instr::Zero(ZeroOp::Stc)));
        code.push(b::call("late"));
        code.push(Item::Ins(Instr::Zero(ZeroOp::Clc)));
        code.push(b::call("late"));
        code.push(b::mov(b::r16("di"), b::imm(0x600D)));
        v.push(("loop body, procedure and labels beyond emitted index 65536".into(), Program { data: vec![], code }));
    }
    v
}

pub fn run(tier: &Tier) -> i32 {
    let rep_o = Reporter::new("C08", tier.name());
    let c_o = Counters::default();
    let rep = &rep_o;
    let c = &c_o;
    ensure_bin();
    let alpha = alphabet(tier.thorough);
    let mb = macro_bodies();
    let k = if tier.thorough { 6 } else { 5 };
    let kcli = 4;
    let st = Stats::default();
    let wellformed = AtomicU64::new(0);
    // enumerate prefix-wise in parallel to bound memory: first two positions fan out
    let firsts: Vec<Vec<usize>> = enumerate(alpha.len(), 2.min(k));
    let cli_runs_before = CLI_RUNS.load(Ordering::Relaxed);
    firsts.par_iter().for_each(|pre| {
        let mut seqs: Vec<Vec<usize>> = vec![pre.clone()];
        if pre.len() == 2 {
            let tails = enumerate(alpha.len(), k - 2);
            for t in tails {
                let mut s = pre.clone();
                s.extend(t);
                seqs.push(s);
            }
        }
        let macro_item = alpha.iter().position(|a| *a == A::MacroUse).unwrap();
        for s in seqs {
            // every macro use costs the assembler about 7 ms (it builds a new parser object per use):
            // the quick tier keeps macro uses to the sequences below the maximum length
            if !tier.thorough && s.len() == k && s.contains(&macro_item) {
                continue;
            }
            if let Some(p) = build(&s, &alpha) {
                wellformed.fetch_add(1, Ordering::Relaxed);
                let cli = s.len() <= kcli;
                check_program(rep, c, &st, &p, &mb, cli);
                if s.len() == k && s[0] == 20 && s[1] == 6 {
                    c.sample(json!({"program": render(&p)}));
                }
            }
        }
    });
    for p in special_programs() {
        let mut mb2 = mb.clone();
        mb2.insert("m".into(), mb["m"].clone());
        check_program(rep, c, &st, &p, &mb2, true);
        c.sample(json!({"special_program": render(&p)}));
    }
    let large = large_programs();
    large.par_iter().for_each(|(name, p)| {
        check_program_h(rep, c, &st, p, &mb, false, 600_000);
        c.outcome(&format!("large: {}", name));
    });
    c.states.fetch_add(st.programs.load(Ordering::Relaxed), Ordering::Relaxed);
    let mut cov = Coverage::default();
    cov.exhaustive = true;
    cov.rule = format!("all sequences of at most {} items over a {}-item alphabet (stc, clc, cmc, labels a/b, the label start at every position, jmp/jc/jnc/loop to a/b, mov cx, call f/g, hlt, print flags, a macro use, nop, six procedure definitions incl. explicit ret + dead code, nested call, a local loop, a body ending in an unconditional jump to a label at the closing brace, a body that emits nothing) that are well formed (in the quick tier the macro use only in sequences below the maximum length; labels and procedures defined once, targets defined, procedures defined before their call); each rendered to source, assembled by the real Preprocessor and run by a replica of the driver loop around the real Interpreter; the complete executed trace, the halt reason and the final registers are compared with a reference interpreter working on the AST. All programs with at most {} items also run through the real CLI binary and its stdout is matched against the reference event list. Plus 13 large programs (one with 300 procedures nested to call depth 300 and 300 labels; six with recursion 32767..65537 deep; six) whose calls, returns, loop bodies, labels and procedures lie at emitted-instruction indices 65534..70000 (an index held in 16 bits wraps there). Diverging programs (reference step horizon 2000) and programs that fall into a procedure are discarded and counted. transitions = executed instructions; states = programs", k, alpha.len(), kcli);
    cov.bounds = json!({"max_items": k, "alphabet": alpha.len(), "cli_max_items": kcli, "programs": st.programs.load(Ordering::Relaxed), "discarded_diverging": st.diverging.load(Ordering::Relaxed), "discarded_fall_into_procedure": st.ret_empty.load(Ordering::Relaxed), "tier": tier.name()});
    cov.assumptions = common_assumptions();
    cov.assumptions.push("NOP may assemble to zero or one instruction; traces are compared with NOPs removed".into());
    cov.cli_runs = CLI_RUNS.load(Ordering::Relaxed) - cli_runs_before;
    cov.distinct_nontrivial = st.programs.load(Ordering::Relaxed) - st.diverging.load(Ordering::Relaxed) - st.ret_empty.load(Ordering::Relaxed);
    let cov = finish_cov(c, cov);
    if st.programs.load(Ordering::Relaxed) < 1000 {
        eprintln!("MACHINERY: C08 enumerated only {} programs", st.programs.load(Ordering::Relaxed));
        return 2;
    }
    rep.finish(cov)
}
