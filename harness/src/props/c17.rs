//! C17 — print reg / flags / mem show the true machine state and never change it.
//!
//! Everything runs through the real binary: a generated program establishes a machine state, prints
//! it (in the program and at INT 3 / single-step prompts), and the stdout is parsed back and
//! compared with the reference interpreter's state. "Printing never alters" is decided by the
//! prints and the final dump that follow every print in the same run.

use super::common::*;
use crate::alu::*;
use crate::ast::b::*;
use crate::ast::*;
use crate::cli::*;
use crate::findings::*;
use rayon::prelude::*;
use serde_json::json;
use std::collections::HashMap;
use std::sync::atomic::Ordering;

const MB: u32 = 1 << 20;

#[derive(Clone)]
struct Case {
    site: String,
    prog: Program,
    /// respelling of the program text (same line structure), None = canonical
    spelling: Option<(Radix, bool)>,
    stdin: Vec<String>,
    interpreted: bool,
    note: String,
}

fn respell(p: &Program, radix: Radix, upper: bool) -> String {
    let mut s = String::new();
    for mut l in program_lines(p) {
        let is_print = l.first().map(|t| t.text == "print").unwrap_or(false);
        if is_print {
            for t in l.iter_mut() {
                if let TokKind::Num(v, c) = t.kind {
                    if let Some(x) = render_num(v, c, radix) {
                        t.text = x;
                    }
                }
            }
            if upper {
                upper_kw(&mut l);
            }
        }
        s.push_str(&join_toks(&l));
        s.push('\n');
    }
    s
}

fn set_regs(code: &mut Vec<Item>, vals: &[u16; 11]) {
    // order of `vals`: ds es ss ax bx cx dx sp bp si di
    for (k, s) in ["ds", "es", "ss"].iter().enumerate() {
        code.push(mov(r16("ax"), imm(vals[k] as i32)));
        code.push(mov(sr(s), r16("ax")));
    }
    for (k, r) in ["ax", "bx", "cx", "dx", "sp", "bp", "si", "di"].iter().enumerate() {
        code.push(mov(r16(r), imm(vals[3 + k] as i32)));
    }
}

/// load the flag word through push/popf on a scratch stack at 0x0500:0x0100
fn set_flags(code: &mut Vec<Item>, word: u16) {
    code.push(mov(r16("ax"), imm(0x0500)));
    code.push(mov(sr("ss"), r16("ax")));
    code.push(mov(r16("sp"), imm(0x0100)));
    code.push(mov(r16("ax"), imm(word as i32)));
    code.push(push(r16("ax")));
    code.push(z(ZeroOp::Popf));
}

const VALS: [u16; 11] = [0x0000, 0x0001, 0x00FF, 0x0100, 0x7FFF, 0x8000, 0xABCD, 0xFFFF, 0x1234, 0x0A0B, 0xF0E1];

fn reg_flag_cases(thorough: bool) -> Vec<Case> {
    let mut v = Vec::new();
    // (a) every register holds every value once; flags by instructions
    for rot in 0..11 {
        let mut vals = [0u16; 11];
        for k in 0..11 {
            vals[k] = VALS[(k + rot) % 11];
        }
        let mut code = vec![label("start")];
        match rot % 4 {
            0 => {}
            1 => code.push(z(ZeroOp::Stc)),
            2 => code.push(z(ZeroOp::Std)),
            _ => {
                code.push(z(ZeroOp::Stc));
                code.push(z(ZeroOp::Cli));
            }
        }
        set_regs(&mut code, &vals);
        code.push(print(PrintKind::Reg));
        code.push(print(PrintKind::Flags));
        code.push(print(PrintKind::Reg));
        code.push(print(PrintKind::Flags));
        let prog = Program { data: vec![], code };
        for sp in [None, Some((Radix::Dec, true))] {
            v.push(Case { site: "print reg".into(), prog: prog.clone(), spelling: sp, stdin: vec![], interpreted: false, note: format!("rotation {}", rot) });
        }
    }
    // (b) all 512 combinations of the nine flags, loaded through POPF (TF set => prompts answered with n)
    let mut words: Vec<u16> = Vec::new();
    for bits in 0..512u16 {
        let pos = [0u16, 2, 4, 6, 7, 8, 9, 10, 11];
        let mut w = 0u16;
        for (k, p) in pos.iter().enumerate() {
            if bits & (1 << k) != 0 {
                w |= 1 << p;
            }
        }
        words.push(w);
        if thorough {
            // the bits outside the nine flags must not disturb the display
            words.push(w | 0xF02A);
        }
    }
    for w in words {
        let mut code = vec![label("start")];
        set_flags(&mut code, w);
        code.push(print(PrintKind::Flags));
        code.push(mov(r16("bx"), imm((w ^ 0x5A5A) as i32)));
        code.push(print(PrintKind::Reg));
        code.push(print(PrintKind::Flags));
        let prog = Program { data: vec![], code };
        v.push(Case {
            site: "print flags".into(),
            prog,
            spelling: if w & 1 != 0 { Some((Radix::Dec, true)) } else { None },
            stdin: vec!["n".to_string(); 12],
            interpreted: false,
            note: format!("flag word 0x{:04X}", w),
        });
    }
    v
}

/// data image used by the memory cases: patterned bytes at 0.., 0x3F0.., 0xFFFE0..0xFFFFF
fn mem_data() -> Vec<DataDef> {
    let mut d = Vec::new();
    for i in 0..80u32 {
        d.push(db(None, ((i * 37 + 11) & 0xFF) as i32));
    }
    d.push(DataDef::Set(0x003F));
    for i in 0..48u32 {
        d.push(db(None, ((i * 29 + 0x80) & 0xFF) as i32));
    }
    d.push(DataDef::Set(0xFFFE));
    for i in 0..32u32 {
        d.push(db(None, ((i * 53 + 0x41) & 0xFF) as i32));
    }
    d.push(DataDef::Set(0x1000));
    d.push(DataDef::Str(None, W::B, "The quick brown fox jumps over the lazy dog".into()));
    d
}

const LENS: [u32; 10] = [0, 1, 2, 15, 16, 17, 31, 32, 33, 64];
const STARTS: [u32; 10] = [0, 1, 0x3EF, 0x3F0, 0, 0x400, 0xFFFEF, 0xFFFF0, 0xFFFFF, 0x10000];

fn mem_cases(thorough: bool) -> Vec<Case> {
    let mut v = Vec::new();
    let spellings: Vec<Option<(Radix, bool)>> = vec![None, Some((Radix::Hex, false)), Some((Radix::HexUp, true)), Some((Radix::Bin, false)), Some((Radix::Dec, true))];
    // (a) absolute ranges, both forms, every start x every length that stays inside the space
    for form in 0..2 {
        for (si, chunk) in STARTS.chunks(2).enumerate() {
            let mut code = vec![label("start")];
            // memory written by instructions as well as by definitions
            code.push(mov(direct(W::W, 0x0004), imm(0xBEEF)));
            code.push(mov(direct(W::B, 0x03F1), imm(0x77)));
            // absolute ranges do not depend on DS: every second run prints under DS=0x1000
            if si % 2 == 0 {
                code.push(mov(r16("ax"), imm(0x1000)));
                code.push(mov(sr("ds"), r16("ax")));
            }
            for s in chunk {
                for n in LENS.iter() {
                    if s + n >= MB {
                        continue;
                    }
                    code.push(print(if form == 0 { PrintKind::MemRange(*s, s + n) } else { PrintKind::MemLen(*s, *n) }));
                }
            }
            // backwards ranges are reported at run time
            if form == 0 {
                code.push(print(PrintKind::MemRange(5, 4)));
                code.push(print(PrintKind::MemRange(0xFFFFF, 0)));
                code.push(print(PrintKind::MemRange(16, 0)));
            }
            code.push(print(PrintKind::Reg));
            code.push(print(PrintKind::MemRange(0, 15)));
            let prog = Program { data: mem_data(), code };
            for sp in spellings.iter() {
                v.push(Case {
                    site: if form == 0 { "print mem a -> b".into() } else { "print mem a : n".into() },
                    prog: prog.clone(),
                    spelling: *sp,
                    stdin: vec![],
                    interpreted: false,
                    note: format!("starts chunk {}", si),
                });
            }
        }
    }
    // (a') thorough: EVERY start in the first 41 and the last 32 bytes of memory x EVERY length that stays inside
    //      the patterned region / the space, both forms (every alignment of start and end within a row of 16)
    if thorough {
        for form in 0..2 {
            let starts: Vec<u32> = (0..=40u32).chain(0xFFFE0..=0xFFFFFu32).collect();
            for s in starts {
                let mut code = vec![label("start")];
                if s % 2 == 1 {
                    code.push(mov(r16("ax"), imm(0x0203)));
                    code.push(mov(sr("ds"), r16("ax")));
                }
                for n in 0..=40u32 {
                    if s + n >= MB {
                        continue;
                    }
                    code.push(print(if form == 0 { PrintKind::MemRange(s, s + n) } else { PrintKind::MemLen(s, n) }));
                }
                code.push(print(PrintKind::Reg));
                v.push(Case {
                    site: if form == 0 { "print mem a -> b".into() } else { "print mem a : n".into() },
                    prog: Program { data: mem_data(), code },
                    spelling: None,
                    stdin: vec![],
                    interpreted: false,
                    note: format!("dense: start {} x every length up to 40", s),
                });
            }
        }
    }
    if thorough {
        // DS-relative: every length 0..=47 from three segment starts (the last one leaves the space at 32)
        for ds in [0u16, 0x003F, 0xFFFE] {
            for half in 0..2u32 {
                let mut code = vec![label("start")];
                code.push(mov(r16("ax"), imm(ds as i32)));
                code.push(mov(sr("ds"), r16("ax")));
                for n in (half * 24)..(half * 24 + 24) {
                    code.push(print(PrintKind::MemDs(n)));
                }
                code.push(print(PrintKind::Reg));
                v.push(Case { site: "print mem : n".into(), prog: Program { data: mem_data(), code }, spelling: None, stdin: vec![], interpreted: false, note: format!("dense: DS=0x{:04X}, lengths {}..{}", ds, half * 24, half * 24 + 23) });
            }
        }
    }
    // (b) DS-relative ranges: DS over the segment lattice, lengths incl. those that leave the space
    let dss: Vec<u16> = if thorough { vec![0, 1, 0x003F, 0x0FFF, 0x1000, 0xF000, 0xFFFE, 0xFFFF, 0xFFF0, 0x8000] } else { vec![0, 0x003F, 0x1000, 0xFFFE, 0xFFFF] };
    for ds in dss {
        let mut code = vec![label("start")];
        code.push(mov(r16("ax"), imm(ds as i32)));
        code.push(mov(sr("ds"), r16("ax")));
        for n in LENS.iter().chain([255u32, 256, 0xFFFF, 0xFFFFF].iter()) {
            // keep the output of one run below the cap: long ranges only once per DS
            if *n > 256 && (ds as u32) * 16 + *n < MB {
                continue;
            }
            code.push(print(PrintKind::MemDs(*n)));
        }
        code.push(print(PrintKind::Reg));
        let prog = Program { data: mem_data(), code };
        for sp in spellings.iter() {
            v.push(Case { site: "print mem : n".into(), prog: prog.clone(), spelling: *sp, stdin: vec![], interpreted: false, note: format!("DS=0x{:04X}", ds) });
        }
        // more than 64 KiB in one statement: the range does not wrap inside the segment (one run per DS, about
        // 260 KB of output; memory 64 KiB further on differs from the start of the segment)
        if (ds as u32) * 16 + 0x10040 < MB {
            let mut code = vec![label("start")];
            code.push(mov(r16("ax"), imm(ds as i32)));
            code.push(mov(sr("ds"), r16("ax")));
            code.push(mov(direct(W::W, 0x0008), imm(0x7E7E)));
            code.push(print(PrintKind::MemDs(0x10040)));
            code.push(print(PrintKind::Reg));
            v.push(Case { site: "print mem : n".into(), prog: Program { data: mem_data(), code }, spelling: None, stdin: vec![], interpreted: false, note: format!("DS=0x{:04X}, 65601 bytes", ds) });
        }
    }
    v
}

/// print commands typed at a prompt
fn prompt_commands() -> Vec<String> {
    let mut v: Vec<String> = Vec::new();
    for s in ["print reg", "print flags", "PRINT REG", "Print Flags", "  print   reg  ", "print\tflags"] {
        v.push(s.to_string());
    }
    let fmt = |x: u32, r: usize| match r {
        0 => format!("{}", x),
        1 => format!("0x{:x}", x),
        2 => format!("0X{:X}", x),
        _ => format!("0b{:b}", x),
    };
    let mut k = 0usize;
    for s in [0u32, 0x3F0, 0xFFFF0, 0xFFFFF] {
        for n in [0u32, 1, 15, 16, 17, 33] {
            if s + n >= MB {
                continue;
            }
            for r in 0..4 {
                k += 1;
                match k % 2 {
                    0 => v.push(format!("print mem {} -> {}", fmt(s, r), fmt(s + n, r))),
                    _ => v.push(format!("print mem {} : {}", fmt(s, r), fmt(n, r))),
                }
            }
        }
    }
    for n in [0u32, 1, 15, 16, 17, 33] {
        for r in 0..4 {
            v.push(format!("print mem : {}", fmt(n, r)));
            v.push(format!("print mem :{}", fmt(n, r)));
        }
    }
    // numbers of every digit count, written against the separator with and without blanks (a token rule that
    // swallows "dddd:dddd" or "dddd->..." shows only for particular digit counts)
    for a in [7u32, 512, 4096, 65536, 1000000] {
        for n in [3u32, 100, 1024] {
            v.push(format!("print mem {}:{}", a, n));
            v.push(format!("print mem {} :{}", a, n));
            v.push(format!("print mem {}->{}", a, a + n));
            v.push(format!("print mem {}-> {}", a, a + n));
            v.push(format!("print mem 0x{:x}:0x{:x}", a, n));
            v.push(format!("print mem {:04}:{:04}", a, n));
        }
    }
    // commands longer than 256 and 4096 bytes (padding blanks, zero-padded numbers)
    for pad in [250usize, 300, 5000] {
        v.push(format!("print mem 0 ->{}15", " ".repeat(pad)));
        v.push(format!("print mem {}16 : {}3", "0".repeat(pad), "0".repeat(pad)));
        v.push(format!("print{}reg", " ".repeat(pad)));
        v.push(format!("print mem :{}31", "\t".repeat(pad)));
    }
    // reported instead of printed
    for s in [
        "print mem 5 -> 4",
        "print mem 1048575 -> 0",
        "print mem 1048575 : 1",
        "print mem 1048576 -> 1048577",
        "print mem 0 -> 1048576",
        "print mem 0 : 1048576",
        "print mem : 1048576",
        "print mem 0x100000 -> 0x100001",
        "print mem 4294967296 -> 4294967297",
        "print mem 18446744073709551616 : 1",
        "print mem 99999999999999999999999999 -> 5",
    ] {
        v.push(s.to_string());
    }
    v
}

fn prompt_cases(thorough: bool) -> Vec<Case> {
    let mut v = Vec::new();
    let cmds = prompt_commands();
    // state programs: registers distinct, a flag pattern, DS chosen so that ': n' reaches interesting places
    let dss: Vec<u16> = if thorough { vec![0, 0x003F, 0xFFFE, 0xFFFF, 0x1000] } else { vec![0, 0x003F, 0xFFFF] };
    for (di, ds) in dss.iter().enumerate() {
        let mut vals = [0u16; 11];
        for k in 0..11 {
            vals[k] = VALS[(k + di * 3 + 1) % 11];
        }
        vals[0] = *ds;
        let mut code = vec![label("start")];
        code.push(z(ZeroOp::Stc));
        code.push(z(ZeroOp::Std));
        set_regs(&mut code, &vals);
        code.push(mov(direct(W::W, 0x0002), imm(0x1357)));
        code.push(int(3));
        code.push(print(PrintKind::Reg));
        code.push(print(PrintKind::Flags));
        code.push(print(PrintKind::MemRange(0, 31)));
        code.push(print(PrintKind::MemRange(0xFFFE0, 0xFFFFF)));
        let prog = Program { data: mem_data(), code };
        // one deviation from the default answer: each command alone, then `n`
        for c in cmds.iter() {
            v.push(Case { site: "prompt print".into(), prog: prog.clone(), spelling: None, stdin: vec![c.clone(), "n".into()], interpreted: false, note: format!("int 3, DS=0x{:04X}", ds) });
        }
        // the command as the very last line of the input, without a line terminator (it is still a command;
        // the end of input comes after it), alone and after an empty line
        for c in cmds.iter().step_by(if thorough { 1 } else { 2 }) {
            if c.trim().is_empty() {
                continue;
            }
            v.push(Case { site: "prompt print".into(), prog: prog.clone(), spelling: None, stdin: vec![c.clone()], interpreted: false, note: format!("int 3, DS=0x{:04X} [no final newline]", ds) });
            v.push(Case { site: "prompt print".into(), prog: prog.clone(), spelling: None, stdin: vec!["".into(), c.clone()], interpreted: false, note: format!("int 3, DS=0x{:04X}, after an empty line [no final newline]", ds) });
        }
        v.push(Case { site: "prompt print".into(), prog: prog.clone(), spelling: None, stdin: vec!["n".into()], interpreted: false, note: "n as the last bytes of the input [no final newline]".into() });
        v.push(Case { site: "prompt print".into(), prog: prog.clone(), spelling: None, stdin: vec!["print reg".into(), "q".into()], interpreted: false, note: "q as the last bytes of the input [no final newline]".into() });
        // all commands in one script, and each command twice in a row (a print must not disturb the next)
        let mut all = cmds.clone();
        all.push("n".into());
        v.push(Case { site: "prompt print".into(), prog: prog.clone(), spelling: None, stdin: all, interpreted: false, note: "all commands in one script".into() });
        for c in cmds.iter().step_by(if thorough { 1 } else { 3 }) {
            v.push(Case { site: "prompt print".into(), prog: prog.clone(), spelling: None, stdin: vec![c.clone(), c.clone(), "print reg".into(), "n".into()], interpreted: false, note: "command repeated".into() });
        }
    }
    // interpreted mode and trap flag: the command typed at the k-th single-step prompt
    let mut code = vec![label("start")];
    code.push(mov(r16("ax"), imm(0x1234)));
    code.push(mov(direct(W::W, 0x0010), r16("ax")));
    code.push(z(ZeroOp::Stc));
    code.push(mov(r16("cx"), imm(0xFFFF)));
    code.push(print(PrintKind::Reg));
    code.push(print(PrintKind::MemRange(0, 31)));
    let prog = Program { data: mem_data(), code };
    let n_ins = 6;
    for k in 0..n_ins {
        for c in cmds.iter().step_by(if thorough { 1 } else { 4 }) {
            let mut stdin: Vec<String> = vec!["n".to_string(); k];
            stdin.push(c.clone());
            stdin.extend(vec!["n".to_string(); n_ins - k + 1]);
            v.push(Case { site: "prompt print".into(), prog: prog.clone(), spelling: None, stdin, interpreted: true, note: format!("-i, command at prompt {}", k) });
        }
    }
    // trap flag set by POPF and then an INT 3: the breakpoint prompt shows the same flags as the step prompts
    {
        let mut code = vec![label("start")];
        set_flags(&mut code, 0x0100 | 0x0004 | 0x0800);
        code.push(mov(r16("bx"), imm(0x0BB0)));
        code.push(int(3));
        code.push(print(PrintKind::Flags));
        let prog = Program { data: mem_data(), code };
        for c in ["print flags", "print reg", "print mem 0 -> 15"] {
            // prompts: before mov (step), before int 3 (step), at the breakpoint, before print (step)
            v.push(Case { site: "prompt print".into(), prog: prog.clone(), spelling: None, stdin: vec![c.to_string(), "n".into(), c.to_string(), "n".into(), c.to_string(), "n".into(), c.to_string(), "n".into(), "n".into()], interpreted: false, note: "trap flag and int 3".into() });
        }
    }
    // trap flag set by POPF: prompts appear from the next instruction on
    let mut code = vec![label("start")];
    set_flags(&mut code, 0x0100 | 0x0001 | 0x0080);
    code.push(mov(r16("bx"), imm(0x4321)));
    code.push(print(PrintKind::Flags));
    code.push(print(PrintKind::Reg));
    let prog = Program { data: mem_data(), code };
    for c in cmds.iter().step_by(if thorough { 1 } else { 4 }) {
        v.push(Case { site: "prompt print".into(), prog: prog.clone(), spelling: None, stdin: vec![c.clone(), "n".into(), c.clone(), "n".into(), "n".into(), "n".into()], interpreted: false, note: "trap flag".into() });
    }
    v
}

/// Every 16-bit address constant in every spelling, typed at a breakpoint prompt: the program first
/// fills the first 64 KiB with a pattern that identifies each address, so each answer shows which
/// address the printer understood.
fn prompt_constant_cases(thorough: bool) -> Vec<Case> {
    // word at offset a = a for every even a below 64 KiB (data definitions: 32767 words, the most one segment
    // takes): the bytes at v identify v
    let mut data: Vec<DataDef> = Vec::new();
    for a in 0..32767u32 {
        data.push(DataDef::Val(None, W::W, (a * 2) as i32));
    }
    let code = vec![label("start"), mov(r16("bx"), imm(0x0BB0)), int(3), print(PrintKind::MemRange(0x1234, 0x1237))];
    let prog = Program { data, code };
    let mut v = Vec::new();
    let spell = |x: u32, k: usize| -> String {
        match k {
            0 => format!("{}", x),
            1 => format!("0x{:x}", x),
            2 => format!("0x{:05x}", x),
            3 => format!("0b{:b}", x),
            4 => format!("0X{:04X}", x),
            _ => format!("{:07}", x),
        }
    };
    let step = if thorough { 1 } else { 1 };
    let per_run = 4096u32;
    let spellings: Vec<usize> = if thorough { vec![0, 1, 2, 3, 4, 5] } else { vec![0, 1, 2, 3] };
    for k in spellings {
        let mut lo = 0u32;
        while lo < 65532 {
            let mut stdin: Vec<String> = Vec::new();
            let mut x = lo;
            while x < (lo + per_run).min(65532) {
                // alternate the two absolute forms; the length is spelled in the same radix
                if x % 2 == 0 {
                    stdin.push(format!("print mem {} : {}", spell(x, k), spell(1, k)));
                } else {
                    stdin.push(format!("print mem {} -> {}", spell(x, k), spell(x + 1, k)));
                }
                x += step;
            }
            stdin.push("n".into());
            v.push(Case { site: "prompt print".into(), prog: prog.clone(), spelling: None, stdin, interpreted: false, note: format!("every address 0x{:04X}..0x{:04X} in spelling {}", lo, lo + per_run - 1, k) });
            lo += per_run;
        }
    }
    v
}

pub fn run(tier: &Tier) -> i32 {
    let rep_o = Reporter::new("C17", tier.name());
    let c_o = Counters::default();
    let rep = &rep_o;
    let c = &c_o;
    ensure_bin();
    let mut cases = reg_flag_cases(tier.thorough);
    let n_regflag = cases.len();
    cases.extend(mem_cases(tier.thorough));
    let n_mem = cases.len() - n_regflag;
    cases.extend(prompt_cases(tier.thorough));
    cases.extend(prompt_constant_cases(tier.thorough));
    let n_prompt = cases.len() - n_regflag - n_mem;
    let mb: HashMap<String, Vec<Item>> = HashMap::new();
    let prints = std::sync::atomic::AtomicU64::new(0);
    let reports = std::sync::atomic::AtomicU64::new(0);
    let prompt_prints = std::sync::atomic::AtomicU64::new(0);
    let cells = std::sync::atomic::AtomicU64::new(0);
    cases.par_iter().for_each(|cs| {
        let src = match cs.spelling {
            None => render(&cs.prog),
            Some((r, up)) => respell(&cs.prog, r, up),
        };
        // a case marked "[no final newline]" writes its last line without the line terminator
        let (rr, out, res) = if cs.note.ends_with("[no final newline]") {
            let raw = cs.stdin.join("\n");
            cli_conformance_raw(&src, &cs.prog, &mb, &cs.stdin, &raw, cs.interpreted, 200_000, false, false)
        } else {
            cli_conformance_src(&src, &cs.prog, &mb, &cs.stdin, cs.interpreted, 200_000)
        };
        c.add_exec(1);
        for e in rr.events.iter() {
            match e {
                crate::refprog::Ev::Print { bytes, kind, .. } => {
                    prints.fetch_add(1, Ordering::Relaxed);
                    match bytes {
                        Some(b) => {
                            cells.fetch_add(b.len() as u64, Ordering::Relaxed);
                        }
                        None => {
                            if !matches!(kind, PrintKind::Reg | PrintKind::Flags) {
                                reports.fetch_add(1, Ordering::Relaxed);
                            }
                        }
                    }
                }
                crate::refprog::Ev::PromptPrint { bytes, kind, .. } => {
                    prompt_prints.fetch_add(1, Ordering::Relaxed);
                    match bytes {
                        Some(b) => {
                            cells.fetch_add(b.len() as u64, Ordering::Relaxed);
                        }
                        None => {
                            if !matches!(kind, PrintKind::Reg | PrintKind::Flags) {
                                reports.fetch_add(1, Ordering::Relaxed);
                            }
                        }
                    }
                }
                _ => {}
            }
        }
        c.outcome(&format!("{:?}/{}", rr.stop, if res.is_none() { "conforms" } else { "differs" }));
        let site = match &res {
            Some((f, _, _)) if f.starts_with("print-") || f == "output" || f == "extra-output" || f == "exit" => cs.site.clone(),
            _ => cs.site.clone(),
        };
        report_cli(rep, &site, res, &src, &cs.stdin, cs.interpreted, &out, json!(cs.note));
    });
    for cs in cases.iter().step_by(cases.len() / 8 + 1) {
        let src = match cs.spelling {
            None => render(&cs.prog),
            Some((r, up)) => respell(&cs.prog, r, up),
        };
        let shown: String = src.lines().filter(|l| !l.starts_with("db ")).collect::<Vec<_>>().join("\n");
        c.sample(json!({"site": cs.site, "note": cs.note, "source_without_db_lines": shown, "stdin": cs.stdin, "interpreted": cs.interpreted}));
    }
    c.states.fetch_add(cases.len() as u64, Ordering::Relaxed);
    // vacuity guards
    if (prints.load(Ordering::Relaxed) < 1000 || prompt_prints.load(Ordering::Relaxed) < 300 || reports.load(Ordering::Relaxed) < 30) && rep.unknown_count() == 0 {
        eprintln!("MACHINERY: C17 explored too little (prints {}, prompt prints {}, reports {})", prints.load(Ordering::Relaxed), prompt_prints.load(Ordering::Relaxed), reports.load(Ordering::Relaxed));
        return 2;
    }
    let mut cov = Coverage::default();
    cov.exhaustive = true;
    cov.rule = "(thorough adds: every start in the first 41 and last 32 bytes of memory x every length up to 40 in both absolute forms, and every DS-relative length 0..47 from three segments.) every run is the real binary; stdout is parsed back field by field (12 registers as four upper-case hex digits, nine flags as 0/1, memory as two-digit upper-case hex cells in rows of 16) and compared with the reference interpreter's machine state at that point. Register group: 11 rotations of 11 distinct values over the 11 settable registers (each register holds each value once). Flag group: all 512 combinations of the nine flags loaded through POPF (TF combinations are single-stepped with 'n'). Memory group (every second run under DS=0x1000: absolute ranges must not depend on DS): 10 starts x 10 lengths (0,1,2,15,16,17,31,32,33,64) for 'a -> b' and 'a : n' incl. ranges ending at 0xFFFFF, backwards ranges, DS-relative ranges for DS over the segment lattice incl. ranges leaving the space and ranges longer than 64 KiB, each in 5 spellings (decimal, 0x, 0X + upper-case keywords, 0b, upper-case). Prompt group: every command of a 200+ command alphabet (4 radices, spacing and case variants, numbers of 1 to 7 digits written against ':' and '->' without blanks, commands padded beyond 256 and 4096 bytes, reported ranges, constants beyond 2^20 and beyond 2^64) typed alone / repeated / all in one script at an INT 3 prompt, at each single-step prompt of -i mode, and under the trap flag; after every prompt the program prints registers, flags and memory again, so any change caused by printing is visible. Prompt constants exhaustively: the data definitions fill the first 64 KiB with an address-identifying pattern, stops at INT 3, and EVERY address 0..65535 is typed in 4 (thorough 6) spellings (decimal, 0x, 0x with leading zeros, 0b, 0X, zero-padded decimal) in both absolute forms".into();
    cov.bounds = json!({"register_flag_runs": n_regflag, "memory_runs": n_mem, "prompt_runs": n_prompt, "program_prints_checked": prints.load(Ordering::Relaxed), "prompt_prints_checked": prompt_prints.load(Ordering::Relaxed), "range_reports_checked": reports.load(Ordering::Relaxed), "memory_cells_checked": cells.load(Ordering::Relaxed), "tier": tier.name()});
    cov.assumptions = common_assumptions();
    cov.assumptions.push("messages are parsed tolerantly: `XX : 0xHHHH`, `XF : [01]`, rows of two-digit hex cells; a range report is any non-empty line without cells".into());
    cov.assumptions.push("in a program a constant of 2^20 or more, or 'a : n' with a+n beyond the space, is refused at assembly (checked by C14); at run time (DS-relative, backwards, prompt) it must be reported instead of printed".into());
    cov.cli_runs = CLI_RUNS.load(Ordering::Relaxed);
    cov.distinct_nontrivial = cases.len() as u64;
    let cov = finish_cov(c, cov);
    rep.finish(cov)
}
