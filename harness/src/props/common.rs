//! Helpers shared by the per-property checks.

use crate::alu::*;
use crate::ast::*;
use crate::engine::*;
use crate::findings::*;
use crate::mach::*;
use crate::pipe::*;
use crate::refexec::*;
use serde_json::{json, Value};
use std::collections::BTreeSet;
use std::sync::atomic::{AtomicU64, Ordering};
use std::sync::Mutex;

pub struct Tier {
    pub thorough: bool,
}
impl Tier {
    pub fn name(&self) -> &'static str {
        if self.thorough {
            "thorough"
        } else {
            "quick"
        }
    }
}

/// Counters shared by the workers of one check.
#[derive(Default)]
pub struct Counters {
    pub execs: AtomicU64,
    pub states: AtomicU64,
    pub shapes: AtomicU64,
    pub blocked: Mutex<BTreeSet<String>>,
    pub outcomes: Mutex<BTreeSet<String>>,
    pub samples: Mutex<Vec<Value>>,
}

impl Counters {
    pub fn add_exec(&self, n: u64) {
        self.execs.fetch_add(n, Ordering::Relaxed);
    }
    pub fn sample(&self, v: Value) {
        let mut s = self.samples.lock().unwrap();
        if s.len() < 12 {
            s.push(v);
        }
    }
    pub fn block(&self, shape: String) {
        self.blocked.lock().unwrap().insert(shape);
    }
    pub fn outcome(&self, s: &str) {
        let mut o = self.outcomes.lock().unwrap();
        if !o.contains(s) {
            o.insert(s.to_string());
        }
    }
}

/// Build a pre-state for an instruction: pairwise distinct registers, then the operands are given
/// the intended values `a` (destination / first operand) and `b` (source / second operand).
pub fn make_state(i: &Instr, a: u32, b: u32, flags: u16, seed: u16, dc: &DataCtx, bg: u8) -> RefM {
    let mut s = RefM { r: Regs::distinct(seed), m: SMem::new(bg), call_stack: vec![] };
    s.r.flag = flags;
    let ops = i.operands();
    let vals = [a, b];
    // registers first (source first, destination last so that the destination's value wins on aliasing)
    for k in (0..ops.len()).rev() {
        match ops[k] {
            Opnd::R8(r) => s.r.set8(*r, vals[k.min(1)] as u8),
            Opnd::R16(r) => s.r.set16(*r, vals[k.min(1)] as u16),
            Opnd::Seg(x) => s.r.setseg(*x, vals[k.min(1)] as u16),
            _ => {}
        }
    }
    for k in (0..ops.len()).rev() {
        if let Some(addr) = opnd_addr(ops[k], &s.r, dc) {
            match ops[k].width().unwrap() {
                W::B => s.m.set(addr, vals[k.min(1)] as u8),
                W::W => s.m.set16(addr, vals[k.min(1)] as u16),
            }
        }
    }
    s
}

/// All memory operand spellings of syntax.md: 17 address forms x {none, ES, CS, SS, DS}.
pub fn mem_forms(disps: &[i32]) -> Vec<Mem> {
    let mut forms = Vec::new();
    forms.push(MemForm::Direct(0x0123));
    for r in [R_BX, R_BP, R_SI, R_DI] {
        forms.push(MemForm::Reg(r));
    }
    for r in [R_BX, R_BP, R_SI, R_DI] {
        for d in disps {
            forms.push(MemForm::RegDisp(r, *d));
        }
    }
    for b in [R_BX, R_BP] {
        for i in [R_SI, R_DI] {
            forms.push(MemForm::BaseIndex(b, i, None));
            for d in disps {
                forms.push(MemForm::BaseIndex(b, i, Some(*d)));
            }
        }
    }
    let mut out = Vec::new();
    for f in forms {
        out.push(Mem { seg: None, form: f });
        for s in 0..4 {
            out.push(Mem { seg: Some(s), form: f });
        }
    }
    out
}

pub fn finish_cov(c: &Counters, mut cov: Coverage) -> Coverage {
    cov.transitions = c.execs.load(Ordering::Relaxed);
    cov.evaluations = cov.transitions;
    cov.states = c.states.load(Ordering::Relaxed).max(1);
    if cov.distinct_nontrivial == 0 {
        cov.distinct_nontrivial = cov.states;
    }
    let o = c.outcomes.lock().unwrap();
    cov.distinct_outcomes = o.len() as u64;
    cov.samples = c.samples.lock().unwrap().clone();
    let b = c.blocked.lock().unwrap();
    cov.extra.insert("blocked_shapes".into(), json!(b.iter().take(60).cloned().collect::<Vec<_>>()));
    cov.extra.insert("blocked_shapes_count".into(), json!(b.len()));
    cov.extra.insert("shapes".into(), json!(c.shapes.load(Ordering::Relaxed)));
    cov.extra.insert("outcomes".into(), json!(o.iter().take(40).cloned().collect::<Vec<_>>()));
    cov
}

pub fn common_assumptions() -> Vec<String> {
    vec![
        "undefined flags are not compared (AF after logic/shifts; OF after shifts/rotates with count != 1; SF/ZF/PF/AF after MUL/IMUL; all six after DIV/IDIV; OF/SF/ZF/PF after AAA/AAS; OF after DAA/DAS; OF/AF/CF after AAM/AAD)".into(),
        "word operands occupy physical addresses p and (p+1) mod 2^20".into(),
        "reference model = plain 8086 semantics from the 8086 Family User's Manual (vcore::alu, vcore::refexec), validated against this x86-64 CPU by `verif selftest-oracle`".into(),
        "every executed line is obtained from source text through the real Preprocessor and executed by the real Interpreter built from /repo's working tree".into(),
    ]
}

pub fn exec_label(e: &Exec) -> String {
    match e {
        Exec::Ok(St::Jmp(_)) => "JMP".into(),
        Exec::Ok(s) => format!("{:?}", s),
        Exec::Err(_) => "Err".into(),
        Exec::Panic(_) => "PANIC".into(),
    }
}
