//! Helpers shared by the per-property checks.

use crate::alu::*;
use crate::ast::*;
use crate::engine::*;
use crate::findings::*;
use crate::mach::*;
use crate::pipe::*;
use crate::refexec::*;
use rayon::prelude::*;
use serde_json::{json, Value};
use std::collections::BTreeSet;
use std::sync::atomic::{AtomicU64, Ordering};
use std::sync::Mutex;

pub struct Tier {
    pub thorough: bool,
}
impl Tier {
    pub fn name(&self) -> &'static str {
        if self.thorough {
            "thorough"
        } else {
            "quick"
        }
    }
}

/// Counters shared by the workers of one check.
#[derive(Default)]
pub struct Counters {
    pub execs: AtomicU64,
    pub states: AtomicU64,
    pub shapes: AtomicU64,
    pub blocked: Mutex<BTreeSet<String>>,
    pub outcomes: Mutex<BTreeSet<String>>,
    pub samples: Mutex<Vec<Value>>,
    pub flagbits: Mutex<Vec<u64>>,
}

impl Counters {
    pub fn add_exec(&self, n: u64) {
        self.execs.fetch_add(n, Ordering::Relaxed);
    }
    pub fn sample(&self, v: Value) {
        let mut s = self.samples.lock().unwrap();
        if s.len() < 12 {
            s.push(v);
        }
    }
    pub fn block(&self, shape: String) {
        self.blocked.lock().unwrap().insert(shape);
    }
    /// record a post-state flag word (distinct outcomes are counted over (state kind, flag word))
    pub fn merge_flags(&self, local: &[u64]) {
        let mut g = self.flagbits.lock().unwrap();
        if g.is_empty() {
            g.resize(1024, 0);
        }
        for i in 0..1024 {
            g[i] |= local[i];
        }
    }
    pub fn outcome(&self, s: &str) {
        let mut o = self.outcomes.lock().unwrap();
        if !o.contains(s) {
            o.insert(s.to_string());
        }
    }
}

/// Build a pre-state for an instruction: pairwise distinct registers, then the operands are given
/// the intended values `a` (destination / first operand) and `b` (source / second operand).
pub fn make_state(i: &Instr, a: u32, b: u32, flags: u16, seed: u16, dc: &DataCtx, bg: u8) -> RefM {
    let mut s = RefM { r: Regs::distinct(seed), m: SMem::new(bg), call_stack: vec![] };
    s.r.flag = flags;
    let ops = i.operands();
    let vals = [a, b];
    // registers first (source first, destination last so that the destination's value wins on aliasing)
    for k in (0..ops.len()).rev() {
        match ops[k] {
            Opnd::R8(r) => s.r.set8(*r, vals[k.min(1)] as u8),
            Opnd::R16(r) => s.r.set16(*r, vals[k.min(1)] as u16),
            Opnd::Seg(x) => s.r.setseg(*x, vals[k.min(1)] as u16),
            _ => {}
        }
    }
    for k in (0..ops.len()).rev() {
        if let Some(addr) = opnd_addr(ops[k], &s.r, dc) {
            match ops[k].width().unwrap() {
                W::B => s.m.set(addr, vals[k.min(1)] as u8),
                W::W => s.m.set16(addr, vals[k.min(1)] as u16),
            }
        }
    }
    s
}

/// All memory operand spellings of syntax.md: 17 address forms x {none, ES, CS, SS, DS}.
pub fn mem_forms(disps: &[i32]) -> Vec<Mem> {
    let mut forms = Vec::new();
    forms.push(MemForm::Direct(0x0123));
    for r in [R_BX, R_BP, R_SI, R_DI] {
        forms.push(MemForm::Reg(r));
    }
    for r in [R_BX, R_BP, R_SI, R_DI] {
        for d in disps {
            forms.push(MemForm::RegDisp(r, *d));
        }
    }
    for b in [R_BX, R_BP] {
        for i in [R_SI, R_DI] {
            forms.push(MemForm::BaseIndex(b, i, None));
            for d in disps {
                forms.push(MemForm::BaseIndex(b, i, Some(*d)));
            }
        }
    }
    let mut out = Vec::new();
    for f in forms {
        out.push(Mem { seg: None, form: f });
        for s in 0..4 {
            out.push(Mem { seg: Some(s), form: f });
        }
    }
    out
}

pub fn finish_cov(c: &Counters, mut cov: Coverage) -> Coverage {
    cov.transitions = c.execs.load(Ordering::Relaxed);
    cov.evaluations = cov.transitions;
    cov.states = c.states.load(Ordering::Relaxed).max(1);
    if cov.distinct_nontrivial == 0 {
        cov.distinct_nontrivial = cov.states;
    }
    let o = c.outcomes.lock().unwrap();
    let fb: u64 = c.flagbits.lock().unwrap().iter().map(|w| w.count_ones() as u64).sum();
    cov.distinct_outcomes = o.len() as u64 + fb;
    cov.extra.insert("distinct_post_flag_words".into(), json!(fb));
    cov.samples = c.samples.lock().unwrap().clone();
    let b = c.blocked.lock().unwrap();
    cov.extra.insert("blocked_shapes".into(), json!(b.iter().take(60).cloned().collect::<Vec<_>>()));
    cov.extra.insert("blocked_shapes_count".into(), json!(b.len()));
    cov.extra.insert("shapes".into(), json!(c.shapes.load(Ordering::Relaxed)));
    cov.extra.insert("outcomes".into(), json!(o.iter().take(40).cloned().collect::<Vec<_>>()));
    cov
}

pub fn common_assumptions() -> Vec<String> {
    vec![
        "undefined flags are not compared (AF after logic/shifts; OF after shifts/rotates with count != 1; SF/ZF/PF/AF after MUL/IMUL; all six after DIV/IDIV; OF/SF/ZF/PF after AAA/AAS; OF after DAA/DAS; OF/AF/CF after AAM/AAD)".into(),
        "word operands occupy physical addresses p and (p+1) mod 2^20".into(),
        "reference model = plain 8086 semantics from the 8086 Family User's Manual (vcore::alu, vcore::refexec), validated against this x86-64 CPU by `verif selftest-oracle`".into(),
        "every executed line is obtained from source text through the real Preprocessor and executed by the real Interpreter built from /repo's working tree".into(),
    ]
}

pub fn exec_label(e: &Exec) -> String {
    match e {
        Exec::Ok(St::Jmp(_)) => "JMP".into(),
        Exec::Ok(s) => format!("{:?}", s),
        Exec::Err(_) => "Err".into(),
        Exec::Panic(_) => "PANIC".into(),
    }
}

/// Per-worker context: a real VM, the real interpreter, local statistics.
pub struct Worker {
    pub bench: Bench,
    pub m: Machine,
    pub n: u64,
    pub since_audit: u32,
    pub flags: Vec<u64>,
    pub prep_cache: std::collections::HashMap<String, Prepared>,
}

thread_local! {
    static WK: std::cell::RefCell<Worker> = std::cell::RefCell::new(Worker::new());
}

/// run `f` with this thread's worker (real VM + real Interpreter are built once per thread)
pub fn with_worker<R>(f: impl FnOnce(&mut Worker) -> R) -> R {
    WK.with(|w| f(&mut w.borrow_mut()))
}

impl Worker {
    pub fn new() -> Worker {
        Worker { bench: Bench::new(0), m: Machine::new(), n: 0, since_audit: 0, flags: vec![0; 1024], prep_cache: Default::default() }
    }
    /// take a prepared instruction out of this thread's cache (assembling it on first use);
    /// give it back with `put_prepared`
    pub fn take_prepared(&mut self, i: &Instr) -> Result<Prepared, PrepErr> {
        let k = render_instr(i);
        match self.prep_cache.remove(&k) {
            Some(p) => Ok(p),
            None => prepare(i),
        }
    }
    pub fn put_prepared(&mut self, p: Prepared) {
        if self.prep_cache.len() > 4096 {
            self.prep_cache.clear();
        }
        self.prep_cache.insert(render_instr(&p.instr), p);
    }
    /// run one case, report mismatches
    pub fn case(
        &mut self,
        rep: &Reporter,
        c: &Counters,
        p: &mut Prepared,
        pre: &RefM,
        site: &str,
        extra: &[(&str, i64)],
        weight: u64,
        check_mem: bool,
    ) -> Exec {
        let obs = diff_step(&mut self.bench, &self.m, p, pre, check_mem);
        self.n += 1;
        let f = obs.regs.flag as usize;
        self.flags[f >> 6] |= 1u64 << (f & 63);
        if !obs.mismatches.is_empty() {
            report_mismatches(rep, p, pre, &obs, site, extra, weight);
        }
        if !check_mem {
            self.since_audit += 1;
            if self.since_audit >= 4096 {
                self.audit(rep, p, site);
            }
        }
        match &obs.exec {
            Exec::Ok(St::Next) => {}
            e => c.outcome(&exec_label(e)),
        }
        obs.exec
    }
    pub fn audit(&mut self, rep: &Reporter, p: &Prepared, site: &str) {
        self.since_audit = 0;
        if let Some((addr, g)) = self.bench.audit() {
            rep.report(Viol {
                site: site.to_string(),
                field: "mem".into(),
                vars: vec![],
                got_val: Some(g as i64),
                expected: "memory untouched by a register-only instruction".into(),
                got: format!("[0x{:05X}]=0x{:02X} (found by the batch audit)", addr, g),
                case: json!({"src": p.src, "line": p.line}),
                weight: 0,
            });
        }
    }
    /// flush local statistics
    pub fn flush(&mut self, c: &Counters) {
        c.add_exec(self.n);
        c.states.fetch_add(self.n, Ordering::Relaxed);
        self.n = 0;
        c.merge_flags(&self.flags);
        c.outcome("Next");
    }
}

pub fn flag_words(cin: u32) -> Vec<u16> {
    crate::lattice::F4.iter().map(|f| (f & !CF) | cin as u16).collect()
}

/// Value sweep of one register-only instruction: all (a, b) x carry-in x 4 prior flag words.
/// Memory is audited per batch (the instruction has no memory operand).
pub fn sweep_values(rep: &Reporter, c: &Counters, i: &Instr, avals: &[u32], bvals: &[u32], site: &str) {
    let chunks: Vec<&[u32]> = avals.chunks(16.max(avals.len() / 256)).collect();
    let w = i.operands().get(0).and_then(|o| o.width()).map(|w| w.bits()).unwrap_or(0) as i64;
    chunks.par_iter().for_each(|chunk| with_worker(|wk| {
        let mut p = match prepare(i) {
            Ok(p) => p,
            Err(e) => {
                c.block(format!("{} ({:?})", i.shape(), e));
                return;
            }
        };
        for a in chunk.iter() {
            for b in bvals.iter() {
                for cin in 0..2u32 {
                    for f in flag_words(cin) {
                        let pre = make_state(i, *a, *b, f, 0, &p.dc, 0);
                        wk.case(
                            rep,
                            c,
                            &mut p,
                            &pre,
                            site,
                            &[("a", *a as i64), ("b", *b as i64), ("cin", cin as i64), ("w", w)],
                            (*a + *b) as u64,
                            false,
                        );
                    }
                }
            }
        }
        wk.audit(rep, &p, site);
        wk.flush(c);
    }));
    c.shapes.fetch_add(1, Ordering::Relaxed);
    if let Ok(p) = prepare(i) {
        let pre = make_state(i, avals[avals.len() / 2], bvals[bvals.len() / 2], 0xF001, 0, &p.dc, 0);
        c.sample(json!({"instr": render_instr(i), "emitted": p.line, "a_values": avals.len(), "b_values": bvals.len(), "flag_words": 8, "one_pre_state": pre.r.json()}));
    }
}

/// Value sweep over an explicit list of operand pairs (relations between the operands) x carry-in.
pub fn sweep_pairs(rep: &Reporter, c: &Counters, i: &Instr, pairs: &[(u32, u32)], site: &str) {
    let w = i.operands().get(0).and_then(|o| o.width()).map(|w| w.bits()).unwrap_or(0) as i64;
    pairs.par_chunks(8192).for_each(|chunk| with_worker(|wk| {
        let mut p = match prepare(i) {
            Ok(p) => p,
            Err(e) => {
                c.block(format!("{} ({:?})", i.shape(), e));
                return;
            }
        };
        for (k, (a, b)) in chunk.iter().enumerate() {
            for cin in 0..2u32 {
                let f = (if k % 2 == 0 { 0xF000u16 } else { 0x0AD4 }) | cin as u16;
                let pre = make_state(i, *a, *b, f, 0, &p.dc, 0);
                wk.case(rep, c, &mut p, &pre, site, &[("a", *a as i64), ("b", *b as i64), ("cin", cin as i64), ("w", w)], (*a + *b) as u64, false);
            }
        }
        wk.audit(rep, &p, site);
        wk.flush(c);
    }));
}

/// End-to-end conformance of one program: render, run through the real CLI binary with the given
/// stdin, run the reference interpreter on the AST, and match the CLI's stdout against the
/// reference's event list. Returns a violation-like triple (field, expected, got) on mismatch.
pub fn cli_conformance(
    prog: &Program,
    macro_bodies: &std::collections::HashMap<String, Vec<Item>>,
    stdin_lines: &[String],
    interpreted: bool,
    horizon: usize,
) -> (String, crate::refprog::RefRun, crate::cli::CliOut, Option<(String, String, String)>) {
    let src = render(prog);
    let (rr, out, res) = cli_conformance_src(&src, prog, macro_bodies, stdin_lines, interpreted, horizon);
    (src, rr, out, res)
}

/// Same, for a given source text that must be a respelling of `prog` with the same line structure
/// (one item per line): the reference runs on the AST, the binary on the text.
pub fn cli_conformance_src(
    src: &str,
    prog: &Program,
    macro_bodies: &std::collections::HashMap<String, Vec<Item>>,
    stdin_lines: &[String],
    interpreted: bool,
    horizon: usize,
) -> (crate::refprog::RefRun, crate::cli::CliOut, Option<(String, String, String)>) {
    let mut stdin = String::new();
    for l in stdin_lines {
        stdin.push_str(l);
        stdin.push('\n');
    }
    cli_conformance_raw(src, prog, macro_bodies, stdin_lines, &stdin, interpreted, horizon, false, false)
}

/// Most general form: `stdin_lines` is what the reference sees (lines without terminator), `stdin_raw`
/// the bytes written to the binary's stdin before it is closed.
pub fn cli_conformance_raw(
    src: &str,
    prog: &Program,
    macro_bodies: &std::collections::HashMap<String, Vec<Item>>,
    stdin_lines: &[String],
    stdin_raw: &str,
    interpreted: bool,
    horizon: usize,
    dos_0a: bool,
    rep_iter: bool,
) -> (crate::refprog::RefRun, crate::cli::CliOut, Option<(String, String, String)>) {
    use crate::cli::*;
    use crate::refprog as rp;
    let flat = rp::flatten(prog, macro_bodies);
    let rr = rp::run(&flat, &rp::RunOpts { stdin: stdin_lines.to_vec(), interpreted, horizon, dos_0a, rep_prompt_per_iteration: rep_iter });
    let mut o = CliOpts::default();
    o.interpreted = interpreted;
    let out = run_cli(src, stdin_raw, &o);
    if rr.stop == rp::Stop::Horizon {
        // diverging program: not part of the explored space
        return (rr, out, None);
    }
    if let Some(a) = out.abnormal() {
        // replayed once before it is believed
        let again = run_cli(src, stdin_raw, &o);
        let r = if again.abnormal().is_some() {
            Some(("exit".to_string(), "normal termination (exit status 0)".to_string(), format!("{}: {}", a, out.summary())))
        } else {
            Some(("unstable-output".to_string(), "the same outcome on every run of the same source and input".to_string(), format!("first run: {}: {} | the replay ended normally", a, out.summary())))
        };
        return (rr, out, r);
    }
    let res = {
        let mut m = crate::cliobs::Matcher::new(&out.stdout, src);
        match m.match_all(&rr.events) {
            Ok(()) => None,
            Err(e) => Some((e.field, e.expected, format!("event #{} of {:?}; {}", e.event_index, rr.events.len(), e.got))),
        }
    };
    // a mismatch is believed only if the same case shows it again: the case is replayed once, and a replay
    // that behaves differently is reported as what it is (the same source and input, two different outputs)
    if res.is_some() {
        let again = run_cli(src, stdin_raw, &o);
        if again.stdout != out.stdout || again.abnormal().is_some() != out.abnormal().is_some() {
            let r = Some((
                "unstable-output".to_string(),
                "the same output on every run of the same source and input".to_string(),
                format!("two runs differ; first: {} | second: {}", clip_text(&out.out(), 600), clip_text(&again.out(), 600)),
            ));
            return (rr, out, r);
        }
    }
    (rr, out, res)
}

/// report the result of a CLI conformance run as a violation of `site`
pub fn report_cli(rep: &Reporter, site: &str, res: Option<(String, String, String)>, src: &str, stdin_lines: &[String], interpreted: bool, out: &crate::cli::CliOut, extra: Value) {
    if let Some((field, expected, got)) = res {
        let mut stdin = String::new();
        for l in stdin_lines {
            stdin.push_str(l);
            stdin.push('\n');
        }
        rep.report(Viol {
            site: site.to_string(),
            field,
            vars: vec![],
            got_val: None,
            expected: clip_text(&expected, 2000),
            got: clip_text(&got, 2000),
            case: json!({"src": src, "stdin": stdin, "interpreted": interpreted, "stdout": clip_text(&out.out(), 8000), "note": extra}),
            weight: (src.len() + stdin.len()) as u64,
        });
    }
}

pub fn clip_text(s: &str, n: usize) -> String {
    if s.len() <= n {
        s.to_string()
    } else {
        let mut e = n;
        while !s.is_char_boundary(e) {
            e -= 1;
        }
        format!("{}… ({} bytes in all)", &s[..e], s.len())
    }
}
