//! C07 — string instructions and REP: right elements, right number of times.

use super::common::*;
use crate::alu::*;
use crate::ast::*;
use crate::cli::*;
use crate::engine::*;
use crate::findings::*;
use crate::mach::*;
use crate::pipe::*;
use crate::refexec::*;
use rayon::prelude::*;
use serde_json::json;
use std::sync::atomic::Ordering;

fn spellings() -> Vec<(Option<Rep>, StrOp, W)> {
    let mut v = Vec::new();
    for op in [StrOp::Movs, StrOp::Lods, StrOp::Stos] {
        for w in [W::B, W::W] {
            v.push((None, op, w));
            v.push((Some(Rep::Rep), op, w));
        }
    }
    for op in [StrOp::Cmps, StrOp::Scas] {
        for w in [W::B, W::W] {
            v.push((None, op, w));
            for r in [Rep::Repe, Rep::Repz, Rep::Repne, Rep::Repnz] {
                v.push((Some(r), op, w));
            }
        }
    }
    v
}

fn elem_off(ptr: u16, k: u32, w: W, df: bool) -> u16 {
    let d = (k * w.bytes()) as u16;
    if df {
        ptr.wrapping_sub(d)
    } else {
        ptr.wrapping_add(d)
    }
}

fn put(s: &mut RefM, seg: u16, off: u16, w: W, v: u32) {
    let a = phys(seg, off);
    match w {
        W::B => s.m.set(a, v as u8),
        W::W => s.m.set16(a, v as u16),
    }
}

/// per-step protocol check: every REPEAT answer decreases CX by exactly one; the line is re-issued
/// exactly as the driver does; returns the number of parse calls
fn protocol_run(wk: &mut Worker, p: &mut Prepared, pre: &RefM) -> Result<usize, String> {
    wk.bench.load(pre);
    p.ictx.call_stack.clear();
    let horizon = pre.r.cx as usize + 3;
    let mut n = 0;
    let res = loop {
        let before = wk.bench.vm.arch.cx;
        let e = wk.m.exec(p.idx, &mut wk.bench.vm, &mut p.ictx, &p.line);
        n += 1;
        match e {
            Exec::Ok(St::Repeat) => {
                let after = wk.bench.vm.arch.cx;
                if after != before.wrapping_sub(1) {
                    break Err(format!("REPEAT answer changed CX from {} to {} (call {})", before, after, n));
                }
                if after == 0 {
                    // a REPEAT with CX=0 would make the driver execute the body once more
                    // (accepted only if the next call does nothing, which the final-state check decides)
                }
                if n > horizon {
                    break Err(format!("still REPEAT after {} calls (CX started at {})", n, pre.r.cx));
                }
            }
            Exec::Ok(St::Next) => break Ok(n),
            other => break Err(format!("{:?}", other)),
        }
    };
    wk.bench.hard_reset();
    res
}

pub fn run(tier: &Tier) -> i32 {
    let rep_o = Reporter::new("C07", tier.name());
    let c_o = Counters::default();
    let rep = &rep_o;
    let c = &c_o;
    let maxcx: u32 = if tier.thorough { 64 } else { 16 };
    let mut work: Vec<((Option<Rep>, StrOp, W), bool)> = Vec::new();
    for s in spellings() {
        work.push((s, false));
        work.push((s, true));
    }
    // the last pair aliases: DS:x and ES:x+0x100 are the same byte
    // the 6th pair has segment bits that overlap the bits of the pointers used below (seg*16 + off is not seg*16 | off);
    // the 7th puts source and destination in the last paragraph, for overlaps across the end of memory
    let segs: [(u16, u16); 7] = [(0, 0), (0x1000, 0x2000), (0xF000, 0xFFFF), (0xFFFF, 0x0001), (0x0010, 0x0000), (0x0123, 0x0ABC), (0xFFFF, 0xFFFF)];
    work.par_iter().for_each(|((rp, op, w), upper)| {
        with_worker(|wk| {
            let i = Instr::Str(*rp, *op, *w);
            let prog = std_program(&i);
            let src = if *upper { render_upper(&prog) } else { render(&prog) };
            let site = format!("{}{}", i.shape(), if *upper { " (upper case)" } else { "" });
            let mut p = match prepare_src(&i, src) {
                Ok(p) => p,
                Err(e) => {
                    c.block(format!("{}: {:?}", site, e));
                    rep.report(Viol {
                        site: site.clone(),
                        field: "state".into(),
                        vars: vec![],
                        got_val: None,
                        expected: "documented string instruction spelling assembles".into(),
                        got: format!("{:?}", e),
                        case: json!({"instr": render_instr(&i)}),
                        weight: 0,
                    });
                    return;
                }
            };
            let mut cxs: Vec<u32> = if rp.is_some() { (0..=maxcx).collect() } else { vec![0, 1, 5, 0xFFFF] };
            // counts between the dense range and the spot values, with every pointer placement (a "long run"
            // shortcut in the subject would start somewhere above the dense range)
            if rp.is_some() {
                for m in [31u32, 32, 33, 48, 64, 65, 100] {
                    if m > maxcx {
                        cxs.push(m);
                    }
                }
            }
            if rp.is_some() && !*upper {
                cxs.push(0x0100);
                if tier.thorough {
                    cxs.push(0x8000);
                    cxs.push(0xFFFF);
                }
            }
            // (SI, DI): apart, overlapping forward, overlapping backward, crossing 0xFFFF
            let ptrs: Vec<(u16, u16)> = if op.compares() {
                // the last two put a word element across the end of memory with the last-paragraph segment pairs
                vec![(0x0100, 0x2000), (0xFFFA, 0x7FFD), (0x0456, 0x0789), (0x000E, 0x0012), (0x000F, 0x000F), (0x0010, 0x000D)]
            } else {
                // apart; overlapping by every small distance in both directions (a word copied onto itself
                // shifted by one byte reads its high byte after the low byte was stored); identical; crossing 0xFFFF
                vec![
                    (0x0100, 0x2000),
                    (0x0100, 0x0103),
                    (0x0103, 0x0100),
                    (0xFFFA, 0xFFFD),
                    (0x0100, 0x0101),
                    (0x0101, 0x0100),
                    (0x0100, 0x0102),
                    (0x0102, 0x0100),
                    (0x0100, 0x0100),
                    (0xFFFF, 0x0000),
                    // with the aliasing segment pair these are one byte apart physically
                    (0x0000, 0x0101),
                    (0x0001, 0x0100),
                    // with the last-paragraph pair: elements that wrap past the end of memory, one byte apart
                    (0x000E, 0x000F),
                    (0x000F, 0x0010),
                    (0x000F, 0x000E),
                    (0x0456, 0x0789),
                ]
            };
            for df in [false, true] {
                for cx in cxs.iter() {
                    let big = *cx > 110;
                    let medium = *cx > maxcx && !big;
                    for (si_k, (ds, es)) in segs.iter().enumerate() {
                        if big && si_k > 1 {
                            continue;
                        }
                        // medium counts: plain, apart, aliasing and last-paragraph segment pairs
                        if medium && !matches!(si_k, 0 | 1 | 4 | 6) {
                            continue;
                        }
                        for (pi, (si, di)) in ptrs.iter().enumerate() {
                            if big && pi > 0 {
                                continue;
                            }
                            // element count the data is laid out for
                            let n = if rp.is_some() { (*cx).min(110) } else { 1 };
                            let variants: Vec<(i64, bool)> = if op.compares() {
                                // position of the first element that ends the repetition (-1 = none), initial ZF
                                let mut v = Vec::new();
                                for k in -1..(n as i64) {
                                    // long runs: the terminating element first, second, in the middle, last but one, last, none
                                    if n > 20 && !(k <= 1 || k == n as i64 / 2 || k >= n as i64 - 2) {
                                        continue;
                                    }
                                    v.push((k, false));
                                    v.push((k, true));
                                }
                                v
                            } else {
                                vec![(0, false), (1, false), (2, true)]
                            };
                            for (k, zf0) in variants {
                                let mut pre = RefM { r: Regs::distinct(0x21), m: SMem::new(0), call_stack: vec![] };
                                pre.r.flag = 0xF000 | if df { DF } else { 0 } | if zf0 { ZF } else { 0 };
                                pre.r.cx = *cx as u16;
                                pre.r.ds = *ds;
                                pre.r.es = *es;
                                pre.r.ss = 0x5555;
                                pre.r.si = *si;
                                pre.r.di = *di;
                                let acc: u16 = if op.compares() { 0x4142 } else { [0x0000u16, 0x8001, 0xA5C3][k as usize % 3] };
                                pre.r.ax = acc;
                                let accv = if *w == W::B { (acc & 0xFF) as u32 } else { acc as u32 };
                                for e in 0..n {
                                    let so = elem_off(*si, e, *w, df);
                                    let dof = elem_off(*di, e, *w, df);
                                    let pat = (0x11 + 7 * e) & w.mask() | 1;
                                    match op {
                                        StrOp::Movs | StrOp::Lods => put(&mut pre, *ds, so, *w, pat),
                                        StrOp::Stos => {}
                                        StrOp::Cmps => {
                                            // repe: equal everywhere except at k; repne: different everywhere except at k
                                            let want_eq = match rp.and_then(|r| r.want_zf()) {
                                                Some(false) => e as i64 == k,
                                                _ => e as i64 != k,
                                            };
                                            put(&mut pre, *ds, so, *w, pat);
                                            put(&mut pre, *es, dof, *w, if want_eq { pat } else { pat ^ 0x80 ^ (1 << (e % 7)) });
                                        }
                                        StrOp::Scas => {
                                            let want_eq = match rp.and_then(|r| r.want_zf()) {
                                                Some(false) => e as i64 == k,
                                                _ => e as i64 != k,
                                            };
                                            put(&mut pre, *es, dof, *w, if want_eq { accv } else { accv ^ 0x81 });
                                        }
                                    }
                                }
                                let ex = [("count", *cx as i64), ("k", k), ("w", w.bits() as i64)];
                                wk.case(rep, c, &mut p, &pre, &site, &ex, *cx as u64 * 100 + (k + 1) as u64, true);
                                if rp.is_some() && !big {
                                    if let Err(e) = protocol_run(wk, &mut p, &pre) {
                                        let vars = std_vars(&pre, &ex);
                                        let vr: Vec<(&str, i64)> = vars.iter().map(|(a, b)| (a.as_str(), *b)).collect();
                                        if !rep.absorbed_by(&site, "protocol", &vr, None, &e) {
                                            rep.report(Viol {
                                                site: site.clone(),
                                                field: "protocol".into(),
                                                vars,
                                                got_val: None,
                                                expected: "each REPEAT answer decrements CX by one; ends with NEXT within CX+2 calls".into(),
                                                got: e,
                                                case: case_json(&p, &pre),
                                                weight: *cx as u64,
                                            });
                                        }
                                    }
                                }
                            }
                        }
                    }
                }
            }
            c.shapes.fetch_add(1, Ordering::Relaxed);
            wk.flush(c);
            c.sample(json!({"source": p.src, "emitted": p.line, "cx_values": cxs.len()}));
        })
    });

    // CMPS / SCAS set the flags of a subtraction: every pair of byte elements, and word elements in 8
    // fixed relations for every 16-bit x (single step, both directions)
    {
        let wrel = crate::lattice::w16_relations();
        let jobs: Vec<(StrOp, W, bool)> = [StrOp::Cmps, StrOp::Scas].iter().flat_map(|op| [(*op, W::B, false), (*op, W::B, true), (*op, W::W, false), (*op, W::W, true)]).collect();
        jobs.par_iter().for_each(|(op, w, df)| {
            let i = Instr::Str(None, *op, *w);
            let site = i.shape();
            let pairs: Vec<(u32, u32)> = if *w == W::B { (0..65536u32).map(|k| (k >> 8, k & 0xFF)).collect() } else { wrel.clone() };
            pairs.par_chunks(8192).for_each(|chunk| {
                with_worker(|wk| {
                    let mut p = match prepare(&i) {
                        Ok(p) => p,
                        Err(e) => {
                            c.block(format!("{}: {:?}", site, e));
                            return;
                        }
                    };
                    for (a, b) in chunk.iter() {
                        let mut pre = RefM { r: Regs::distinct(0x2B), m: SMem::new(0), call_stack: vec![] };
                        pre.r.flag = 0xF000 | if *df { DF } else { 0 } | ((*a as u16) & 1);
                        pre.r.ds = 0x0100;
                        pre.r.es = 0x0200;
                        pre.r.si = 0x0010;
                        pre.r.di = 0x0020;
                        pre.r.ax = *a as u16;
                        if *op == StrOp::Cmps {
                            put(&mut pre, 0x0100, 0x0010, *w, *a);
                        }
                        put(&mut pre, 0x0200, 0x0020, *w, *b);
                        // (CMPS / SCAS write no memory: audited per batch instead of after every execution)
                        wk.case(rep, c, &mut p, &pre, &site, &[("a", *a as i64), ("b", *b as i64), ("w", w.bits() as i64)], (*a + *b) as u64, false);
                    }
                    wk.audit(rep, &p, &site);
                    wk.flush(c);
                })
            });
        });
    }

    // CLI tier: the driver's REPEAT branch, observed through print mem / print reg
    ensure_bin();
    let data: Vec<DataDef> = [1, 2, 3, 4, 5, 6, 7, 8, 1, 2, 3, 9, 5, 6, 7, 8].iter().map(|v| b::db(None, *v)).collect();
    let dump_mem = vec![b::print(PrintKind::MemRange(0, 31)), b::print(PrintKind::Reg)];
    let dump_regs = vec![b::print(PrintKind::Reg), b::print(PrintKind::Flags)];
    let mut progs: Vec<(String, Program)> = Vec::new();
    let mut add = |name: &str, body: Vec<Item>, dump: &Vec<Item>| {
        let mut code = vec![b::label("start")];
        code.extend(body);
        code.extend(dump.clone());
        progs.push((name.to_string(), Program { data: data.clone(), code }));
    };
    add("rep movs byte", vec![b::mov(b::r16("cx"), b::imm(5)), b::mov(b::r16("si"), b::imm(0)), b::mov(b::r16("di"), b::imm(16)), b::strop(Some(Rep::Rep), StrOp::Movs, W::B)], &dump_mem);
    add("rep movs word df", vec![b::z(ZeroOp::Std), b::mov(b::r16("cx"), b::imm(3)), b::mov(b::r16("si"), b::imm(4)), b::mov(b::r16("di"), b::imm(20)), b::strop(Some(Rep::Rep), StrOp::Movs, W::W)], &dump_mem);
    add("rep stos word", vec![b::mov(b::r16("ax"), b::imm(0x4142)), b::mov(b::r16("cx"), b::imm(4)), b::mov(b::r16("di"), b::imm(8)), b::strop(Some(Rep::Rep), StrOp::Stos, W::W)], &dump_mem);
    add("rep movs cx0", vec![b::mov(b::r16("cx"), b::imm(0)), b::mov(b::r16("di"), b::imm(16)), b::strop(Some(Rep::Rep), StrOp::Movs, W::B)], &dump_mem);
    add("repe cmps", vec![b::mov(b::r16("cx"), b::imm(6)), b::mov(b::r16("si"), b::imm(0)), b::mov(b::r16("di"), b::imm(8)), b::strop(Some(Rep::Repe), StrOp::Cmps, W::B)], &dump_regs);
    add("repne scas", vec![b::mov(b::r8("al"), b::imm(5)), b::mov(b::r16("cx"), b::imm(8)), b::mov(b::r16("di"), b::imm(0)), b::strop(Some(Rep::Repne), StrOp::Scas, W::B)], &dump_regs);
    add("rep lods", vec![b::mov(b::r16("cx"), b::imm(3)), b::mov(b::r16("si"), b::imm(1)), b::strop(Some(Rep::Rep), StrOp::Lods, W::B)], &dump_regs);
    add("rep stos es", vec![b::mov(b::r16("ax"), b::imm(0x10)), b::mov(b::sr("es"), b::r16("ax")), b::mov(b::r16("ax"), b::imm(0x7A7B)), b::mov(b::r16("cx"), b::imm(2)), b::mov(b::r16("di"), b::imm(0)), b::strop(Some(Rep::Rep), StrOp::Stos, W::W), b::print(PrintKind::MemRange(0x100, 0x10F))], &dump_mem);
    add("repz scas word cx big", vec![b::mov(b::r16("cx"), b::imm(300)), b::mov(b::r16("di"), b::imm(64)), b::strop(Some(Rep::Repz), StrOp::Scas, W::W)], &dump_regs);
    drop(add);
    let none = std::collections::HashMap::new();
    progs.par_iter().for_each(|(name, prog)| {
        let (src, rr, out, res) = cli_conformance(prog, &none, &[], false, 100000);
        c.add_exec(1);
        if let Some((field, expected, got)) = res {
            rep.report(Viol {
                site: format!("cli {}", name),
                field,
                vars: vec![],
                got_val: None,
                expected,
                got,
                case: json!({"src": src, "stdin": "", "stdout": out.out()}),
                weight: 0,
            });
        }
        c.sample(json!({"cli_source": src, "reference_events": rr.events.len()}));
    });

    // histories
    let seq_depth = if tier.thorough { 4 } else { 3 };
    let seq = {
        let focus = vec![
            Instr::Str(None, StrOp::Movs, W::B),
            Instr::Str(Some(Rep::Rep), StrOp::Movs, W::W),
            Instr::Str(None, StrOp::Stos, W::W),
            Instr::Str(Some(Rep::Rep), StrOp::Stos, W::B),
            Instr::Str(None, StrOp::Lods, W::B),
            Instr::Str(Some(Rep::Rep), StrOp::Lods, W::W),
            Instr::Str(None, StrOp::Cmps, W::B),
            Instr::Str(Some(Rep::Repe), StrOp::Cmps, W::W),
            Instr::Str(Some(Rep::Repne), StrOp::Scas, W::B),
            Instr::Str(None, StrOp::Scas, W::W),
        ];
        crate::seqx::explore_sequences(rep, c, &focus, &crate::seqx::context_alphabet(), seq_depth, &crate::seqx::default_inits())
    };
    let mut cov = Coverage::default();
    cov.exhaustive = true;
    cov.rule = format!("all 32 string/REP spellings of syntax.md x both cases, assembled by the real Preprocessor; the emitted line is re-issued to the real Interpreter exactly as the driver does until it stops answering REPEAT; for every CX in 0..={} (plus 31, 32, 33, 48, 64, 65, 100 with every pointer placement, and spot values up to 0xFFFF), DF in {{0,1}}, 7 (DS,ES) pairs incl. wrap at 1 MB, aliasing segments, segments whose bits overlap the pointer bits, both in the last paragraph, 4-16 (SI,DI) placements incl. overlap by 0,1,2,3 bytes in both directions and crossing 0xFFFF, and for CMPS/SCAS every position of the first terminating element (and none) x initial ZF; final state (registers, flags, whole memory) compared with the whole-instruction reference; CMPS/SCAS single steps for every pair of byte elements and for word elements in 8 fixed relations for every 16-bit x; and every REPEAT answer must decrement CX by exactly one; 8 programs through the CLI binary Histories: every sequence of up to 3 (thorough 4) instructions over the property's instructions plus a 22-instruction context alphabet (register, memory, stack and flag traffic, data-label operands, DS/ES loaded by pop and by mov), with at least one of the property's instructions, as ONE program on ONE machine and ONE Interpreter object from 3 initial states, compared with the reference after every step (whole memory on every 16th run)", maxcx);
    cov.bounds = json!({"max_cx_exhaustive": maxcx, "segment_pairs": 7, "sequence_depth": seq_depth, "sequences": seq.sequences, "sequence_steps": seq.steps, "sequence_whole_memory_audits": seq.audits, "tier": tier.name()});
    cov.assumptions = common_assumptions();
    cov.cli_runs = CLI_RUNS.load(Ordering::Relaxed);
    let cov = finish_cov(c, cov);
    rep.finish(cov)
}
