//! C09 — executing any instruction in any machine state is total and stays inside 1 MB.

use super::common::*;
use crate::alu::*;
use crate::ast::*;
use crate::catalog::*;
use crate::cli::*;
use crate::engine::*;
use crate::findings::*;
use crate::mach::*;
use crate::pipe::*;
use rayon::prelude::*;
use serde_json::json;
use std::sync::atomic::{AtomicU64, Ordering};

const OFFS: [u16; 7] = [0, 1, 0x000F, 0x7FFF, 0x8000, 0xFFFE, 0xFFFF];
const SEGV: [u16; 6] = [0, 1, 0x0FFF, 0x1000, 0xF000, 0xFFFF];
const VALS: [u16; 7] = [0, 1, 0x00FF, 0x7FFF, 0x8000, 0xFFFE, 0xFFFF];

/// registers whose value the instruction reads: (general registers, segment registers)
fn read_set(i: &Instr) -> (Vec<&'static str>, Vec<&'static str>) {
    let mut g: Vec<&'static str> = Vec::new();
    let mut s: Vec<&'static str> = Vec::new();
    let mut add = |v: &mut Vec<&'static str>, n: &'static str| {
        if !v.contains(&n) {
            v.push(n)
        }
    };
    for o in i.operands() {
        match o {
            Opnd::R8(r) => add(&mut g, ["ax", "cx", "dx", "bx"][r & 3]),
            Opnd::R16(r) => add(&mut g, REG16[*r]),
            Opnd::Seg(x) => add(&mut s, SEGS[*x]),
            Opnd::Mem(_, m) => {
                for r in m.regs() {
                    add(&mut g, REG16[r]);
                }
                match m.seg {
                    Some(x) => add(&mut s, SEGS[x]),
                    None => add(&mut s, if m.base_is_bp() { "ss" } else { "ds" }),
                }
            }
            Opnd::Label(..) => add(&mut s, "ds"),
            _ => {}
        }
    }
    match i {
        Instr::MulDiv(..) => {
            add(&mut g, "ax");
            add(&mut g, "dx");
        }
        Instr::Shift(_, _, Count::Cl) => add(&mut g, "cx"),
        Instr::Push(_) | Instr::Pop(_) | Instr::Zero(ZeroOp::Pushf) | Instr::Zero(ZeroOp::Popf) => {
            add(&mut g, "sp");
            add(&mut s, "ss");
        }
        Instr::Zero(ZeroOp::Xlat) => {
            add(&mut g, "bx");
            add(&mut g, "ax");
            add(&mut s, "ds");
        }
        Instr::Adj(_) | Instr::Zero(ZeroOp::Lahf) | Instr::Zero(ZeroOp::Sahf) => add(&mut g, "ax"),
        Instr::Str(rep, op, _) => {
            if rep.is_some() {
                add(&mut g, "cx");
            }
            match op {
                StrOp::Movs | StrOp::Cmps => {
                    add(&mut g, "si");
                    add(&mut g, "di");
                    add(&mut s, "ds");
                    add(&mut s, "es");
                }
                StrOp::Lods => {
                    add(&mut g, "si");
                    add(&mut s, "ds");
                }
                StrOp::Stos | StrOp::Scas => {
                    add(&mut g, "di");
                    add(&mut s, "es");
                    add(&mut g, "ax");
                }
            }
        }
        Instr::Jmp(m, _) => {
            if m.starts_with("loop") || m == "jcxz" {
                add(&mut g, "cx");
            }
        }
        _ => {}
    }
    (g, s)
}

fn is_addr_reg(i: &Instr, name: &str) -> bool {
    for o in i.operands() {
        if let Opnd::Mem(_, m) = o {
            for r in m.regs() {
                if REG16[r] == name {
                    return true;
                }
            }
        }
    }
    matches!(name, "sp" | "si" | "di") || (name == "bx" && *i == Instr::Zero(ZeroOp::Xlat))
}

pub fn run(tier: &Tier) -> i32 {
    let rep_o = Reporter::new("C09", tier.name());
    let c_o = Counters::default();
    let rep = &rep_o;
    let c = &c_o;
    let cat = catalog(&CatOpts { disps: if tier.thorough { vec![2, -1, 0x7FFF, -0x8000] } else { vec![-1] }, all_regs: tier.thorough });
    let errs = AtomicU64::new(0);
    let cap: usize = if tier.thorough { 30_000 } else { 700 };
    cat.par_iter().for_each(|i| {
        with_worker(|wk| {
            let site = i.shape();
            let mut p = match prepare(i) {
                Ok(p) => p,
                Err(e) => {
                    c.block(format!("{}: {:?}", site, e));
                    return;
                }
            };
            let (g, s) = read_set(i);
            // value lists per register
            let mut dims: Vec<(&'static str, Vec<u16>)> = Vec::new();
            for n in g.iter() {
                dims.push((n, if is_addr_reg(i, n) { OFFS.to_vec() } else { VALS.to_vec() }));
            }
            for n in s.iter() {
                dims.push((n, SEGV.to_vec()));
            }
            // shrink lattices until the product fits the cap
            let mut total: usize = dims.iter().map(|d| d.1.len()).product();
            let mut shrink = 0;
            while total > cap && shrink < 6 {
                for d in dims.iter_mut() {
                    if d.1.len() > 2 {
                        // keep the extremes
                        let l = d.1.len();
                        d.1.remove(l / 2);
                    }
                }
                total = dims.iter().map(|d| d.1.len()).product();
                shrink += 1;
            }
            let flagws: [u16; 3] = [0xF000, 0xFFFF & !TF, 0x0401];
            let is_rep = matches!(i, Instr::Str(Some(_), ..));
            for bg in [0u8, 0xFF] {
                if wk.bench.bg != bg {
                    wk.bench.set_bg(bg);
                }
                let mut idx = vec![0usize; dims.len()];
                let mut n = 0usize;
                loop {
                    let mut pre = RefM { r: Regs::distinct(0x41), m: SMem::new(bg), call_stack: vec![7] };
                    pre.r.flag = flagws[n % 3];
                    for (k, d) in dims.iter().enumerate() {
                        pre.r.set(d.0, d.1[idx[k]]);
                    }
                    // REP with a huge count is run for a few states only (65535 iterations each)
                    if is_rep && pre.r.cx > 0x100 && n % 97 != 0 {
                        pre.r.cx &= 0x1F;
                    }
                    wk.bench.load(&pre);
                    p.ictx.call_stack.clear();
                    p.ictx.call_stack.push(7);
                    let horizon = pre.r.cx as usize + 3;
                    let (e, _) = wk.m.exec_repeat(p.idx, &mut wk.bench.vm, &mut p.ictx, &p.line, horizon);
                    wk.n += 1;
                    let bad = match &e {
                        Exec::Panic(m) => Some(("panic", format!("PANIC: {}", m))),
                        Exec::Ok(St::Repeat) => Some(("livelock", format!("still REPEAT after {} calls", horizon))),
                        Exec::Err(m) => {
                            errs.fetch_add(1, Ordering::Relaxed);
                            let _ = m;
                            None
                        }
                        Exec::Ok(_) => None,
                    };
                    c.outcome(&exec_label(&e));
                    if let Some((field, got)) = bad {
                        let vars = std_vars(&pre, &[]);
                        let vr: Vec<(&str, i64)> = vars.iter().map(|(a, b)| (a.as_str(), *b)).collect();
                        if !rep.absorbed_by(&site, field, &vr, None, &got) {
                            rep.report(Viol {
                                site: site.clone(),
                                field: field.into(),
                                vars,
                                got_val: None,
                                expected: "one of the defined outcomes (next, jump, repeat, print, interrupt, halt, reported error)".into(),
                                got,
                                case: case_json(&p, &pre),
                                weight: n as u64,
                            });
                        }
                        wk.bench.hard_reset();
                    } else {
                        // cheap reset: restore the cells the reference says were written; a periodic
                        // whole-memory audit removes anything else (stray writes are other properties' business)
                        let rs = crate::refexec::step(&p.instr, &pre, &p.dc, p.idx);
                        wk.bench.restore_cells(&rs.post.m);
                        wk.since_audit += 1;
                        if wk.since_audit >= 1024 {
                            wk.since_audit = 0;
                            if wk.bench.scan_non_bg().is_some() {
                                wk.bench.hard_reset();
                            }
                        }
                    }
                    n += 1;
                    // next index vector
                    let mut k = 0;
                    loop {
                        if k == dims.len() {
                            break;
                        }
                        idx[k] += 1;
                        if idx[k] < dims[k].1.len() {
                            break;
                        }
                        idx[k] = 0;
                        k += 1;
                    }
                    if k == dims.len() {
                        break;
                    }
                }
            }
            if wk.bench.bg != 0 {
                wk.bench.set_bg(0);
            } else if wk.bench.scan_non_bg().is_some() {
                wk.bench.hard_reset();
            }
            c.shapes.fetch_add(1, Ordering::Relaxed);
            wk.flush(c);
            if p.idx % 50 == 0 {
                c.sample(json!({"source_line": render_instr(&p.instr), "emitted": p.line, "registers_varied": dims.iter().map(|d| format!("{}x{}", d.0, d.1.len())).collect::<Vec<_>>()}));
            }
        })
    });

    // shift/rotate immediates: every count for the register forms
    let counts: Vec<u32> = (0..256).collect();
    counts.par_iter().for_each(|cnt| {
        with_worker(|wk| {
            for op in ShOp::ALL {
                for d in [Opnd::R8(0), Opnd::R16(R_BX), Opnd::Label(W::B, "bv".into()), Opnd::Mem(W::W, Mem { seg: Some(SEG_ES), form: MemForm::BaseIndex(R_BP, R_DI, Some(-1)) })] {
                    let i = Instr::Shift(op, d, Count::Imm(*cnt as u8));
                    let mut p = match prepare(&i) {
                        Ok(p) => p,
                        Err(_) => continue,
                    };
                    for v in VALS {
                        for es in [0u16, 0xFFFF] {
                            let mut pre = make_state(&i, v as u32, 0, 0xF001, 3, &p.dc, 0);
                            pre.r.es = es;
                            pre.r.bp = 0xFFFF;
                            pre.r.di = 0x0010;
                            wk.bench.load(&pre);
                            let e = wk.m.exec(p.idx, &mut wk.bench.vm, &mut p.ictx, &p.line);
                            wk.n += 1;
                            if let Exec::Panic(m) = &e {
                                rep.report(Viol {
                                    site: i.shape(),
                                    field: "panic".into(),
                                    vars: std_vars(&pre, &[("count", *cnt as i64)]),
                                    got_val: None,
                                    expected: "no count makes the emulator fail".into(),
                                    got: format!("PANIC: {}", m),
                                    case: case_json(&p, &pre),
                                    weight: *cnt as u64,
                                });
                            }
                            wk.bench.hard_reset();
                        }
                    }
                }
            }
            wk.flush(c);
        })
    });

    // CLI tier: the interrupt services near the top of memory must not abort the emulator
    ensure_bin();
    let mut cli_cases: Vec<(String, Program, String)> = Vec::new();
    let setreg = |r: &str, v: i32| b::mov(b::r16(r), b::imm(v));
    for (name, int, ah) in [("int10 0a", 0x10u8, 0x0Au8), ("int10 13", 0x10, 0x13), ("int21 01", 0x21, 0x01), ("int21 02", 0x21, 0x02), ("int21 0a", 0x21, 0x0A)] {
        for (seg, off) in [(0xFFFFu16, 0xFFFFu16), (0xFFFF, 0x000F), (0xF000, 0xFFFE), (0, 0)] {
            for cx in [0u16, 5, 0xFFFF] {
                for stdin in ["", "ab\n", "abcdefghijklmnopqrstuvwxyz0123456789\n"] {
                    if cx == 0xFFFF && !(seg == 0xFFFF && off == 0xFFFF) {
                        continue;
                    }
                    let code = vec![
                        b::label("start"),
                        setreg("ax", seg as i32),
                        b::mov(b::sr("es"), b::r16("ax")),
                        b::mov(b::sr("ds"), b::r16("ax")),
                        setreg("bp", off as i32),
                        setreg("dx", off as i32),
                        b::mov(Opnd::Mem(W::B, Mem { seg: None, form: MemForm::Reg(R_BP) }), b::imm(40)),
                        setreg("cx", cx as i32),
                        setreg("ax", ((ah as i32) << 8) | 0x41),
                        b::int(int),
                        b::print(PrintKind::Flags),
                    ];
                    cli_cases.push((format!("{} seg={:04X} off={:04X} cx={} stdin={}", name, seg, off, cx, stdin.len()), Program { data: vec![], code }, stdin.to_string()));
                }
            }
        }
    }
    cli_cases.par_iter().for_each(|(name, prog, stdin)| {
        let src = render(prog);
        let o = run_cli(&src, stdin, &CliOpts { cap: 4 << 20, ..Default::default() });
        c.add_exec(1);
        c.states.fetch_add(1, Ordering::Relaxed);
        if let Some(a) = o.abnormal() {
            let site = format!("cli {}", name.split(" seg=").next().unwrap());
            let got = format!("{}: {}", a, o.summary());
            let seg = i64::from_str_radix(&name.split("seg=").nth(1).unwrap()[..4], 16).unwrap();
            let off = i64::from_str_radix(&name.split("off=").nth(1).unwrap()[..4], 16).unwrap();
            let vars = vec![("seg".to_string(), seg), ("off".to_string(), off), ("stdin_len".to_string(), stdin.len() as i64)];
            let vr: Vec<(&str, i64)> = vars.iter().map(|(a, b)| (a.as_str(), *b)).collect();
            if !rep.absorbed_by(&site, "abort", &vr, None, &got) {
                rep.report(Viol {
                    site,
                    field: "abort".into(),
                    vars,
                    got_val: None,
                    expected: "the service wraps modulo 2^20 / stays in bounds; normal termination".into(),
                    got,
                    case: json!({"src": src, "stdin": stdin}),
                    weight: 0,
                });
            }
        }
    });

    let mut cov = Coverage::default();
    cov.exhaustive = true;
    cov.rule = "every shape of the syntax.md catalog (each assembled by the real Preprocessor) x the product, over the registers that shape reads, of adversarial values (offsets {0,1,0xF,0x7FFF,0x8000,0xFFFE,0xFFFF}, values incl. 0/0xFF/0x8000/0xFFFF, segments {0,1,0x0FFF,0x1000,0xF000,0xFFFF} so that seg*16+off straddles 2^20; lattices thinned to the stated cap per shape) x 3 flag words x memory backgrounds 0x00 and 0xFF, with integer-overflow checks compiled in; REP lines re-issued to completion; all 256 immediate counts for shift/rotate forms; outcome must be a defined state or a reported error, a caught panic or a non-terminating REPEAT is the violation. CLI: the five interrupt services with ES:BP / DS:DX / CX at the top of the address space x stdin shapes must end normally".into();
    cov.bounds = json!({"catalog_shapes": cat.len(), "state_cap_per_shape_and_background": cap, "cli_cases": cli_cases.len(), "tier": tier.name(), "reported_errors": errs.load(Ordering::Relaxed)});
    cov.assumptions = common_assumptions();
    cov.cli_runs = CLI_RUNS.load(Ordering::Relaxed);
    let cov = finish_cov(c, cov);
    rep.finish(cov)
}
