//! C11 — the assembler's output means what the source says, independent of spelling.

use super::common::*;
use crate::alu::*;
use crate::ast::*;
use crate::catalog::*;
use crate::cli::*;
use crate::engine::*;
use crate::findings::*;
use crate::mach::*;
use crate::pipe::*;
use rayon::prelude::*;
use serde_json::json;
use std::sync::atomic::{AtomicU64, Ordering};

/// program text for an instruction from its token list (same frame as engine::std_program)
fn frame(tokens_line: &str, data_extra: &str) -> String {
    format!("db [3]\nbv: db 0\ndb [2]\nwv: dw 0\n{}def fn1 {{\nstc\n}}\nstart:\ntgt:\n{}\n", data_extra, tokens_line)
}

#[derive(Clone, Debug)]
struct Deviation {
    what: String,
    line: String,
    data_extra: String,
}

/// all single-token / single-gap spelling deviations of a token list
fn deviations(toks: &[Tok]) -> Vec<Deviation> {
    let mut out = Vec::new();
    let join_with = |toks: &[Tok], gap_at: Option<(usize, &str)>| -> String {
        let mut s = String::new();
        for (i, t) in toks.iter().enumerate() {
            if i > 0 {
                match gap_at {
                    Some((g, sep)) if g == i => s.push_str(sep),
                    _ => {
                        if t.space_before {
                            s.push(' ')
                        }
                    }
                }
            }
            s.push_str(&t.text);
        }
        s
    };
    for (i, t) in toks.iter().enumerate() {
        match t.kind {
            TokKind::Kw => {
                let mut v = toks.to_vec();
                v[i].text = t.text.to_ascii_uppercase();
                out.push(Deviation { what: format!("upper-case token {}", i), line: join_with(&v, None), data_extra: String::new() });
            }
            TokKind::Num(val, class) => {
                for r in [Radix::Hex, Radix::HexUp, Radix::Bin, Radix::NegDec] {
                    if let Some(txt) = render_num(val, class, r) {
                        if txt == t.text {
                            continue;
                        }
                        let mut v = toks.to_vec();
                        v[i].text = txt;
                        out.push(Deviation { what: format!("{:?} constant at token {}", r, i), line: join_with(&v, None), data_extra: String::new() });
                    }
                }
                // leading zeros
                if val >= 0 {
                    let mut v = toks.to_vec();
                    v[i].text = format!("00{}", val);
                    out.push(Deviation { what: format!("leading zeros at token {}", i), line: join_with(&v, None), data_extra: String::new() });
                }
                // OFFSET of a label with that offset (label placed after the standard data: offset >= 8)
                if val >= 8 && val <= 0xFFFF {
                    let mut v = toks.to_vec();
                    v[i].text = "offset ofs".to_string();
                    out.push(Deviation {
                        what: format!("OFFSET constant at token {}", i),
                        line: join_with(&v, None),
                        data_extra: format!("db [{}]\nofs: db 0\n", val - 8),
                    });
                }
            }
            _ => {}
        }
        if i > 0 {
            for (name, sep) in [("tab", "\t"), ("newline", "\n"), ("spaces", "   "), ("blank lines", "\n\n \n"), ("crlf", "\r\n")] {
                // a gap that needs no space may also take one
                out.push(Deviation { what: format!("{} before token {}", name, i), line: join_with(toks, Some((i, sep))), data_extra: String::new() });
            }
            if !t.space_before {
                out.push(Deviation { what: format!("space before token {}", i), line: join_with(toks, Some((i, " "))), data_extra: String::new() });
            }
        }
    }
    out
}

fn code_after_frame(asm: &Asm) -> Vec<String> {
    // frame emits: stc, ret (procedure), then the instruction lines
    asm.code.iter().skip(2).cloned().collect()
}

/// Every constant of a class, in every radix: the emitted instruction must be the one the decimal
/// spelling gives, and that instruction must carry exactly that number (executed on the real
/// Interpreter). Classes: word immediate, byte immediate, direct address, displacement.
fn sweep_constants(rep: &Reporter, c: &Counters) -> (u64, u64) {
    let spelled = AtomicU64::new(0);
    let executed = AtomicU64::new(0);
    // (template with {} for the constant, values, class: 0 = word immediate, 1 = byte immediate, 2 = direct byte address, 3 = displacement)
    let classes: Vec<(&str, u32, u8)> = vec![("mov ax, {}", 65536, 0), ("mov bl, {}", 256, 1), ("mov al, byte [{}]", 65536, 2), ("mov al, byte [bx, {}]", 65536, 3), ("add word [{}], 1", 65536, 2), ("cmp cx, {}", 65536, 0)];
    for (tmpl, n, class) in classes.iter() {
        let chunks: Vec<u32> = (0..*n).step_by(512).collect();
        chunks.par_iter().for_each(|lo| {
            with_worker(|wk| {
                let m = crate::pipe::Machine::new();
                for v in *lo..(*lo + 512).min(*n) {
                    let bits = if *class == 1 { 8 } else { 16 };
                    let canon_src = format!("start:\n{}\n", tmpl.replace("{}", &v.to_string()));
                    let canon = match assemble(&canon_src) {
                        Ok(a) => a,
                        Err(e) => {
                            rep.report(Viol { site: format!("constant / {}", tmpl), field: "respelling-rejected".into(), vars: vec![("v".into(), v as i64)], got_val: None, expected: "a constant inside its range is accepted".into(), got: format!("{:?}", e), case: json!({"src": canon_src}), weight: v as u64 });
                            continue;
                        }
                    };
                    let mut variants: Vec<String> = vec![format!("0x{:x}", v), format!("0X{:X}", v), format!("0b{:b}", v), format!("{:05}", v)];
                    // the negative decimal with the same bit pattern, where the class is signed
                    if *class != 2 && v >= (1 << (bits - 1)) {
                        variants.push(format!("{}", v as i64 - (1i64 << bits)));
                    }
                    for sp in variants.iter() {
                        let src = format!("start:\n{}\n", tmpl.replace("{}", sp));
                        spelled.fetch_add(1, Ordering::Relaxed);
                        match assemble(&src) {
                            Ok(a) => {
                                // a negative spelling may be emitted as the negative number: both are the same constant
                                // if the interpreter gives the same effect, checked below through execution
                                if a.code != canon.code && !sp.starts_with('-') {
                                    rep.report(Viol { site: format!("constant / {}", tmpl), field: "respelling-output".into(), vars: vec![("v".into(), v as i64)], got_val: None, expected: format!("identical output {:?}", canon.code), got: format!("{}: {:?}", sp, a.code), case: json!({"src": src, "canonical_src": canon_src}), weight: v as u64 });
                                }
                                if sp.starts_with('-') {
                                    // execute the negative spelling too
                                    exec_const(rep, c, wk, &m, &a, tmpl, *class, v, &src, &executed);
                                }
                            }
                            Err(e) => {
                                let field = if sp.len() == 5 && sp.starts_with('0') { "respelling-rejected-leading-zeros" } else { "respelling-rejected" };
                                let got = format!("{}: {:?}", sp, e);
                                if !rep.absorbed_by(&format!("constant / {}", tmpl), field, &[("v", v as i64)], None, &got) {
                                    rep.report(Viol { site: format!("constant / {}", tmpl), field: field.into(), vars: vec![("v".into(), v as i64)], got_val: None, expected: "every radix spelling of an in-range constant is accepted".into(), got, case: json!({"src": src}), weight: v as u64 });
                                }
                            }
                        }
                    }
                    exec_const(rep, c, wk, &m, &canon, tmpl, *class, v, &canon_src, &executed);
                }
                wk.bench.hard_reset();
            })
        });
    }
    (spelled.load(Ordering::Relaxed), executed.load(Ordering::Relaxed))
}

/// "offset label can be used in place of a number" (syntax.md): for every position that takes a constant, and
/// every label offset of the constant's class, the program written with `offset l` must assemble to exactly
/// what the program written with the decimal number gives (code, print statements and data). Two layouts:
/// the label in the default segment, and in a segment opened by a non-zero `set` (the offset is counted from
/// the start of that segment either way).
fn sweep_offsets(rep: &Reporter, c: &Counters, thorough: bool) -> u64 {
    let compared = AtomicU64::new(0);
    let accepted: Vec<AtomicU64> = (0..64).map(|_| AtomicU64::new(0)).collect();
    // (template, class: 8 = byte constant, 16 = word constant); `{}` is the constant, `{x}` a label defined after it
    let templates: Vec<(&str, u32)> = vec![
        ("start:\nmov bl, {}\n", 8),
        ("start:\nadd al, {}\n", 8),
        ("start:\nadc byte [bx], {}\n", 8),
        ("start:\nsub dh, {}\n", 8),
        ("start:\nsbb byte [0x10], {}\n", 8),
        ("start:\ncmp cl, {}\n", 8),
        ("start:\ncmp byte es [si, 2], {}\n", 8),
        ("start:\nmov byte [di], {}\n", 8),
        ("start:\nand cl, {}\n", 8),
        ("start:\nor byte [si], {}\n", 8),
        ("start:\nxor al, {}\n", 8),
        ("start:\ntest bl, {}\n", 8),
        ("start:\nshl ax, {}\n", 8),
        ("start:\nrcr byte [bx], {}\n", 8),
        ("vx: db {}\nstart:\nmov al, byte vx\n", 8),
        ("vx: db [{}, 2]\nstart:\nmov al, byte vx\n", 8),
        ("vx: db [7, {}]\nstart:\nmov al, byte vx\n", 8),
        ("vx: db 1\nstart:\nadd byte vx, {}\n", 8),
        ("vx: db 1\nstart:\nand byte vx, {}\n", 8),
        ("start:\nmov ax, {}\n", 16),
        ("start:\nadd bx, {}\n", 16),
        ("start:\ncmp word [bx], {}\n", 16),
        ("start:\nand dx, {}\n", 16),
        ("start:\nmov word [bp, si], {}\n", 16),
        ("vx: dw {}\nstart:\nmov ax, word vx\n", 16),
        ("vx: dw [{}, 2]\nstart:\nmov ax, word vx\n", 16),
        ("start:\nmov al, byte [{}]\n", 16),
        ("start:\nmov ax, word [bx, {}]\n", 16),
        ("start:\nmov ax, word [bp, di, {}]\n", 16),
        ("start:\nprint mem {} : 3\n", 16),
        ("start:\nprint mem 0 -> {}\n", 16),
        ("start:\nprint mem {} -> 70000\n", 16),
        ("start:\nprint mem 5 : {}\n", 16),
        ("start:\nprint mem : {}\n", 16),
        ("start:\nprint mem {} : {}\n", 16),
    ];
    let byte_offsets: Vec<u32> = (0..256).collect();
    let mut word_offsets: Vec<u32> = (0..=300).collect();
    word_offsets.extend([511, 512, 513, 1000, 4095, 4096, 4097, 12345, 32766, 32767, 32768, 32769, 40000, 65533, 65534]);
    if thorough {
        word_offsets.extend((301..65534).step_by(97));
    }
    let layouts: [(&str, &str); 3] = [("", "label in the default segment"), ("set 0x20\n", "label in a segment opened by set 0x20"), ("set 0x20\ndb 1\nset 0x1234\n", "label after two sets")];
    let work: Vec<(usize, u32, usize)> = templates
        .iter()
        .enumerate()
        .flat_map(|(ti, (_, class))| {
            let offs = if *class == 8 { byte_offsets.clone() } else { word_offsets.clone() };
            offs.into_iter().flat_map(move |o| (0..3usize).map(move |l| (ti, o, l)))
        })
        .collect();
    work.par_iter().for_each(|(ti, o, l)| {
        let (tmpl, _) = templates[*ti];
        let (lay, lname) = layouts[*l];
        // `ofs` gets offset o: o filler bytes first (in at most two definitions, a count of 0 is left out)
        let filler = if *o == 0 { String::new() } else { format!("db [{}]\n", o) };
        let head = format!("{}{}ofs: db 0\n", lay, filler);
        let with_offset = format!("{}{}", head, tmpl.replace("{}", "offset ofs"));
        let with_number = format!("{}{}", head, tmpl.replace("{}", &o.to_string()));
        let a = assemble(&with_offset);
        let b = assemble(&with_number);
        compared.fetch_add(1, Ordering::Relaxed);
        c.add_exec(2);
        let site = format!("offset / {}", tmpl.trim_end().replace('\n', " | "));
        match (a, b) {
            (Ok(a), Ok(b)) => {
                accepted[*ti].fetch_add(1, Ordering::Relaxed);
                if a.code != b.code || a.data != b.data {
                    let (x, y) = if a.code != b.code { (format!("{:?}", b.code), format!("{:?}", a.code)) } else { ("the same data lines".to_string(), "different data lines".to_string()) };
                    rep.report(Viol { site, field: "offset-output".into(), vars: vec![("v".into(), *o as i64), ("layout".into(), *l as i64)], got_val: None, expected: format!("what the decimal number gives: {}", x), got: format!("{} ({})", y, lname), case: json!({"src": with_offset, "canonical_src": with_number}), weight: *o as u64 });
                }
            }
            (Err(e), Ok(_)) => {
                rep.report(Viol { site, field: "offset-rejected".into(), vars: vec![("v".into(), *o as i64), ("layout".into(), *l as i64)], got_val: None, expected: "offset of a label is accepted wherever its value is accepted as a number".into(), got: format!("{:?} ({})", e, lname), case: json!({"src": with_offset, "canonical_src": with_number}), weight: *o as u64 });
            }
            (Ok(_), Err(e)) => {
                rep.report(Viol { site, field: "offset-accepted".into(), vars: vec![("v".into(), *o as i64), ("layout".into(), *l as i64)], got_val: None, expected: format!("refused like the number itself: {:?}", e), got: format!("accepted ({})", lname), case: json!({"src": with_offset, "canonical_src": with_number}), weight: *o as u64 });
            }
            (Err(_), Err(_)) => {}
        }
    });
    for (ti, (t, _)) in templates.iter().enumerate() {
        if accepted[ti].load(Ordering::Relaxed) == 0 {
            eprintln!("MACHINERY: C11 offset sweep: no accepted pair for template {:?} (vacuous)", t);
            std::process::exit(2);
        }
    }
    compared.load(Ordering::Relaxed)
}

/// execute the single emitted instruction and check that it carries the number `v`
fn exec_const(rep: &Reporter, c: &Counters, wk: &mut Worker, m: &crate::pipe::Machine, asm: &Asm, tmpl: &str, class: u8, v: u32, src: &str, executed: &AtomicU64) {
    if asm.code.len() != 1 {
        rep.report(Viol { site: format!("constant / {}", tmpl), field: "count".into(), vars: vec![], got_val: None, expected: "one emitted instruction".into(), got: format!("{:?}", asm.code), case: json!({"src": src}), weight: v as u64 });
        return;
    }
    let vm = &mut wk.bench.vm;
    let mut ictx = asm.ictx();
    vm.arch.ax = 0x5A5A;
    vm.arch.bx = 0x1234;
    vm.arch.cx = 0x4321;
    vm.arch.ds = 0;
    vm.arch.flag = 0xF000;
    // the cell the instruction must touch (direct address v, or BX + v wrapped to 16 bits), and a marker in it
    let addr: Option<usize> = match class {
        2 => Some(v as usize),
        3 => Some(((0x1234 + v) & 0xFFFF) as usize),
        _ => None,
    };
    if let Some(a) = addr {
        vm.mem[a] = 0xA7;
        vm.mem[(a + 1) & 0xFFFFF] = 0x00;
    }
    let e = m.exec(0, vm, &mut ictx, &asm.code[0]);
    executed.fetch_add(1, Ordering::Relaxed);
    c.add_exec(1);
    let ok = match (tmpl, class) {
        ("mov ax, {}", _) => vm.arch.ax == v as u16,
        ("mov bl, {}", _) => vm.arch.bx == (0x1200 | v) as u16,
        ("mov al, byte [{}]", _) | ("mov al, byte [bx, {}]", _) => vm.arch.ax == 0x5AA7,
        ("add word [{}], 1", _) => addr.map(|a| vm.mem[a] == 0xA8).unwrap_or(false),
        ("cmp cx, {}", _) => (vm.arch.flag & 0x0040 != 0) == (v == 0x4321) && (vm.arch.flag & 0x0001 != 0) == ((0x4321u32) < v),
        _ => true,
    };
    let got_state = format!("{:?}; AX=0x{:04X} BX=0x{:04X} flags=0x{:04X}", e, vm.arch.ax, vm.arch.bx, vm.arch.flag);
    if let Some(a) = addr {
        vm.mem[a] = 0;
        vm.mem[(a + 1) & 0xFFFFF] = 0;
    }
    if !ok || e != Exec::Ok(St::Next) {
        rep.report(Viol { site: format!("constant / {}", tmpl), field: "constant-value".into(), vars: vec![("v".into(), v as i64)], got_val: None, expected: format!("the emitted instruction {:?} carries the number {} (0x{:X})", asm.code[0], v, v), got: got_state, case: json!({"src": src, "emitted": asm.code}), weight: v as u64 });
    }
}

pub fn run(tier: &Tier) -> i32 {
    let rep_o = Reporter::new("C11", tier.name());
    let c_o = Counters::default();
    let rep = &rep_o;
    let c = &c_o;
    let cat = catalog(&CatOpts { disps: if tier.thorough { vec![9, -9, 0x7FFF, -0x8000, 0xFFF7] } else { vec![9, -9] }, all_regs: tier.thorough });
    let respellings = AtomicU64::new(0);
    let semantic = AtomicU64::new(0);
    cat.par_iter().for_each(|i| {
        with_worker(|wk| {
            let site = i.shape();
            let toks = instr_toks(i);
            let canon_line = join_toks(&toks);
            let canon_src = frame(&canon_line, "");
            let canon = match assemble(&canon_src) {
                Ok(a) => a,
                Err(e) => {
                    c.block(format!("{}: {:?}", site, e));
                    return;
                }
            };
            let canon_code = code_after_frame(&canon);
            c.shapes.fetch_add(1, Ordering::Relaxed);
            // (c) one emitted instruction per source instruction
            let want = if *i == Instr::Zero(ZeroOp::Nop) { 0 } else { 1 };
            if canon_code.len() != want && !(*i == Instr::Zero(ZeroOp::Nop) && canon_code.len() <= 1) {
                rep.report(Viol {
                    site: site.clone(),
                    field: "count".into(),
                    vars: vec![],
                    got_val: Some(canon_code.len() as i64),
                    expected: format!("{} emitted instruction(s)", want),
                    got: format!("{:?}", canon_code),
                    case: json!({"src": canon_src}),
                    weight: 0,
                });
            }
            // (b) every respelling emits the identical list
            for d in deviations(&toks) {
                let src = frame(&d.line, &d.data_extra);
                respellings.fetch_add(1, Ordering::Relaxed);
                wk.n += 1;
                match assemble(&src) {
                    Ok(a) => {
                        let code = code_after_frame(&a);
                        let data_ok = !d.data_extra.is_empty() || a.data == canon.data;
                        if code != canon_code || !data_ok {
                            rep.report(Viol {
                                site: site.clone(),
                                field: "respelling-output".into(),
                                vars: vec![],
                                got_val: None,
                                expected: format!("identical output {:?}", canon_code),
                                got: format!("{}: {:?}", d.what, code),
                                case: json!({"src": src, "canonical_src": canon_src}),
                                weight: src.len() as u64,
                            });
                        }
                    }
                    Err(e) => {
                        let field = if d.what.starts_with("leading zeros") { "respelling-rejected-leading-zeros" } else { "respelling-rejected" };
                        let got = format!("{}: {:?}", d.what, e);
                        if !rep.absorbed_by(&site, field, &[], None, &got) {
                            rep.report(Viol {
                                site: site.clone(),
                                field: field.into(),
                                vars: vec![],
                                got_val: None,
                                expected: "a respelling of an accepted instruction is accepted".into(),
                                got,
                                case: json!({"src": src, "canonical_src": canon_src}),
                                weight: src.len() as u64,
                            });
                        }
                    }
                }
            }
            // (a) semantic: the emitted line does what the AST instruction means, on two distinguishing states
            let sp_stack = matches!(i, Instr::Push(Opnd::R16(R_SP)) | Instr::Pop(Opnd::R16(R_SP)));
            if want == 1 && !sp_stack {
                if let Ok(mut p) = prepare(i) {
                    for (k, seed) in [0x17u16, 0x2B].iter().enumerate() {
                        let mut pre = make_state(i, if k == 0 { 0x35 } else { 0x8E }, if k == 0 { 0x12 } else { 0x71 }, if k == 0 { 0xF000 } else { 0xF0C0 }, *seed, &p.dc, 0);
                        pre.call_stack = vec![1];
                        pre.r.sp &= 0xFFF0;
                        pre.r.cx = (pre.r.cx & 0xFF07) | 1;
                        if matches!(i, Instr::Lea(..)) {
                            // LEA's segment handling is C04's business (suite-locked finding there)
                            let d = pre.r.ds;
                            pre.r.ss = d;
                            pre.r.es = d;
                            pre.r.cs = d;
                        }
                        if matches!(i, Instr::MulDiv(MulOp::Div, _) | Instr::MulDiv(MulOp::Idiv, _)) {
                            pre.r.dx = 0;
                            pre.r.ax &= 0x00FF;
                        }
                        semantic.fetch_add(1, Ordering::Relaxed);
                        let w = i.operands().get(0).and_then(|o| o.width()).map(|w| w.bits()).unwrap_or(0) as i64;
                        let ah = (pre.r.ax >> 8) as i64;
                        wk.case(rep, c, &mut p, &pre, &site, &[("w", w), ("ah", ah)], 5, true);
                    }
                }
            }
            wk.flush(c);
            if wk.prep_cache.len() < 3 && canon_line.len() % 13 == 0 {
                c.sample(json!({"canonical": canon_line, "emitted": canon_code, "deviations": deviations(&toks).len()}));
            }
        })
    });
    // data directives: respellings emit identical data lines
    let mut ddefs: Vec<DataDef> = Vec::new();
    for w in [W::B, W::W] {
        let big = if w == W::B { 200 } else { 40000 };
        ddefs.push(DataDef::Val(Some("q".into()), w, big));
        ddefs.push(DataDef::Val(None, w, 5));
        ddefs.push(DataDef::Arr(Some("q".into()), w, 12));
        ddefs.push(DataDef::ArrVal(None, w, big, 9));
        ddefs.push(DataDef::Str(Some("q".into()), w, "ab cd".into()));
    }
    ddefs.push(DataDef::Set(0x1234));
    for d in ddefs.iter() {
        let toks = data_toks(d);
        let canon_src = format!("{}\nstart:\nhlt\n", join_toks(&toks));
        let canon = match assemble(&canon_src) {
            Ok(a) => a,
            Err(e) => {
                c.block(format!("data {:?}: {:?}", d, e));
                continue;
            }
        };
        for dv in deviations(&toks) {
            if !dv.data_extra.is_empty() {
                continue;
            }
            let src = format!("{}\nstart:\nhlt\n", dv.line);
            respellings.fetch_add(1, Ordering::Relaxed);
            let res = assemble(&src);
            let ok = match &res {
                Ok(a) => a.data == canon.data,
                Err(_) => false,
            };
            if !ok {
                let field = if dv.what.starts_with("leading zeros") { "respelling-rejected-leading-zeros" } else { "respelling-output" };
                rep.report(Viol {
                    site: format!("data {}", join_toks(&toks)),
                    field: field.into(),
                    vars: vec![],
                    got_val: None,
                    expected: format!("identical data lines {:?}", canon.data),
                    got: format!("{}: {:?}", dv.what, res.map(|a| a.data)),
                    case: json!({"src": src}),
                    weight: 0,
                });
            }
        }
    }
    // (c) order and count: all ordered triples of distinguishable instructions
    let pool: Vec<Instr> = vec![
        Instr::Mov(Opnd::R16(R_AX), Opnd::Imm(0x1111)),
        Instr::Bin(BinOp::Add, Opnd::R16(R_BX), Opnd::Imm(2)),
        Instr::Un(UnOp::Inc, Opnd::R16(R_CX)),
        Instr::Zero(ZeroOp::Stc),
        Instr::Mov(Opnd::Label(W::W, "wv".into()), Opnd::R16(R_DX)),
        Instr::Shift(ShOp::Shl, Opnd::R8(2), Count::Imm(1)),
        Instr::Xchg(Opnd::R16(R_SI), Opnd::R16(R_DI)),
        Instr::Push(Opnd::R16(R_BP)),
    ];
    let mut triples = Vec::new();
    for a in 0..pool.len() {
        for b in 0..pool.len() {
            for d in 0..pool.len() {
                if a != b && b != d && a != d {
                    triples.push((a, b, d));
                }
            }
        }
    }
    triples.par_iter().for_each(|(a, b, d)| {
        with_worker(|wk| {
            let seq = [&pool[*a], &pool[*b], &pool[*d]];
            let sep = [" ", "\n", "\t\n"][(*a + *b) % 3];
            let line = seq.iter().map(|i| render_instr(i)).collect::<Vec<_>>().join(sep);
            let src = frame(&line, "");
            let asm = match assemble(&src) {
                Ok(x) => x,
                Err(e) => {
                    rep.report(Viol {
                        site: "triple".into(),
                        field: "respelling-rejected".into(),
                        vars: vec![],
                        got_val: None,
                        expected: "three instructions separated by white space are accepted".into(),
                        got: format!("{:?}", e),
                        case: json!({"src": src}),
                        weight: 0,
                    });
                    return;
                }
            };
            let code = code_after_frame(&asm);
            let mut singles = Vec::new();
            for i in seq.iter() {
                let one = assemble(&frame(&render_instr(i), "")).unwrap();
                singles.extend(code_after_frame(&one));
            }
            wk.n += 1;
            if code != singles {
                rep.report(Viol {
                    site: "triple".into(),
                    field: "order".into(),
                    vars: vec![],
                    got_val: None,
                    expected: format!("{:?}", singles),
                    got: format!("{:?}", code),
                    case: json!({"src": src}),
                    weight: 0,
                });
            }
            wk.flush(c);
        })
    });
    // (d) label names are case sensitive
    {
        let src = "Val: db 1\nval: db 2\nstart:\njmp Lab\nlab:\nstc\nLab:\nmov al, byte val\nmov ah, byte Val\njmp lab\n";
        match assemble(src) {
            Ok(a) => {
                let ok = a.labels.get("lab").map(|l| l.map) == Some(1)
                    && a.labels.get("Lab").map(|l| l.map) == Some(2)
                    && a.labels.get("Val").map(|l| l.map) == Some(0)
                    && a.labels.get("val").map(|l| l.map) == Some(1);
                if !ok {
                    rep.report(Viol {
                        site: "label case".into(),
                        field: "labels".into(),
                        vars: vec![],
                        got_val: None,
                        expected: "lab->1, Lab->2, Val->0, val->1".into(),
                        got: format!("{:?}", a.labels),
                        case: json!({"src": src}),
                        weight: 0,
                    });
                }
            }
            Err(e) => rep.report(Viol {
                site: "label case".into(),
                field: "labels".into(),
                vars: vec![],
                got_val: None,
                expected: "labels differing only in case are distinct labels".into(),
                got: format!("{:?}", e),
                case: json!({"src": src}),
                weight: 0,
            }),
        }
        // a keyword spelled in another case is still not a label; a label in another case is undefined
        let src2 = "start:\njmp START\n";
        if let Ok(a) = assemble(src2) {
            if a.driver_accepts().is_ok() {
                rep.report(Viol {
                    site: "label case".into(),
                    field: "labels".into(),
                    vars: vec![],
                    got_val: None,
                    expected: "jump to START is a jump to an undefined label (labels are case sensitive)".into(),
                    got: "accepted".into(),
                    case: json!({"src": src2}),
                    weight: 0,
                });
            }
        }
    }
    // (e) the comment layer lives in the driver: same programs with comments, through the binary
    ensure_bin();
    let base = Program {
        // string definitions too: a comment (whatever it contains) after a string must not become part of the data
        data: vec![b::db(Some("x"), 5), b::dw(Some("y"), 0x1234), DataDef::Str(Some("s".into()), W::B, "AB".into()), DataDef::Str(Some("t".into()), W::W, "c d".into()), DataDef::Str(Some("u".into()), W::B, "Open 24h 7Fh 0x1F 0b11 10 -> 3 daily".into()), b::db(Some("z"), 9)],
        code: vec![
            b::label("start"),
            b::mov(b::r16("ax"), b::imm(7)),
            b::bin(BinOp::Add, b::r16("ax"), b::lab16("y")),
            b::print(PrintKind::Reg),
            b::mov(b::r8("bl"), b::lab8("x")),
            b::jmp("jmp", "fin"),
            b::mov(b::r16("ax"), b::imm(0)),
            b::label("fin"),
            b::print(PrintKind::Reg),
            b::print(PrintKind::MemRange(0, 63)),
            b::mov(b::r8("cl"), b::lab8("z")),
            b::print(PrintKind::Reg),
        ],
    };
    let plain = render(&base);
    let lines: Vec<&str> = plain.lines().collect();
    let mut variants: Vec<(String, String)> = Vec::new();
    variants.push(("plain".into(), plain.clone()));
    variants.push(("comment at every line end".into(), lines.iter().map(|l| format!("{} ; c {}", l, l)).collect::<Vec<_>>().join("\n") + "\n"));
    variants.push(("comment without space".into(), lines.iter().map(|l| format!("{};x", l)).collect::<Vec<_>>().join("\n") + "\n"));
    variants.push(("comment lines in between are separate checks".into(), plain.clone()));
    variants.push(("last line without newline".into(), plain.trim_end().to_string()));
    variants.push(("comment on the last line without newline".into(), format!("{} ; end", plain.trim_end())));
    variants.push(("comment containing quotes and keywords".into(), lines.iter().map(|l| format!("{} ; \"mov ax, 1\" hlt print reg", l)).collect::<Vec<_>>().join("\n") + "\n"));
    // what a comment says is irrelevant: every text of a small alphabet of troublesome fragments (unbalanced and
    // balanced quotes, further semicolons, brackets, braces, macro arrows, keywords, a backslash, non-ASCII) as the
    // comment of every line, of the first line only (plain comments after it), and of every second line
    for t in ["\"", "\"\"", "\";", ";;", "'", "2\" wide", "a\"b;c", "; \"", "\\", "->", "<-", "{", "}", "(", "[", "macro x(a) -> <-", "def f {", "start:", "db \"", "\u{e9}\"\u{20ac}"] {
        variants.push((format!("comment {:?} on every line", t), lines.iter().map(|l| format!("{} ;{}", l, t)).collect::<Vec<_>>().join("\n") + "\n"));
        variants.push((format!("comment {:?} on the first line, plain comments after it", t), lines.iter().enumerate().map(|(k, l)| if k == 0 { format!("{} ; {}", l, t) } else { format!("{} ; plain", l) }).collect::<Vec<_>>().join("\n") + "\n"));
        variants.push((format!("comment {:?} on every second line", t), lines.iter().enumerate().map(|(k, l)| if k % 2 == 1 { format!("{} ; {}", l, t) } else { l.to_string() }).collect::<Vec<_>>().join("\n") + "\n"));
    }
    // a comment between the tokens of one instruction
    variants.push(("comment between tokens".into(), plain.replace("mov ax, 7", "mov ax, ; seven\n7")));
    let none = std::collections::HashMap::new();
    let flat = crate::refprog::flatten(&base, &none);
    let rr = crate::refprog::run(&flat, &crate::refprog::RunOpts::default());
    variants.par_iter().for_each(|(name, src)| {
        let o = run_cli(src, "", &CliOpts::default());
        c.add_exec(1);
        let mut bad = o.abnormal();
        if bad.is_none() {
            let mut m = crate::cliobs::Matcher::new(&o.stdout, src);
            m.check_text = false;
            // "comment between tokens" moves the following lines down by one
            let shift = if name == "comment between tokens" { 1 } else { 0 };
            let evs: Vec<crate::refprog::Ev> = rr
                .events
                .iter()
                .map(|e| match e {
                    crate::refprog::Ev::Print { line, kind, regs, bytes } => crate::refprog::Ev::Print { line: *line + shift, kind: kind.clone(), regs: *regs, bytes: bytes.clone() },
                    x => x.clone(),
                })
                .collect();
            if let Err(e) = m.match_all(&evs) {
                bad = Some(format!("{}: expected {} got {}", e.field, e.expected, e.got));
            }
        }
        if let Some(b) = bad {
            let site = format!("comments: {}", name);
            if !rep.absorbed_by(&site, "stdout", &[], None, &b) {
                rep.report(Viol {
                    site,
                    field: "stdout".into(),
                    vars: vec![],
                    got_val: None,
                    expected: "same behaviour as the program without comments".into(),
                    got: format!("{} | {}", b, o.summary()),
                    case: json!({"src": src, "stdin": ""}),
                    weight: 0,
                });
            }
        }
    });
    let (const_spellings, const_execs) = sweep_constants(rep, c);
    let offset_pairs = sweep_offsets(rep, c, tier.thorough);
    c.states.fetch_add(respellings.load(Ordering::Relaxed), Ordering::Relaxed);
    let mut cov = Coverage::default();
    cov.exhaustive = true;
    cov.rule = "for every shape of the syntax.md catalog: (a) the line the real Preprocessor emits, executed by the real Interpreter on two distinguishing machine states, has the effect the reference computes for the AST instruction (same operation, operand roles, constants); (b) EVERY single spelling deviation of the canonical rendering - each keyword token in upper case, each constant in 0x / 0X / 0b / negative decimal / leading zeros / OFFSET of a label with that offset, each gap as tab / newline / several spaces / blank lines / CRLF / an extra space - must assemble to the identical instruction list; (c) one emitted instruction per source instruction and all ordered triples of 8 distinguishable instructions keep order; (d) labels differing only in case are different labels; (e) 8 comment placements and 20 troublesome comment texts (unbalanced quotes, semicolons, brackets, arrows, keywords, non-ASCII) in 3 placements each through the CLI binary behave like the uncommented program; (f) EVERY constant of a class in every radix: all 65536 word immediates (two instructions), all 256 byte immediates, all 65536 direct addresses (two instructions) and all 65536 displacements, spelled in decimal, 0x, 0X, 0b, with leading zeros and as the negative decimal with the same bit pattern: the emitted instruction equals the decimal spelling's and, executed by the real Interpreter, carries exactly that number. OFFSET in place of a number: 35 constant positions (byte and word immediates of arithmetic / logic / mov / shift counts, DB/DW values and counts, direct addresses and displacements, every print mem form) x every label offset 0..255 (byte positions) / 316 word offsets (thorough: 990) x 3 layouts (default segment, after a non-zero set, after two sets): the program must assemble to exactly what the decimal number gives".into();
    cov.bounds = json!({"catalog_shapes": cat.len(), "respellings": respellings.load(Ordering::Relaxed), "semantic_executions": semantic.load(Ordering::Relaxed), "triples": triples.len(), "offset_number_pairs": offset_pairs, "constant_spellings": const_spellings, "constant_executions": const_execs, "comment_variants": variants.len(), "tier": tier.name()});
    cov.assumptions = common_assumptions();
    cov.cli_runs = CLI_RUNS.load(Ordering::Relaxed);
    cov.distinct_nontrivial = respellings.load(Ordering::Relaxed);
    let cov = finish_cov(c, cov);
    rep.finish(cov)
}
