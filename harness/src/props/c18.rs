//! C18 — console interrupt services do exactly their documented I/O, within bounds.
//!
//! Everything runs through the real binary with scripted stdin. A generated program establishes the
//! registers and the buffer, raises the interrupt, then prints registers, flags and the memory
//! around the buffer (and the bottom and top of memory); stdout is matched byte for byte (service
//! output) and field by field (prints) against the reference interpreter.

use super::common::*;
use crate::alu::*;
use crate::ast::b::*;
use crate::ast::*;
use crate::cli::*;
use crate::findings::*;
use crate::refexec::phys;
use rayon::prelude::*;
use serde_json::json;
use std::collections::{BTreeSet, HashMap};
use std::sync::atomic::{AtomicU64, Ordering};

#[derive(Clone)]
struct Case {
    site: String,
    prog: Program,
    stdin_lines: Vec<String>,
    stdin_raw: String,
    note: String,
}

/// stdin shapes: (what the reference sees as lines, raw bytes, name)
fn stdin_shapes(cap_hint: usize) -> Vec<(Vec<String>, String, &'static str)> {
    let eq: String = "abcdefghijklmnopqrstuvwxyz".chars().cycle().take(cap_hint.max(1)).collect();
    let longer: String = "ABCDEFGHIJKLMNOPQRSTUVWXYZ0123456789".chars().cycle().take(cap_hint + 7).collect();
    let huge: String = "0123456789".chars().cycle().take(300).collect();
    vec![
        (vec![], "".into(), "closed"),
        (vec!["".into()], "\n".into(), "empty line"),
        (vec!["xy".into()], "xy\n".into(), "short line"),
        (vec![eq.clone()], format!("{}\n", eq), "line as long as the capacity"),
        (vec![longer.clone()], format!("{}\n", longer), "line longer than the capacity"),
        (vec!["abc".into()], "abc".into(), "no trailing newline"),
        (vec!["pq".into(), "rs".into()], "pq\nrs\n".into(), "two lines"),
        (vec![huge.clone()], format!("{}\n", huge), "300 characters"),
        (vec!["h\u{e9}llo".into()], "h\u{e9}llo\n".into(), "non-ASCII (UTF-8) line"),
        (vec!["\u{e9}t\u{e9}".into(), "\u{20ac} 42".into()], "\u{e9}t\u{e9}\n\u{20ac} 42\n".into(), "lines starting with a multi-byte character"),
        (vec!["".into(), "c".into()], "\nc\n".into(), "an empty line, then a line"),
        (vec!["".into(), "".into(), "zz".into()], "\n\nzz\n".into(), "two empty lines, then a line"),
        (vec!["".into(), "tail".into()], "\ntail".into(), "an empty line, then a line without newline"),
        // white space is input like any other character: only the line terminator is not part of the line
        (vec!["ab  ".into()], "ab  \n".into(), "line ending in blanks"),
        (vec!["  lead".into()], "  lead\n".into(), "line starting with blanks"),
        (vec!["   ".into()], "   \n".into(), "a line of blanks only"),
        (vec!["\ta\tb\t".into()], "\ta\tb\t\n".into(), "tabs at both ends"),
        (vec!["vt\u{b}\u{c}".into()], "vt\u{b}\u{c}\n".into(), "line ending in vertical tab and form feed"),
        (vec!["\u{a0}nb\u{a0}".into(), "\u{2003}".into()], "\u{a0}nb\u{a0}\n\u{2003}\n".into(), "non-ASCII white space at both ends"),
        (vec!["end ".into()], "end ".into(), "trailing blank, no newline"),
    ]
}

fn set_seg(code: &mut Vec<Item>, seg: &str, v: u16) {
    code.push(mov(r16("ax"), imm(v as i32)));
    code.push(mov(sr(seg), r16("ax")));
}

/// physical addresses -> maximal contiguous runs, as print statements
fn print_runs(code: &mut Vec<Item>, addrs: &BTreeSet<u32>) {
    let v: Vec<u32> = addrs.iter().cloned().collect();
    let mut i = 0;
    while i < v.len() {
        let mut j = i;
        while j + 1 < v.len() && v[j + 1] == v[j] + 1 {
            j += 1;
        }
        code.push(print(PrintKind::MemRange(v[i], v[j])));
        i = j + 1;
    }
}

fn epilogue(code: &mut Vec<Item>, window: &BTreeSet<u32>) {
    code.push(print(PrintKind::Reg));
    code.push(print(PrintKind::Flags));
    print_runs(code, window);
    code.push(print(PrintKind::MemRange(0, 47)));
    code.push(print(PrintKind::MemRange(0xFFFD0, 0xFFFFF)));
}

/// distinct values in the registers the service does not use, so that a stray write shows
fn others(code: &mut Vec<Item>, skip: &[&str]) {
    for (r, v) in [("bx", 0x1B2Bu16), ("cx", 0x3C4C), ("dx", 0x5D6D), ("bp", 0x7E8E), ("si", 0x9FA0), ("di", 0xB1C2)] {
        if !skip.contains(&r) {
            code.push(mov(r16(r), imm(v as i32)));
        }
    }
}

fn base_data() -> Vec<DataDef> {
    // patterned bytes at the bottom and at the top of memory, so that the epilogue's dumps are not all zero
    let mut d = Vec::new();
    for i in 0..48u32 {
        d.push(db(None, ((i * 7 + 0x30) & 0xFF) as i32));
    }
    d.push(DataDef::Set(0xFFFD));
    for i in 0..48u32 {
        d.push(db(None, ((i * 11 + 0x61) & 0xFF) as i32));
    }
    d.push(DataDef::Set(0x0020));
    d.push(DataDef::Str(None, W::B, "Hello, 8086 world! The quick brown fox.".into()));
    // bytes that happen to be well-formed UTF-8 (c3 a9 = e-acute, e2 82 ac = euro sign) between ASCII text
    d.push(DataDef::Set(0x0030));
    for b in [0x63u8, 0x61, 0x66, 0xC3, 0xA9, 0x20, 0xE2, 0x82, 0xAC, 0x35, 0xC3, 0xA9, 0x21] {
        d.push(db(None, b as i32));
    }
    d
}

fn int21_02(thorough: bool) -> Vec<Case> {
    let _ = thorough;
    let dls: Vec<u32> = (0..256).collect();
    let mut v = Vec::new();
    for dl in dls {
        for al in [0x00u32, 0x55] {
            let mut code = vec![label("start")];
            code.push(z(ZeroOp::Stc));
            others(&mut code, &["dx"]);
            code.push(mov(r16("dx"), imm((0x4400 | dl) as i32)));
            code.push(mov(r16("ax"), imm((0x0200 | al) as i32)));
            code.push(int(0x21));
            epilogue(&mut code, &BTreeSet::new());
            // a second character directly afterwards (histories: two services in a row)
            code.push(mov(r16("ax"), imm(0x0200)));
            code.push(mov(r8("dl"), imm(0x2A)));
            code.push(int(0x21));
            code.push(print(PrintKind::Reg));
            v.push(Case { site: "int 21h ah=02".into(), prog: Program { data: base_data(), code }, stdin_lines: vec![], stdin_raw: "".into(), note: format!("DL=0x{:02X} AL=0x{:02X}", dl, al) });
        }
    }
    v
}

fn int21_01() -> Vec<Case> {
    let mut v = Vec::new();
    for (lines, raw, name) in stdin_shapes(5) {
        for al in [0x00u32, 0xCC] {
            let mut code = vec![label("start")];
            code.push(z(ZeroOp::Std));
            others(&mut code, &[]);
            code.push(mov(r16("ax"), imm((0x0100 | al) as i32)));
            code.push(int(0x21));
            epilogue(&mut code, &BTreeSet::new());
            // the next call reads the next line (or reports end of input with 0)
            code.push(mov(r16("ax"), imm(0x01EE)));
            code.push(int(0x21));
            code.push(print(PrintKind::Reg));
            // echo what was read
            code.push(mov(r8("dl"), r8("al")));
            code.push(mov(r8("ah"), imm(2)));
            code.push(int(0x21));
            code.push(print(PrintKind::Reg));
            v.push(Case { site: "int 21h ah=01".into(), prog: Program { data: base_data(), code }, stdin_lines: lines.clone(), stdin_raw: raw.clone(), note: format!("stdin: {}; AL before=0x{:02X}", name, al) });
        }
    }
    v
}

fn int21_0a(thorough: bool) -> Vec<Case> {
    let mut v = Vec::new();
    // (DS, DX): low; offset wrapping at 16 bits; crossing 2^20; buffer ending exactly at 0xFFFFF for capacity 5
    let places: Vec<(u16, u16, &str)> = vec![
        (0x0000, 0x0100, "low memory"),
        (0x1000, 0xFFFE, "offset wraps at 16 bits"),
        (0xFFFF, 0x000D, "crosses 2^20"),
        (0xFFF0, 0x00F8, "capacity 5 ends at 0xFFFFF"),
        (0xFFFF, 0xFFFF, "header split across the offset wrap at the top segment"),
    ];
    let caps: Vec<u32> = if thorough { (0..=255).collect() } else { vec![0, 1, 2, 5, 16, 255] };
    for (ds, dx, pname) in places.iter() {
        for cap in caps.iter() {
            for (lines, raw, sname) in stdin_shapes(*cap as usize) {
                let mut code = vec![label("start")];
                // marker fill around the buffer: ES:DI = DS:DX-3, cap+10 bytes of 0xEE
                let fill_len = cap + 10;
                set_seg(&mut code, "es", *ds);
                code.push(mov(r16("di"), imm(dx.wrapping_sub(3) as i32)));
                code.push(mov(r16("cx"), imm(fill_len as i32)));
                code.push(mov(r8("al"), imm(0xEE)));
                code.push(z(ZeroOp::Cld));
                code.push(strop(Some(Rep::Rep), StrOp::Stos, W::B));
                set_seg(&mut code, "ds", *ds);
                set_seg(&mut code, "es", 0x2222);
                code.push(mov(r16("bx"), imm(*dx as i32)));
                code.push(mov(ind(W::B, "bx"), imm(*cap as i32)));
                code.push(z(ZeroOp::Stc));
                code.push(z(ZeroOp::Std));
                others(&mut code, &["dx"]);
                code.push(mov(r16("dx"), imm(*dx as i32)));
                code.push(mov(r16("ax"), imm(0x0A77)));
                code.push(int(0x21));
                let mut window = BTreeSet::new();
                for k in 0..fill_len + 4 {
                    window.insert(phys(*ds, dx.wrapping_sub(5).wrapping_add(k as u16)));
                }
                epilogue(&mut code, &window);
                // the second line, if any, is still there for the next service
                code.push(mov(r16("ax"), imm(0x0100)));
                code.push(int(0x21));
                code.push(print(PrintKind::Reg));
                v.push(Case { site: "int 21h ah=0a".into(), prog: Program { data: base_data(), code }, stdin_lines: lines.clone(), stdin_raw: raw.clone(), note: format!("{} (DS=0x{:04X} DX=0x{:04X}), capacity {}, stdin: {}", pname, ds, dx, cap, sname) });
            }
        }
    }
    v
}

/// a line of 1-, 2-, 3- and 4-byte characters cut by the capacity at every byte position
fn int21_0a_utf8() -> Vec<Case> {
    let mut v = Vec::new();
    let line = "a\u{e9}\u{20ac}\u{1F600}z\u{fc}";
    for (ds, dx) in [(0x0000u16, 0x0100u16), (0xFFFF, 0x000D)] {
        for cap in 0..=(line.len() as u32 + 1) {
            let mut code = vec![label("start")];
            set_seg(&mut code, "es", ds);
            code.push(mov(r16("di"), imm(dx.wrapping_sub(3) as i32)));
            code.push(mov(r16("cx"), imm((cap + 10) as i32)));
            code.push(mov(r8("al"), imm(0xEE)));
            code.push(z(ZeroOp::Cld));
            code.push(strop(Some(Rep::Rep), StrOp::Stos, W::B));
            set_seg(&mut code, "ds", ds);
            code.push(mov(r16("bx"), imm(dx as i32)));
            code.push(mov(ind(W::B, "bx"), imm(cap as i32)));
            others(&mut code, &["dx"]);
            code.push(mov(r16("dx"), imm(dx as i32)));
            code.push(mov(r16("ax"), imm(0x0A00)));
            code.push(int(0x21));
            let mut window = BTreeSet::new();
            for k in 0..cap + 14 {
                window.insert(phys(ds, dx.wrapping_sub(5).wrapping_add(k as u16)));
            }
            epilogue(&mut code, &window);
            v.push(Case { site: "int 21h ah=0a".into(), prog: Program { data: base_data(), code }, stdin_lines: vec![line.to_string()], stdin_raw: format!("{}\n", line), note: format!("multi-byte characters, capacity {} (DS=0x{:04X} DX=0x{:04X})", cap, ds, dx) });
        }
    }
    v
}

fn int10_0a(thorough: bool) -> Vec<Case> {
    let mut v = Vec::new();
    let als: Vec<u32> = if thorough { (0..256).collect() } else { vec![0x41, 0x00, 0x0A, 0x20, 0x7F, 0x80, 0xE9, 0xFF, 0x09, 0x0D] };
    let cxs: Vec<u32> = if thorough { vec![0, 1, 2, 3, 5, 79, 80, 81, 255, 256, 300, 4096, 0x7FFF, 0x8000, 0xFFFF] } else { vec![0, 1, 2, 5, 300, 4096] };
    // every count 0..330 (and the multiples of the usual line widths beyond) for one character: a row-wise
    // writer that is wrong at multiples of its row length shows only there
    let mut pairs: Vec<(u32, u32)> = Vec::new();
    for al in als.iter() {
        for cx in cxs.iter() {
            pairs.push((*al, *cx));
        }
    }
    for cx in (0..=330u32).chain([400, 512, 640, 800, 1000, 1024, 1320, 1920, 2000, 4000]) {
        pairs.push((0x2A, cx));
    }
    for (al, cx) in pairs.iter() {
        {
            let mut code = vec![label("start")];
            code.push(z(ZeroOp::Stc));
            others(&mut code, &["cx"]);
            code.push(mov(r16("cx"), imm(*cx as i32)));
            code.push(mov(r16("ax"), imm((0x0A00 | al) as i32)));
            code.push(int(0x10));
            epilogue(&mut code, &BTreeSet::new());
            v.push(Case { site: "int 10h ah=0a".into(), prog: Program { data: base_data(), code }, stdin_lines: vec![], stdin_raw: "".into(), note: format!("AL=0x{:02X} CX={}", al, cx) });
        }
    }
    v
}

fn int10_13(thorough: bool) -> Vec<Case> {
    let mut v = Vec::new();
    let dls: Vec<u32> = if thorough { (0..=255).collect() } else { vec![0, 1, 5, 79, 255] };
    let cxs: Vec<u32> = if thorough { vec![0, 1, 2, 4, 5, 13, 39, 255, 256, 300, 4096, 65535] } else { vec![0, 1, 5, 13, 39, 300] };
    let places: Vec<(u16, u16, &str)> = vec![
        (0x0020, 0x0000, "text at 0x200"),
        (0x0000, 0x0200, "same text through ES=0"),
        (0xFFFD, 0x0010, "patterned bytes, string crosses 2^20"),
        (0x0010, 0xFFF8, "offset BP+i wraps at 16 bits"),
        (0xFFFF, 0x000F, "last byte of memory then wrap to 0"),
        (0x0030, 0x0000, "text whose high bytes form well-formed UTF-8 sequences"),
    ];
    let mut combos: Vec<(u16, u16, &str, u32, u32)> = Vec::new();
    for (es, bp, pname) in places.iter() {
        for dl in dls.iter() {
            for cx in cxs.iter() {
                combos.push((*es, *bp, *pname, *dl, *cx));
            }
        }
    }
    // every start column with a short string, every length up to 200 at column 0 and at column 3
    for dl in 0..=255u32 {
        combos.push((0x0020, 0x0000, "text at 0x200", dl, 3));
    }
    for cx in 0..=200u32 {
        combos.push((0x0020, 0x0000, "text at 0x200", 0, cx));
        combos.push((0x0020, 0x0000, "text at 0x200", 3, cx));
    }
    {
        {
            for (es, bp, pname, dl, cx) in combos.iter() {
                let mut code = vec![label("start")];
                set_seg(&mut code, "es", *es);
                code.push(z(ZeroOp::Std));
                others(&mut code, &["cx", "dx", "bp"]);
                code.push(mov(r16("bp"), imm(*bp as i32)));
                code.push(mov(r16("cx"), imm(*cx as i32)));
                // DH (row) and BX (page, attribute) are ignored by the service
                code.push(mov(r16("dx"), imm((0x0700 | dl) as i32)));
                code.push(mov(r16("ax"), imm(0x1301)));
                code.push(int(0x10));
                epilogue(&mut code, &BTreeSet::new());
                v.push(Case { site: "int 10h ah=13".into(), prog: Program { data: base_data(), code }, stdin_lines: vec![], stdin_raw: "".into(), note: format!("{} (ES=0x{:04X} BP=0x{:04X}) DL={} CX={}", pname, es, bp, dl, cx) });
            }
        }
    }
    v
}

fn unsupported() -> Vec<Case> {
    let mut v = Vec::new();
    for (n, ok) in [(0x10u8, vec![0x0Au32, 0x13]), (0x21u8, vec![0x01, 0x02, 0x0A])] {
        for ah in 0..256u32 {
            if ok.contains(&ah) {
                continue;
            }
            // placement of the interrupt: first, middle or last line of the program
            let mut code = vec![label("start")];
            let place = ah % 3;
            if place > 0 {
                code.push(z(ZeroOp::Stc));
                code.push(print(PrintKind::Flags));
            }
            code.push(mov(r16("ax"), imm(((ah << 8) | 0x41) as i32)));
            code.push(mov(r16("cx"), imm(3)));
            code.push(int(n));
            if place < 2 {
                // nothing after the report may execute
                code.push(print(PrintKind::Reg));
                code.push(mov(r16("ax"), imm(0x0241)));
                code.push(int(0x21));
            }
            v.push(Case { site: format!("int {:02x}h unsupported ah", n), prog: Program { data: vec![], code }, stdin_lines: vec!["zz".into()], stdin_raw: "zz\n".into(), note: format!("AH=0x{:02X}", ah) });
        }
    }
    v
}

/// histories: every ordered pair of services in one program, sharing one stdin
fn pairs(thorough: bool) -> Vec<Case> {
    let mut v = Vec::new();
    // each service as a code fragment using the buffer at DS:0x0300 (DS=0)
    let frag = |k: usize, code: &mut Vec<Item>| match k {
        0 => {
            code.push(mov(r16("ax"), imm(0x0100)));
            code.push(int(0x21));
        }
        1 => {
            code.push(mov(r8("dl"), r8("al")));
            code.push(mov(r8("ah"), imm(2)));
            code.push(int(0x21));
        }
        2 => {
            code.push(mov(r16("dx"), imm(0x0300)));
            code.push(mov(direct(W::B, 0x0300), imm(6)));
            code.push(mov(r8("ah"), imm(0x0A)));
            code.push(int(0x21));
        }
        3 => {
            code.push(mov(r16("cx"), imm(3)));
            code.push(mov(r16("ax"), imm(0x0A2D)));
            code.push(int(0x10));
        }
        _ => {
            // print the buffered text: CX = stored count, ES:BP = 0:0x0302
            code.push(mov(r16("cx"), imm(0)));
            code.push(mov(r8("cl"), direct(W::B, 0x0301)));
            code.push(mov(r16("bp"), imm(0x0302)));
            code.push(mov(r8("dl"), imm(2)));
            code.push(mov(r8("ah"), imm(0x13)));
            code.push(int(0x10));
        }
    };
    let names = ["21h/01", "21h/02", "21h/0a", "10h/0a", "10h/13"];
    let stdins: Vec<(Vec<String>, String)> = vec![
        (vec!["first".into(), "second line".into()], "first\nsecond line\n".into()),
        (vec!["only".into()], "only\n".into()),
        (vec![], "".into()),
        (vec!["".into(), "after an empty line".into(), "third".into()], "\nafter an empty line\nthird\n".into()),
        (vec![" padded ".into(), "\t".into()], " padded \n\t\n".into()),
    ];
    if thorough {
        // histories of three services (all 125 ordered triples), a third input line available
        let mut st3 = stdins.clone();
        st3.push((vec!["one".into(), "two".into(), "three".into()], "one\ntwo\nthree\n".into()));
        for a in 0..5 {
            for b in 0..5 {
                for c3 in 0..5 {
                    for (lines, raw) in st3.iter() {
                        let mut code = vec![label("start")];
                        frag(a, &mut code);
                        code.push(print(PrintKind::Reg));
                        frag(b, &mut code);
                        code.push(print(PrintKind::Reg));
                        frag(c3, &mut code);
                        let mut w = BTreeSet::new();
                        for k in 0x02F8..0x0310u32 {
                            w.insert(k);
                        }
                        epilogue(&mut code, &w);
                        v.push(Case { site: "service triple".into(), prog: Program { data: base_data(), code }, stdin_lines: lines.clone(), stdin_raw: raw.clone(), note: format!("{} then {} then {}", names[a], names[b], names[c3]) });
                    }
                }
            }
        }
    }
    for a in 0..5 {
        for b in 0..5 {
            for (lines, raw) in stdins.iter() {
                let mut code = vec![label("start")];
                frag(a, &mut code);
                code.push(print(PrintKind::Reg));
                frag(b, &mut code);
                let mut w = BTreeSet::new();
                for k in 0x02F8..0x0310u32 {
                    w.insert(k);
                }
                epilogue(&mut code, &w);
                v.push(Case { site: "service pair".into(), prog: Program { data: base_data(), code }, stdin_lines: lines.clone(), stdin_raw: raw.clone(), note: format!("{} then {}", names[a], names[b]) });
            }
        }
    }
    v
}

/// a service writes something and the run then ENDS without any print statement or prompt in between: what
/// the service wrote must be on the standard output before whatever ends the run says (a buffered writer
/// that is only flushed at the flush points someone thought of is seen here)
fn output_then_end() -> Vec<Case> {
    let mut v = Vec::new();
    let outs: [(&str, fn(&mut Vec<Item>)); 3] = [
        ("21h/02", |code| {
            code.push(mov(r8("dl"), imm(0x31)));
            code.push(mov(r8("ah"), imm(2)));
            code.push(int(0x21));
            code.push(mov(r8("dl"), imm(0x32)));
            code.push(int(0x21));
        }),
        ("10h/0a", |code| {
            code.push(mov(r16("cx"), imm(3)));
            code.push(mov(r16("ax"), imm(0x0A2A)));
            code.push(int(0x10));
        }),
        ("10h/13", |code| {
            code.push(mov(direct(W::W, 0x0302), imm(0x6968)));
            code.push(mov(r16("cx"), imm(2)));
            code.push(mov(r16("bp"), imm(0x0302)));
            code.push(mov(r8("dl"), imm(1)));
            code.push(mov(r8("ah"), imm(0x13)));
            code.push(int(0x10));
        }),
    ];
    let ends: [(&str, fn(&mut Vec<Item>), &str); 8] = [
        ("divide error", |code| {
            code.push(mov(r8("bl"), imm(0)));
            code.push(Item::Ins(Instr::MulDiv(MulOp::Div, r8("bl"))));
            code.push(print(PrintKind::Reg));
        }, ""),
        ("unsupported AH of int 21h", |code| {
            code.push(mov(r8("ah"), imm(0x55)));
            code.push(int(0x21));
            code.push(print(PrintKind::Reg));
        }, ""),
        ("unsupported AH of int 10h", |code| {
            code.push(mov(r8("ah"), imm(0x77)));
            code.push(int(0x10));
            code.push(print(PrintKind::Reg));
        }, ""),
        ("hlt", |code| {
            code.push(z(ZeroOp::Hlt));
            code.push(print(PrintKind::Reg));
        }, ""),
        ("the end of the program", |_code| {}, ""),
        ("quit at a breakpoint prompt", |code| {
            code.push(int(3));
            code.push(print(PrintKind::Reg));
        }, "q\n"),
        ("end of input at a breakpoint prompt", |code| {
            code.push(int(3));
            code.push(print(PrintKind::Reg));
        }, ""),
        ("a reading service at end of input, then the end", |code| {
            code.push(mov(r8("ah"), imm(1)));
            code.push(int(0x21));
        }, ""),
    ];
    for (on, of) in outs.iter() {
        for (en, ef, stdin) in ends.iter() {
            for twice in [false, true] {
                let mut code = vec![label("start")];
                if twice {
                    // an earlier print statement (a flush point) must not make a difference
                    code.push(print(PrintKind::Flags));
                }
                of(&mut code);
                ef(&mut code);
                let lines: Vec<String> = stdin.lines().map(|l| l.to_string()).collect();
                v.push(Case { site: "service output, then the run ends".into(), prog: Program { data: vec![], code }, stdin_lines: lines, stdin_raw: stdin.to_string(), note: format!("{} then {}{}", on, en, if twice { " (after a print statement)" } else { "" }) });
            }
        }
    }
    v
}

/// more input than any buffer holds at once: a loop reads 130 lines of 100 characters through INT 21h/01 (and,
/// second program, through INT 21h/0Ah) and echoes what it got; every line must be consumed whole, wherever a
/// buffer boundary (4 096, 8 192, 65 536 bytes) falls inside it
fn long_input() -> Vec<Case> {
    let mut v = Vec::new();
    let n = 130usize;
    let mut lines: Vec<String> = Vec::new();
    for k in 0..n {
        let first = (b'A' + (k % 26) as u8) as char;
        let rest: String = ".,:-_".chars().cycle().skip(k % 5).take(99).collect();
        lines.push(format!("{}{}", first, rest));
    }
    let raw: String = lines.iter().map(|l| format!("{}\n", l)).collect();
    // INT 21h/01 + echo
    let code = vec![
        label("start"),
        mov(r16("cx"), imm(n as i32)),
        label("again"),
        mov(r8("ah"), imm(1)),
        int(0x21),
        mov(r8("dl"), r8("al")),
        mov(r8("ah"), imm(2)),
        int(0x21),
        jmp("loop", "again"),
        print(PrintKind::Reg),
    ];
    v.push(Case { site: "long input".into(), prog: Program { data: vec![], code }, stdin_lines: lines.clone(), stdin_raw: raw.clone(), note: format!("{} lines of 100 characters read by INT 21h/01 in a loop", n) });
    // INT 21h/0Ah into a 4-byte buffer + echo of the first stored character
    let code = vec![
        label("start"),
        mov(r16("cx"), imm(n as i32)),
        label("again"),
        mov(r16("dx"), imm(0x0300)),
        mov(direct(W::B, 0x0300), imm(4)),
        mov(r8("ah"), imm(0x0A)),
        int(0x21),
        mov(r8("dl"), direct(W::B, 0x0302)),
        mov(r8("ah"), imm(2)),
        int(0x21),
        jmp("loop", "again"),
        print(PrintKind::Reg),
        print(PrintKind::MemRange(0x0300, 0x0307)),
    ];
    v.push(Case { site: "long input".into(), prog: Program { data: vec![], code }, stdin_lines: lines, stdin_raw: raw, note: format!("{} lines of 100 characters read by INT 21h/0Ah in a loop", n) });
    v
}

pub fn run(tier: &Tier) -> i32 {
    let rep_o = Reporter::new("C18", tier.name());
    let c_o = Counters::default();
    let rep = &rep_o;
    let c = &c_o;
    ensure_bin();
    let mut cases = Vec::new();
    let mut groups: Vec<(&str, usize)> = Vec::new();
    let mut add = |name: &'static str, mut v: Vec<Case>, cases: &mut Vec<Case>, groups: &mut Vec<(&str, usize)>| {
        groups.push((name, v.len()));
        // every other program of a group runs its service with the interrupt, direction and carry flags set
        // (a service must leave the flag word alone whatever it holds); the unsupported-AH programs keep their
        // first-line placement
        if name != "unsupported_ah" {
            for (k, cs) in v.iter_mut().enumerate() {
                if k % 2 == 1 {
                    let at = cs.prog.code.iter().position(|i| matches!(i, Item::Label(l) if l == "start")).map(|p| p + 1).unwrap_or(0);
                    cs.prog.code.insert(at, z(ZeroOp::Stc));
                    cs.prog.code.insert(at, z(ZeroOp::Std));
                    cs.prog.code.insert(at, z(ZeroOp::Sti));
                    cs.note.push_str("; IF, DF and CF set beforehand");
                }
            }
        }
        cases.extend(v);
    };
    add("int21_02", int21_02(tier.thorough), &mut cases, &mut groups);
    add("int21_01", int21_01(), &mut cases, &mut groups);
    add("int21_0a", int21_0a(tier.thorough), &mut cases, &mut groups);
    add("int21_0a_utf8", int21_0a_utf8(), &mut cases, &mut groups);
    add("int10_0a", int10_0a(tier.thorough), &mut cases, &mut groups);
    add("int10_13", int10_13(tier.thorough), &mut cases, &mut groups);
    add("unsupported_ah", unsupported(), &mut cases, &mut groups);
    add("service_pairs", pairs(tier.thorough), &mut cases, &mut groups);
    add("output_then_end", output_then_end(), &mut cases, &mut groups);
    add("long_input", long_input(), &mut cases, &mut groups);
    let mb: HashMap<String, Vec<Item>> = HashMap::new();
    let out_bytes = AtomicU64::new(0);
    let unsup = AtomicU64::new(0);
    let dos_mode_used = AtomicU64::new(0);
    let pieces = AtomicU64::new(0);
    cases.par_iter().for_each(|cs| {
        let src = render(&cs.prog);
        // the output cap must hold 65535 characters plus the dumps
        let (rr, out, mut res) = cli_conformance_raw(&src, &cs.prog, &mb, &cs.stdin_lines, &cs.stdin_raw, false, 5000, false, false);
        if res.is_some() && cs.site.contains("0a") {
            // the DOS-style encoding of the buffered-input service is admissible as well
            let (_, _, res2) = cli_conformance_raw(&src, &cs.prog, &mb, &cs.stdin_lines, &cs.stdin_raw, false, 5000, true, false);
            if res2.is_none() {
                res = None;
                dos_mode_used.fetch_add(1, Ordering::Relaxed);
            }
        }
        c.add_exec(1);
        for e in rr.events.iter() {
            match e {
                crate::refprog::Ev::Out(b) => {
                    out_bytes.fetch_add(b.len() as u64, Ordering::Relaxed);
                }
                crate::refprog::Ev::Unsupported { .. } => {
                    unsup.fetch_add(1, Ordering::Relaxed);
                }
                _ => {}
            }
        }
        c.outcome(&format!("{:?}/{}", rr.stop, if res.is_none() { "conforms" } else { "differs" }));
        // the same input delivered in pieces (a few bytes at a time with pauses): the content of the standard input
        // is the same, so the output must be the same byte for byte
        if res.is_none() && !cs.stdin_raw.is_empty() && (cs.site.contains("ah=01") || cs.site.starts_with("service p") || cs.site == "long input") {
            let mut o = CliOpts::default();
            o.stdin_pieces = Some(if cs.stdin_raw.len() > 1000 { (997, 2) } else { (2, 3) });
            o.timeout_ms = 20_000;
            let again = run_cli(&src, &cs.stdin_raw, &o);
            pieces.fetch_add(1, Ordering::Relaxed);
            c.add_exec(1);
            if again.stdout != out.stdout || again.abnormal().is_some() {
                rep.report(Viol { site: cs.site.clone(), field: "input-delivery".into(), vars: vec![], got_val: None, expected: format!("the output of the run whose input arrived at once: {}", clip_text(&out.out(), 500)), got: format!("input delivered in pieces: {}", clip_text(&again.summary(), 700)), case: json!({"src": src, "stdin": cs.stdin_raw, "interpreted": false, "delivery": "in pieces"}), weight: src.len() as u64 });
            }
        }
        report_cli(rep, &cs.site, res, &src, &cs.stdin_lines, false, &out, json!({"what": cs.note, "stdin_raw": cs.stdin_raw}));
    });
    // the reading services with a standard input on which every read FAILS (a directory): the run must still end
    // normally (what the registers hold afterwards is not documented and not judged)
    let unreadable = AtomicU64::new(0);
    {
        let mut seen = std::collections::HashSet::new();
        let srcs: Vec<String> = cases.iter().filter(|cs| cs.site.contains("ah=01") || cs.site.contains("ah=0a") || cs.site.starts_with("service")).map(|cs| render(&cs.prog)).filter(|s| seen.insert(s.clone())).collect();
        srcs.par_iter().for_each(|src| {
            let mut o = CliOpts { cap: 4 << 20, ..Default::default() };
            o.stdin_unreadable = true;
            let out = run_cli(src, "", &o);
            unreadable.fetch_add(1, Ordering::Relaxed);
            c.add_exec(1);
            if let Some(a) = out.abnormal() {
                rep.report(Viol { site: "reading service / unreadable stdin".into(), field: "exit".into(), vars: vec![], got_val: None, expected: "normal termination although every read of the standard input fails".into(), got: format!("{}: {}", a, clip_text(&out.summary(), 800)), case: json!({"src": src, "stdin": "<a directory>", "interpreted": false}), weight: src.len() as u64 });
            }
        });
    }
    for cs in cases.iter().step_by(cases.len() / 10 + 1) {
        let src = render(&cs.prog);
        let shown: String = src.lines().filter(|l| !l.starts_with("db ")).collect::<Vec<_>>().join("\n");
        c.sample(json!({"site": cs.site, "note": cs.note, "source_without_db_lines": shown, "stdin_raw": cs.stdin_raw}));
    }
    // the written form of a character must not depend on its neighbours: a byte value seen both raw and
    // UTF-8 encoded is a violation (either form alone is accepted)
    {
        let g = crate::cliobs::HIGH_BYTE_ENCODINGS.lock().unwrap();
        let both: Vec<String> = (0x80..256usize).filter(|k| g[*k] == 3).map(|k| format!("0x{:02X}", k)).collect();
        if !both.is_empty() {
            rep.report(Viol { site: "character output".into(), field: "encoding".into(), vars: vec![], got_val: None, expected: "a byte of 0x80 or more is always written in the same form (raw, or the UTF-8 encoding of the same code point)".into(), got: format!("written raw in one place and UTF-8 encoded in another: {}", both.join(" ")), case: json!({"bytes": both}), weight: 0 });
        }
    }
    c.states.fetch_add(cases.len() as u64, Ordering::Relaxed);
    if (out_bytes.load(Ordering::Relaxed) < 10_000 || unsup.load(Ordering::Relaxed) < 500) && rep.unknown_count() == 0 {
        eprintln!("MACHINERY: C18 explored too little (service output bytes {}, unsupported {})", out_bytes.load(Ordering::Relaxed), unsup.load(Ordering::Relaxed));
        return 2;
    }
    let mut cov = Coverage::default();
    cov.exhaustive = true;
    cov.rule = "every run is the real binary with a scripted stdin (pipe closed after the script). INT 21h/02: all 256 DL values x 2 prior AL. INT 21h/01: 20 stdin shapes (closed, empty line, lines with white space at either end / of white space only, empty line(s) followed by a line, short, exactly capacity, longer, no trailing newline, two lines, 300 characters, UTF-8) x 2 prior AL, followed by a second read and an echo. INT 21h/0Ah: 5 buffer placements (low, offset wrap at 16 bits, crossing 2^20, ending exactly at 0xFFFFF, header split by the wrap) x capacities {0,1,2,5,16,255} (thorough: all 256) x the stdin shapes, the buffer surrounded by 0xEE markers; plus a line of 1-, 2-, 3- and 4-byte characters cut by every capacity 0..length+1 (the cut falls inside a character). INT 10h/0Ah: AL x CX lattice (thorough: all 256 AL x 15 CX up to 65535) and, for one character, EVERY count 0..330 plus the multiples of the usual line widths up to 4000. INT 10h/13h: 6 (ES,BP) placements incl. text whose high bytes form well-formed UTF-8, strings crossing 2^20 and BP+i wrapping at 16 bits x DL x CX (thorough: all 256 DL x 12 CX up to 65535), every start column 0..255 with a short string and every length 0..200 at two columns. Every AH value 0..255 other than the supported ones for both interrupts, at the first / a middle / the last line. All 25 ordered pairs of services x 5 stdin scripts (thorough: all 125 ordered triples x 5 scripts). After each service the program prints all registers, the flags, the marker window around the buffer, the first 48 and the last 48 bytes of memory; service output is matched byte for byte and every printed field against the reference state. Service output followed directly by whatever ends the run (divide error, unsupported AH of either interrupt, hlt, the end of the program, quit / end of input at a breakpoint prompt, a reading service at end of input), 3 writing services x 8 endings x with / without an earlier print statement: what the service wrote must precede the ending's message. Long input: 130 lines of 100 characters (13 KB, more than any buffer holds) read in a loop by INT 21h/01 and by INT 21h/0Ah, every line echoed. Every conforming run of INT 21h/01, of the service pairs and of the long-input programs is repeated with the same standard input delivered in pieces (2 bytes every 3 ms; 997 bytes every 2 ms for the long input) and must produce the same output byte for byte. Every distinct program that reads input also runs once with a standard input on which every read fails and must end normally".into();
    cov.bounds = json!({"groups": groups.iter().map(|(n, k)| json!({"group": n, "runs": k})).collect::<Vec<_>>(), "service_output_bytes_matched": out_bytes.load(Ordering::Relaxed), "unsupported_reports_checked": unsup.load(Ordering::Relaxed), "cases_conforming_only_in_dos_encoding": dos_mode_used.load(Ordering::Relaxed), "programs_run_with_unreadable_stdin": unreadable.load(Ordering::Relaxed), "runs_repeated_with_input_delivered_in_pieces": pieces.load(Ordering::Relaxed), "tier": tier.name()});
    cov.assumptions = common_assumptions();
    cov.assumptions.push("characters >= 0x80 may be written as the raw byte or as the UTF-8 encoding of the same code point".into());
    cov.assumptions.push("INT 21h/0Ah: the line terminator is not part of the line; admissible encodings: count = min(length, capacity) with exactly those bytes stored, or the DOS encoding (capacity includes an uncounted carriage return stored after the text); anything else, and any change outside the buffer, is a violation. INT 21h/01h on an empty line returns the newline character, at end of input 0".into());
    cov.assumptions.push("memory effects are observed through print windows (marker area around the buffer, first and last 48 bytes); a stray write elsewhere in the 1 MB is outside what this CLI-level check can see (the services live in the binary crate and cannot be called in-process)".into());
    cov.assumptions.push("stdin that is not valid UTF-8 is not enumerated".into());
    cov.cli_runs = CLI_RUNS.load(Ordering::Relaxed);
    cov.distinct_nontrivial = cases.len() as u64;
    let cov = finish_cov(c, cov);
    rep.finish(cov)
}
