//! Replay of a recorded violation on the real code, without any explorer.

use crate::engine::*;
use crate::mach::*;
use crate::pipe::*;
use serde_json::Value;

fn hex(v: &Value) -> u16 {
    let s = v.as_str().unwrap_or("0x0");
    u16::from_str_radix(s.trim_start_matches("0x"), 16).unwrap_or(0)
}

pub fn replay(_id: &str, path: &str) -> i32 {
    let txt = match std::fs::read_to_string(path) {
        Ok(t) => t,
        Err(e) => {
            eprintln!("cannot read {}: {}", path, e);
            return 2;
        }
    };
    let v: Value = serde_json::from_str(&txt).expect("json");
    let case = &v["case"];
    println!("property {} site {} field {}", v["property"], v["site"], v["field"]);
    println!("expected: {}", v["expected"]);
    println!("recorded: {}", v["got"]);
    if case.get("direct").is_some() {
        return crate::direct::replay(case);
    }
    if let (Some(src), Some(line), Some(idx)) = (case["src"].as_str(), case["line"].as_str(), case["idx"].as_u64()) {
        if case.get("regs").is_none() {
            println!("(case has no machine state; source follows)\n{}", src);
            return 0;
        }
        let _ = (line, idx);
    }
    if let (Some(src), Some(stdin)) = (case["src"].as_str(), case["stdin"].as_str()) {
        // CLI case: run the real binary on the recorded source and stdin script, show what it prints
        crate::cli::ensure_bin();
        let mut o = crate::cli::CliOpts::default();
        o.interpreted = case["interpreted"].as_bool().unwrap_or(false);
        o.order = case["order"].as_u64();
        let out = crate::cli::run_cli(src, stdin, &o);
        println!("source:\n{}\nstdin script: {:?}  interpreted: {}", src, stdin, o.interpreted);
        println!("observed now: {}", out.summary());
        println!("stdout in full:\n{}", out.out());
        return 0;
    }
    if let (Some(src), Some(line), Some(idx)) = (case["src"].as_str(), case["line"].as_str(), case["idx"].as_u64()) {
        let asm = match assemble(src) {
            Ok(a) => a,
            Err(e) => {
                println!("assemble: {:?}", e);
                return 1;
            }
        };
        let mut ictx = asm.ictx();
        if let Some(cs) = case["call_stack"].as_array() {
            for x in cs {
                ictx.call_stack.push(x.as_u64().unwrap() as _);
            }
        }
        let mut vm = emulator_8086_lib::VM::new();
        let bg = case["mem_bg"].as_u64().unwrap_or(0) as u8;
        if bg != 0 {
            for b in vm.mem.iter_mut() {
                *b = bg;
            }
        }
        let mut r = Regs::default();
        for n in REG_NAMES.iter() {
            r.set(n, hex(&case["regs"][*n]));
        }
        r.to_vm(&mut vm);
        if let Some(cells) = case["mem"].as_array() {
            for c in cells {
                vm.mem[c[0].as_u64().unwrap() as usize] = c[1].as_u64().unwrap() as u8;
            }
        }
        let code_line = if (idx as usize) < asm.code.len() { asm.code[idx as usize].clone() } else { line.to_string() };
        println!("source:\n{}emitted line [{}]: {}", src, idx, code_line);
        println!("pre : {}", r.json());
        let m = Machine::new();
        let (e, n) = m.exec_repeat(idx as usize, &mut vm, &mut ictx, &code_line, r.cx as usize + 3);
        println!("exec: {:?} after {} call(s)", e, n);
        println!("post: {}", Regs::from_vm(&vm).json());
        return 0;
    }
    println!("case: {}", serde_json::to_string_pretty(case).unwrap());
    0
}
