//! C05 — MOV/XCHG/PUSH/POP/PUSHF/POPF/LAHF/SAHF/XLAT move exactly the operand; the stack stays sound.

use super::common::*;
use crate::alu::*;
use crate::ast::*;
use crate::engine::*;
use crate::explore::*;
use crate::findings::*;
use crate::lattice::*;
use crate::mach::*;
use crate::refexec::*;
use rayon::prelude::*;
use serde_json::json;
use std::sync::atomic::{AtomicU64, Ordering};

fn forms(thorough: bool) -> Vec<Instr> {
    let disps: Vec<i32> = if thorough { vec![2, -2, 0x7FFF, -0x8000] } else { vec![2, -3] };
    let mems = mem_forms(&disps);
    let lb = Opnd::Label(W::B, "bv".into());
    let lw = Opnd::Label(W::W, "wv".into());
    let mut out = Vec::new();
    // MOV: 22 forms
    for (a, b) in [(0, 3), (0, 4), (4, 0), (7, 5), (1, 1)] {
        out.push(Instr::Mov(Opnd::R8(a), Opnd::R8(b)));
    }
    for a in 0..8 {
        for b in [R_AX, R_BX, R_SP, R_SI] {
            out.push(Instr::Mov(Opnd::R16(a), Opnd::R16(b)));
        }
        out.push(Instr::Mov(Opnd::R16(a), Opnd::Imm(0)));
        out.push(Instr::Mov(Opnd::R8(a), Opnd::Imm(0)));
        out.push(Instr::Mov(Opnd::R16(a), lw.clone()));
        out.push(Instr::Mov(lw.clone(), Opnd::R16(a)));
        out.push(Instr::Mov(Opnd::R8(a), lb.clone()));
        out.push(Instr::Mov(lb.clone(), Opnd::R8(a)));
        for s in 0..4 {
            out.push(Instr::Mov(Opnd::Seg(s), Opnd::R16(a)));
            out.push(Instr::Mov(Opnd::R16(a), Opnd::Seg(s)));
        }
        out.push(Instr::Xchg(Opnd::R16(a), Opnd::R16((a + 3) % 8)));
        out.push(Instr::Xchg(Opnd::R16(a), Opnd::R16(a)));
        out.push(Instr::Xchg(Opnd::R8(a), Opnd::R8((a + 5) % 8)));
        out.push(Instr::Xchg(Opnd::R8(a), lb.clone()));
        out.push(Instr::Xchg(lb.clone(), Opnd::R8(a)));
        out.push(Instr::Xchg(Opnd::R16(a), lw.clone()));
        out.push(Instr::Xchg(lw.clone(), Opnd::R16(a)));
        if a != R_SP {
            out.push(Instr::Push(Opnd::R16(a)));
            out.push(Instr::Pop(Opnd::R16(a)));
        }
    }
    out.push(Instr::Mov(lb.clone(), Opnd::Imm(0)));
    out.push(Instr::Mov(lw.clone(), Opnd::Imm(0)));
    for s in 0..4 {
        out.push(Instr::Mov(Opnd::Seg(s), lw.clone()));
        out.push(Instr::Mov(lw.clone(), Opnd::Seg(s)));
        out.push(Instr::Push(Opnd::Seg(s)));
        if s != SEG_CS {
            out.push(Instr::Pop(Opnd::Seg(s)));
        }
    }
    out.push(Instr::Push(lw.clone()));
    out.push(Instr::Pop(lw.clone()));
    for (k, m) in mems.iter().enumerate() {
        let r8 = [0usize, 7, 1, 6][k % 4];
        let r16 = [R_AX, R_BX, R_SI, R_DX, R_BP][k % 5];
        out.push(Instr::Mov(Opnd::R8(r8), Opnd::Mem(W::B, *m)));
        out.push(Instr::Mov(Opnd::R16(r16), Opnd::Mem(W::W, *m)));
        out.push(Instr::Mov(Opnd::Mem(W::B, *m), Opnd::R8(r8)));
        out.push(Instr::Mov(Opnd::Mem(W::W, *m), Opnd::R16(r16)));
        out.push(Instr::Mov(Opnd::Mem(W::B, *m), Opnd::Imm(0)));
        out.push(Instr::Mov(Opnd::Mem(W::W, *m), Opnd::Imm(0)));
        out.push(Instr::Mov(Opnd::Seg(k % 4), Opnd::Mem(W::W, *m)));
        out.push(Instr::Mov(Opnd::Mem(W::W, *m), Opnd::Seg(k % 4)));
        out.push(Instr::Xchg(Opnd::Mem(W::B, *m), Opnd::R8(r8)));
        out.push(Instr::Xchg(Opnd::R8(r8), Opnd::Mem(W::B, *m)));
        out.push(Instr::Xchg(Opnd::Mem(W::W, *m), Opnd::R16(r16)));
        out.push(Instr::Xchg(Opnd::R16(r16), Opnd::Mem(W::W, *m)));
        out.push(Instr::Push(Opnd::Mem(W::W, *m)));
        out.push(Instr::Pop(Opnd::Mem(W::W, *m)));
    }
    for z in [ZeroOp::Lahf, ZeroOp::Sahf, ZeroOp::Pushf, ZeroOp::Popf, ZeroOp::Xlat] {
        out.push(Instr::Zero(z));
    }
    out
}

const SPS: [u16; 6] = [0, 1, 2, 0xFFFE, 0xFFFF, 0x0100];

fn sweep_forms(rep: &Reporter, c: &Counters, fs: &[Instr], thorough: bool) {
    let bvals: Vec<u32> = vec![0, 1, 0x7F, 0x80, 0xFF, 0x5A];
    let wvals: Vec<u32> = vec![0, 1, 0x00FF, 0x0100, 0x7FFF, 0x8000, 0xFFFF, 0x5AA5];
    let flagws: [u16; 3] = [0xF000, 0x0FD5, 0xFFFF];
    fs.par_iter().for_each(|i| {
        with_worker(|wk| {
            let ops = i.operands();
            let w = ops.get(0).and_then(|o| o.width()).or(ops.get(1).and_then(|o| o.width())).unwrap_or(W::W);
            let vals: &Vec<u32> = if w == W::B { &bvals } else { &wvals };
            let site = i.shape();
            let has_imm = matches!(i, Instr::Mov(_, Opnd::Imm(_)));
            let stack_op = matches!(i, Instr::Push(_) | Instr::Pop(_) | Instr::Zero(ZeroOp::Pushf) | Instr::Zero(ZeroOp::Popf));
            let mut prepared: Option<Prepared> = None;
            let bset: Vec<u32> = if ops.len() < 2 { vec![0x1234] } else { vals.clone() };
            for (bi, b) in bset.iter().enumerate() {
                let ins = match i {
                    Instr::Mov(d, Opnd::Imm(_)) => Instr::Mov(d.clone(), Opnd::Imm(*b as i32)),
                    _ => i.clone(),
                };
                if prepared.is_none() || has_imm {
                    prepared = match prepare(&ins) {
                        Ok(p) => Some(p),
                        Err(e) => {
                            c.block(format!("{}: {:?}", site, e));
                            return;
                        }
                    };
                }
                let p = prepared.as_mut().unwrap();
                let avals: Vec<u32> = if ops.is_empty() { vec![0, 1, 0x007F, 0x00FF, 0x80D5, 0xFFFF, 0x2A10] } else { vals.clone() };
                for (ai, a) in avals.iter().enumerate() {
                    let f = flagws[(ai + bi) % 3];
                    let stack_states: Vec<(u16, u16)> = if stack_op {
                        let mut v = Vec::new();
                        for sp in SPS {
                            for ss in S6 {
                                if thorough || (sp as usize + ss as usize + ai) % 2 == 0 {
                                    v.push((ss, sp));
                                }
                            }
                        }
                        v
                    } else {
                        vec![(0x3210, 0x0100)]
                    };
                    for (ss, sp) in stack_states {
                        let mut pre = RefM { r: Regs::distinct((*a as u16).wrapping_mul(3)), m: SMem::new(0), call_stack: vec![] };
                        pre.r.flag = f;
                        pre.r.ss = ss;
                        pre.r.sp = sp;
                        if ops.is_empty() {
                            pre.r.ax = *a as u16;
                        }
                        // operand values (registers first, then memory)
                        let vs = [*a, *b];
                        for k in (0..ops.len()).rev() {
                            match ops[k] {
                                Opnd::R8(r) => pre.r.set8(*r, vs[k] as u8),
                                Opnd::R16(r) if !(stack_op && *r == R_SP) => pre.r.set16(*r, vs[k] as u16),
                                Opnd::Seg(x) if !(stack_op && *x == SEG_SS) => pre.r.setseg(*x, vs[k] as u16),
                                _ => {}
                            }
                        }
                        for k in (0..ops.len()).rev() {
                            if let Some(addr) = opnd_addr(ops[k], &pre.r, &p.dc) {
                                match ops[k].width().unwrap() {
                                    W::B => pre.m.set(addr, vs[k] as u8),
                                    W::W => pre.m.set16(addr, vs[k] as u16),
                                }
                            }
                        }
                        // a word on top of the stack for POP/POPF
                        if matches!(ins, Instr::Pop(_) | Instr::Zero(ZeroOp::Popf)) {
                            let ta = phys(pre.r.ss, pre.r.sp);
                            let v = (*a as u16) ^ 0xA55A;
                            // do not disturb a memory destination placed at the same cells
                            if !pre.m.cells.contains_key(&ta) && !pre.m.cells.contains_key(&((ta + 1) & 0xFFFFF)) {
                                pre.m.set16(ta, v);
                            }
                        }
                        if ins == Instr::Zero(ZeroOp::Xlat) {
                            for (bx, ds) in [(0u16, 0u16), (0xFFFF, 0xFFFF), (0x8000, 0x1000), (0xFFF0, 0xF000), (1, 0x0FFF)] {
                                let mut q = pre.clone();
                                q.r.bx = bx;
                                q.r.ds = ds;
                                let al = (*a & 0xFF) as u16;
                                q.r.ax = (q.r.ax & 0xFF00) | al;
                                q.m.set(phys(ds, bx.wrapping_add(al)), 0x6B);
                                // decoy at the unwrapped address
                                let un = ((ds as u32) * 16 + bx as u32 + al as u32) & 0xFFFFF;
                                if un != phys(ds, bx.wrapping_add(al)) {
                                    q.m.set(un, 0xC1);
                                }
                                wk.case(rep, c, p, &q, &site, &[("a", *a as i64)], *a as u64, true);
                            }
                            continue;
                        }
                        wk.case(
                            rep,
                            c,
                            p,
                            &pre,
                            &site,
                            &[("a", *a as i64), ("b", *b as i64), ("w", w.bits() as i64)],
                            (*a + *b) as u64 + sp as u64,
                            true,
                        );
                    }
                }
            }
            c.shapes.fetch_add(1, Ordering::Relaxed);
            wk.flush(c);
            if let Some(p) = prepared.as_ref() {
                c.sample(json!({"source_line": render_instr(&p.instr), "emitted": p.line, "shape": site}));
            }
        })
    });
}

/// push/pop histories: explicit-state search on the product of the real machine and the reference
fn histories(rep: &Reporter, c: &Counters, depth: usize) -> BfsStats {
    let lw = Opnd::Label(W::W, "wv".into());
    let events: Vec<Instr> = vec![
        Instr::Push(Opnd::R16(R_AX)),
        Instr::Push(Opnd::R16(R_BX)),
        Instr::Push(Opnd::Seg(SEG_DS)),
        Instr::Push(Opnd::Seg(SEG_CS)),
        Instr::Push(lw.clone()),
        Instr::Zero(ZeroOp::Pushf),
        Instr::Pop(Opnd::R16(R_AX)),
        Instr::Pop(Opnd::R16(R_BX)),
        Instr::Pop(lw.clone()),
        Instr::Zero(ZeroOp::Popf),
        Instr::Push(Opnd::Mem(W::W, Mem { seg: None, form: MemForm::Reg(R_BX) })),
        Instr::Pop(Opnd::Mem(W::W, Mem { seg: Some(SEG_ES), form: MemForm::Direct(0x0040) })),
    ];
    let mut inits = Vec::new();
    for ss in [0u16, 0x0FFF, 0xF000, 0xFFFF] {
        for sp in SPS {
            let mut s = RefM { r: Regs::default(), m: SMem::new(0), call_stack: vec![] };
            s.r.ss = ss;
            s.r.sp = sp;
            s.r.ax = 0x1111;
            s.r.bx = 0x0020;
            s.r.ds = 0x0200;
            s.r.cs = 0x4444;
            s.r.es = 0x0300;
            s.r.flag = 0xF0D5;
            s.m.set16(phys(0x0200, crate::engine::WV_OFF), 0x7777);
            inits.push(s);
        }
    }
    let execs = AtomicU64::new(0);
    let st = bfs(
        inits,
        events.len(),
        depth,
        50_000_000,
        |s: &RefM, e: usize, path: &[usize]| {
            with_worker(|wk| {
                let i = &events[e];
                let mut p = match wk.take_prepared(i) {
                    Ok(p) => p,
                    Err(er) => {
                        c.block(format!("{}: {:?}", i.shape(), er));
                        return None;
                    }
                };
                let site = format!("history {}", i.shape());
                let obs = diff_step(&mut wk.bench, &wk.m, &mut p, s, true);
                execs.fetch_add(1, Ordering::Relaxed);
                if !obs.mismatches.is_empty() {
                    let trail: Vec<String> = path.iter().map(|k| render_instr(&events[*k])).collect();
                    for mm in obs.mismatches.iter() {
                        rep.report(Viol {
                            site: site.clone(),
                            field: mm.field.clone(),
                            vars: std_vars(s, &[("depth", path.len() as i64)]),
                            got_val: mm.got_val,
                            expected: mm.expected.clone(),
                            got: mm.got.clone(),
                            case: {
                                let mut cj = case_json(&p, s);
                                cj["history"] = json!(trail);
                                cj
                            },
                            weight: path.len() as u64,
                        });
                    }
                }
                let rs = step(i, s, &p.dc, p.idx);
                wk.put_prepared(p);
                Some(rs.post)
            })
        },
        |s: &RefM| (s.r, s.m.canon()),
    );
    c.add_exec(execs.load(Ordering::Relaxed));
    c.states.fetch_add(st.states, Ordering::Relaxed);
    c.sample(json!({"history_events": events.iter().map(render_instr).collect::<Vec<_>>(), "initial_states": 24, "depth": depth, "states_per_depth": st.per_depth}));
    st
}

/// the singletons over their whole value range: XLAT for every AL, SAHF for every AH, LAHF / PUSHF for
/// every flag word, POPF for every popped word
fn sweep_singletons(rep: &Reporter, c: &Counters) {
    let jobs: Vec<ZeroOp> = vec![ZeroOp::Xlat, ZeroOp::Sahf, ZeroOp::Lahf, ZeroOp::Pushf, ZeroOp::Popf];
    jobs.par_iter().for_each(|zop| {
        let i = Instr::Zero(*zop);
        let site = i.shape();
        let n: u32 = match zop {
            ZeroOp::Xlat => 256 * 6,
            ZeroOp::Sahf => 256 * 4,
            _ => 65536,
        };
        let chunks: Vec<u32> = (0..n).step_by(2048).collect();
        chunks.par_iter().for_each(|lo| {
            with_worker(|wk| {
                let mut p = match prepare(&i) {
                    Ok(p) => p,
                    Err(e) => {
                        c.block(format!("{}: {:?}", site, e));
                        return;
                    }
                };
                for k in *lo..(*lo + 2048).min(n) {
                    let mut pre = RefM { r: Regs::distinct(0x17), m: SMem::new(0), call_stack: vec![] };
                    pre.r.flag = 0xF000;
                    pre.r.ss = 0x0300;
                    pre.r.sp = 0x0080;
                    pre.r.ds = 0x0100;
                    match zop {
                        ZeroOp::Xlat => {
                            let al = k & 0xFF;
                            let bx = [0x0000u16, 0x0040, 0xFF00, 0xFF80, 0xFFFF, 0x1234][(k >> 8) as usize];
                            pre.r.bx = bx;
                            pre.r.ax = 0x7700 | al as u16;
                            // a table of distinct bytes around the reference address, decoys elsewhere
                            let off = bx.wrapping_add(al as u16);
                            pre.m.set(phys(0x0100, off), (al as u8) ^ 0xA5);
                            pre.m.set(phys(0x0100, off.wrapping_sub(256)), 0x11);
                            pre.m.set((0x1000 + bx as u32 + al) & 0xFFFFF, 0x22);
                        }
                        ZeroOp::Sahf => {
                            pre.r.ax = ((k & 0xFF) << 8) as u16 | 0x5A;
                            pre.r.flag = [0xF000u16, 0xFFFF, 0x0AD5, 0xF801][(k >> 8) as usize];
                        }
                        ZeroOp::Lahf | ZeroOp::Pushf => pre.r.flag = k as u16,
                        ZeroOp::Popf => {
                            pre.m.set16(phys(0x0300, 0x0080), k as u16);
                            pre.r.flag = if k & 1 == 0 { 0xF000 } else { 0xFFFF };
                        }
                        _ => {}
                    }
                    wk.case(rep, c, &mut p, &pre, &site, &[("k", k as i64)], k as u64, true);
                }
                wk.flush(c);
            })
        });
    });
}

/// PUSH / POP of a memory operand that overlaps the stack slot it is pushed to / popped from:
/// the operand is read completely before anything is written
fn sweep_overlap(rep: &Reporter, c: &Counters) {
    let mems: Vec<(Mem, usize)> = vec![
        (Mem { seg: None, form: MemForm::Reg(R_BX) }, R_BX),
        (Mem { seg: Some(SEG_SS), form: MemForm::Reg(R_SI) }, R_SI),
        (Mem { seg: None, form: MemForm::RegDisp(R_BP, -1) }, R_BP),
        (Mem { seg: None, form: MemForm::RegDisp(R_BP, 3) }, R_BP),
    ];
    let mut is: Vec<(Instr, Mem, usize, bool)> = Vec::new();
    for (m, r) in mems.iter() {
        is.push((Instr::Push(Opnd::Mem(W::W, *m)), *m, *r, true));
        is.push((Instr::Pop(Opnd::Mem(W::W, *m)), *m, *r, false));
    }
    is.par_iter().for_each(|(i, m, reg, is_push)| {
        with_worker(|wk| {
            let site = i.shape();
            let mut p = match prepare(i) {
                Ok(p) => p,
                Err(e) => {
                    c.block(format!("{}: {:?}", site, e));
                    return;
                }
            };
            // one segment for data and stack, so that offsets decide the overlap
            for seg in [0x0000u16, 0x0234, 0xFFFF] {
                for sp in [0x0100u16, 0x0002, 0x0001, 0xFFFF] {
                    for delta in -4i32..=4 {
                        // offset of the operand relative to the stack pointer before the instruction
                        let disp = match m.form {
                            MemForm::RegDisp(_, d) => d,
                            _ => 0,
                        };
                        let off = (sp as i32 + delta) as u16;
                        let mut pre = RefM { r: Regs::distinct(0x3D), m: SMem::new(0), call_stack: vec![] };
                        pre.r.flag = 0xF046;
                        pre.r.ss = seg;
                        pre.r.ds = seg;
                        pre.r.es = seg ^ 0x0101;
                        pre.r.sp = sp;
                        pre.r.set16(*reg, off.wrapping_sub(disp as u16));
                        // distinct bytes all around the stack pointer
                        for k in -8i32..=8 {
                            let a = phys(seg, (sp as i32 + k) as u16);
                            pre.m.set(a, (0x40 + k + 8) as u8 | 0x80);
                        }
                        let _ = is_push;
                        wk.case(rep, c, &mut p, &pre, &site, &[("delta", delta as i64), ("segv", seg as i64)], (delta.unsigned_abs() + 10) as u64, true);
                    }
                }
            }
            c.shapes.fetch_add(1, Ordering::Relaxed);
            wk.flush(c);
        })
    });
}

/// the same push/pop sequences end-to-end as source programs: PUSH x; POP y leaves y = x, SP restored
fn roundtrips(rep: &Reporter, c: &Counters) {
    let srcs: Vec<(&str, &str)> = vec![
        ("push ax", "pop bx"),
        ("push bx", "pop word wv"),
        ("push word wv", "pop cx"),
        ("push ds", "pop es"),
        ("push cs", "pop dx"),
        ("push word [bx]", "pop word [si]"),
        ("push word es[bx, si, 2]", "pop word ss[bp]"),
        ("pushf", "pop ax"),
        ("push dx", "popf"),
        ("push si", "pop di"),
    ];
    srcs.par_iter().for_each(|(pu, po)| {
        let src = format!("db [3]\nbv: db 0\ndb [2]\nwv: dw 0x1357\nstart:\n{}\n{}\n", pu, po);
        let asm = match crate::pipe::assemble(&src) {
            Ok(a) => a,
            Err(e) => {
                rep.report(Viol {
                    site: format!("roundtrip {} ; {}", pu, po),
                    field: "state".into(),
                    vars: vec![],
                    got_val: None,
                    expected: "assembles and runs".into(),
                    got: format!("{:?}", e),
                    case: json!({"src": src}),
                    weight: 0,
                });
                return;
            }
        };
        for (ss, sp) in [(0u16, 0x100u16), (0xFFFF, 0), (0x1000, 1), (0xF000, 0xFFFF)] {
            let mut vm = emulator_8086_lib::VM::new();
            let mut ictx = asm.ictx();
            let m = crate::pipe::Machine::new();
            let mut r = Regs::distinct(9);
            r.ss = ss;
            r.sp = sp;
            r.ds = 0x0200;
            r.flag = 0xF0D5;
            r.to_vm(&mut vm);
            let a = phys(0x0200, WV_OFF) as usize;
            vm.mem[a] = 0x57;
            vm.mem[a + 1] = 0x13;
            let bxa = phys(0x0200, r.bx) as usize;
            vm.mem[bxa] = 0x9A;
            vm.mem[(bxa + 1) & 0xFFFFF] = 0xBC;
            let before = Regs::from_vm(&vm);
            let mut ok = true;
            let mut got = String::new();
            for k in 0..2 {
                match m.exec(k, &mut vm, &mut ictx, &asm.code[k]) {
                    crate::pipe::Exec::Ok(crate::pipe::St::Next) => {}
                    e => {
                        ok = false;
                        got = format!("line {:?}: {:?}", asm.code[k], e);
                        break;
                    }
                }
            }
            c.add_exec(2);
            let after = Regs::from_vm(&vm);
            if ok && after.sp != before.sp {
                ok = false;
                got = format!("SP 0x{:04X} -> 0x{:04X}", before.sp, after.sp);
            }
            if ok {
                // value law
                let x: u16 = match *pu {
                    "push ax" => before.ax,
                    "push bx" => before.bx,
                    "push word wv" => 0x1357,
                    "push ds" => before.ds,
                    "push cs" => before.cs,
                    "push word [bx]" => 0xBC9A,
                    "pushf" => before.flag,
                    "push dx" => before.dx,
                    "push si" => before.si,
                    _ => {
                        let a = phys(before.es, before.bx.wrapping_add(before.si).wrapping_add(2)) as usize;
                        vm.mem[a] as u16 | (vm.mem[(a + 1) & 0xFFFFF] as u16) << 8
                    }
                };
                let rd = |a: u32| -> u16 { vm.mem[a as usize] as u16 | (vm.mem[((a + 1) & 0xFFFFF) as usize] as u16) << 8 };
                let y: u16 = match *po {
                    "pop bx" => after.bx,
                    "pop word wv" => rd(phys(before.ds, WV_OFF)),
                    "pop cx" => after.cx,
                    "pop es" => after.es,
                    "pop dx" => after.dx,
                    "pop word [si]" => rd(phys(before.ds, before.si)),
                    "pop word ss[bp]" => rd(phys(before.ss, before.bp)),
                    "pop ax" => after.ax,
                    "popf" => after.flag,
                    _ => after.di,
                };
                if x != y {
                    ok = false;
                    got = format!("pushed 0x{:04X}, popped 0x{:04X}", x, y);
                }
            }
            if !ok {
                rep.report(Viol {
                    site: format!("roundtrip {} ; {}", pu, po),
                    field: "value".into(),
                    vars: vec![("ss".into(), ss as i64), ("sp".into(), sp as i64)],
                    got_val: None,
                    expected: "PUSH x; POP y leaves y = x and SP restored".into(),
                    got,
                    case: json!({"src": src, "ss": ss, "sp": sp}),
                    weight: 0,
                });
            }
        }
    });
    c.sample(json!({"roundtrip_programs": srcs.len(), "stack_positions": 4}));
}

pub fn run(tier: &Tier) -> i32 {
    let rep = Reporter::new("C05", tier.name());
    let c = Counters::default();
    let fs = forms(tier.thorough);
    sweep_forms(&rep, &c, &fs, tier.thorough);
    let depth = if tier.thorough { 6 } else { 4 };
    let st = histories(&rep, &c, depth);
    roundtrips(&rep, &c);
    sweep_overlap(&rep, &c);
    sweep_singletons(&rep, &c);
    // general histories
    let seq_depth = if tier.thorough { 4 } else { 3 };
    let seq = {
        use crate::ast::b::*;
        let ins = |it: Item| match it {
            Item::Ins(i) => i,
            _ => unreachable!(),
        };
        let focus = vec![
            ins(mov(r16("dx"), direct(W::W, 0x0020))),
            ins(mov(direct(W::W, 0x0022), r16("ax"))),
            ins(mov(r8("ah"), r8("bl"))),
            ins(mov(sr("es"), r16("ax"))),
            ins(mov(r16("dx"), sr("ss"))),
            Instr::Xchg(direct(W::W, 0x0020), r16("ax")),
            Instr::Xchg(r8("al"), r8("ah")),
            ins(push(direct(W::W, 0x0020))),
            ins(pop(direct(W::W, 0x0024))),
            ins(push(sr("ds"))),
            ins(pop(sr("es"))),
            ins(z(ZeroOp::Lahf)),
            ins(z(ZeroOp::Xlat)),
            ins(mov(r16("cx"), lab16("wv"))),
            ins(push(lab16("wv"))),
            Instr::Xchg(lab8("bv"), r8("al")),
            Instr::Lea(R_DX, lab16("wv")),
        ];
        crate::seqx::explore_sequences(&rep, &c, &focus, &crate::seqx::context_alphabet(), seq_depth, &crate::seqx::default_inits())
    };
    let mut cov = Coverage::default();
    cov.exhaustive = !st.capped;
    if st.capped {
        cov.caps_hit.push(format!("history search stopped at {} states", st.states));
    }
    cov.rule = "single step: every MOV/XCHG/PUSH/POP/singleton operand form of syntax.md x operand values x SS:SP in {0,1,2,0xFFFE,0xFFFF,0x100} x 6 SS values, compared in full with the reference (flags unchanged, complete swap, stack cell at SS:SP). Histories: breadth-first search over all sequences of 12 push/pop events up to the stated depth from 24 initial SS:SP states, on the product of the real machine and a reference stack, states deduplicated by (registers, sparse memory). Round trips: push x; pop y as source programs. distinct_nontrivial = distinct pre-states executed Histories: every sequence of up to 3 (thorough 4) instructions over the property's instructions plus a 22-instruction context alphabet (register, memory, stack and flag traffic, data-label operands, DS/ES loaded by pop and by mov), with at least one of the property's instructions, as ONE program on ONE machine and ONE Interpreter object from 3 initial states, compared with the reference after every step (whole memory on every 16th run)".into();
    cov.bounds = json!({"forms": fs.len(), "history_depth": depth, "history_states": st.states, "history_transitions": st.transitions, "sequence_depth": seq_depth, "sequences": seq.sequences, "sequence_steps": seq.steps, "sequence_whole_memory_audits": seq.audits, "tier": tier.name()});
    cov.assumptions = common_assumptions();
    cov.assumptions.push("push sp / pop sp are excluded from the value law (8086 and later CPUs differ); they stay in C09's totality check".into());
    let cov = finish_cov(&c, cov);
    rep.finish(cov)
}
