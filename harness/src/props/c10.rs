//! C10 — whatever the assembler accepts, the data loader, interpreter and printer can run.

use super::common::*;
use crate::alu::*;
use crate::ast::*;
use crate::catalog::*;
use crate::cli::*;
use crate::engine::*;
use crate::findings::*;
use crate::mach::*;
use crate::pipe::*;
use rayon::prelude::*;
use serde_json::json;
use std::sync::atomic::{AtomicU64, Ordering};

fn data_catalog() -> Vec<DataDef> {
    let mut v = Vec::new();
    for n in [0u16, 1, 0x0FFF, 0xFFFF] {
        v.push(DataDef::Set(n));
    }
    for w in [W::B, W::W] {
        let vals: Vec<i32> = if w == W::B { vec![0, 1, 127, 128, 255, -1, -128] } else { vec![0, 1, 32767, 32768, 65535, -1, -32768] };
        for l in [None, Some("lbl".to_string())] {
            for x in vals.iter() {
                v.push(DataDef::Val(l.clone(), w, *x));
                v.push(DataDef::ArrVal(l.clone(), w, *x, 3));
            }
            for n in [0u16, 1, 2, 255, 256, 1000] {
                v.push(DataDef::Arr(l.clone(), w, n));
                v.push(DataDef::ArrVal(l.clone(), w, 7, n));
            }
            for s in ["", "a", "hello world", "A-Z [0-9] {x} ~!@#$%^&*()_+=|\\/<>,.?'`", "print mem 0 -> 5", "db 5"] {
                v.push(DataDef::Str(l.clone(), w, s.to_string()));
            }
        }
    }
    v
}

/// the same shape with its immediate constant at the boundaries of its class (0, the largest
/// unsigned value, the sign bit, -1, the most negative value); the assembler may refuse some of them,
/// but whatever it accepts must run
fn imm_variants(i: &Instr) -> Vec<Instr> {
    let vals = |w: Option<W>| -> Vec<i32> {
        match w {
            // the last values of each list are outside the class: refused, or - if the assembler lets one through -
            // it must still run
            Some(W::B) => vec![0, 0x7F, 0x80, 0xFF, -1, -128, 0x100, 0x1F0, 0xFFFF, -129, 0x10000],
            _ => vec![0, 0x7FFF, 0x8000, 0xFFFF, -1, -32768, 0x10000, -32769, 70000],
        }
    };
    let mut out = Vec::new();
    match i {
        Instr::Mov(a, Opnd::Imm(_)) => {
            for v in vals(a.width()) {
                out.push(Instr::Mov(a.clone(), Opnd::Imm(v)));
            }
        }
        Instr::Bin(op, a, Opnd::Imm(_)) => {
            for v in vals(a.width()) {
                out.push(Instr::Bin(*op, a.clone(), Opnd::Imm(v)));
            }
        }
        Instr::Shift(op, a, Count::Imm(_)) => {
            for v in [0u8, 1, 7, 8, 15, 16, 17, 31, 32, 127, 128, 255] {
                out.push(Instr::Shift(*op, a.clone(), Count::Imm(v)));
            }
        }
        _ => {}
    }
    out
}

/// the same shape with the displacement / direct address of its memory operand at the boundaries of
/// its class
fn disp_variants(i: &Instr) -> Vec<Instr> {
    let disps: [i32; 12] = [0, 1, 127, 128, 255, 256, -128, -129, 32767, 32768, 65535, -32768];
    let with_mem = |m: &Mem, v: i32| -> Option<Mem> {
        match m.form {
            MemForm::RegDisp(r, _) => Some(Mem { seg: m.seg, form: MemForm::RegDisp(r, v) }),
            MemForm::BaseIndex(b, x, Some(_)) => Some(Mem { seg: m.seg, form: MemForm::BaseIndex(b, x, Some(v)) }),
            MemForm::Direct(_) if v >= 0 => Some(Mem { seg: m.seg, form: MemForm::Direct(v as u16) }),
            _ => None,
        }
    };
    let sub = |o: &Opnd, v: i32| -> Option<Opnd> {
        match o {
            Opnd::Mem(w, m) => with_mem(m, v).map(|m2| Opnd::Mem(*w, m2)),
            _ => None,
        }
    };
    let mut out = Vec::new();
    for v in disps {
        let x = match i {
            Instr::Mov(a, b) => sub(a, v).map(|a2| Instr::Mov(a2, b.clone())).or_else(|| sub(b, v).map(|b2| Instr::Mov(a.clone(), b2))),
            Instr::Bin(op, a, b) => sub(a, v).map(|a2| Instr::Bin(*op, a2, b.clone())).or_else(|| sub(b, v).map(|b2| Instr::Bin(*op, a.clone(), b2))),
            Instr::Un(op, a) => sub(a, v).map(|a2| Instr::Un(*op, a2)),
            Instr::Push(a) => sub(a, v).map(Instr::Push),
            Instr::Pop(a) => sub(a, v).map(Instr::Pop),
            Instr::Lea(r, a) => sub(a, v).map(|a2| Instr::Lea(*r, a2)),
            Instr::Shift(op, a, cnt) => sub(a, v).map(|a2| Instr::Shift(*op, a2, *cnt)),
            _ => None,
        };
        if let Some(x) = x {
            out.push(x);
        }
    }
    out
}

pub fn run(tier: &Tier) -> i32 {
    let rep_o = Reporter::new("C10", tier.name());
    let c_o = Counters::default();
    let rep = &rep_o;
    let c = &c_o;
    let cat = catalog(&CatOpts { disps: if tier.thorough { vec![2, -2, 0x7FFF, -0x8000, 0xFFFF] } else { vec![2, -3] }, all_regs: tier.thorough });
    let accepted = AtomicU64::new(0);
    let lines_checked = AtomicU64::new(0);
    let mut variants: Vec<Instr> = cat.iter().flat_map(|i| imm_variants(i)).collect();
    // displacement boundaries on every 4th shape with a displacement (all of them in thorough)
    variants.extend(cat.iter().enumerate().filter(|(k, _)| tier.thorough || k % 4 == 0).flat_map(|(_, i)| disp_variants(i)));
    let n_variants = variants.len();
    // (instruction, upper case, documented shape: a rejection by the assembler is reported)
    let mut work: Vec<(&Instr, bool, bool)> = cat.iter().flat_map(|i| [(i, false, true), (i, true, true)]).collect();
    work.extend(variants.iter().map(|i| (i, false, false)));
    work.par_iter().for_each(|(i, upper, documented)| {
        with_worker(|wk| {
            let prog = std_program(i);
            let src = if *upper { render_upper(&prog) } else { render(&prog) };
            let site = format!("{}{}", i.shape(), if *upper { " (upper case)" } else { "" });
            c.shapes.fetch_add(1, Ordering::Relaxed);
            let asm = match assemble(&src) {
                Ok(a) => a,
                Err(e) => {
                    if !*documented {
                        c.outcome("boundary constant refused by the assembler");
                        return;
                    }
                    rep.report(Viol {
                        site,
                        field: "doc-shape-rejected".into(),
                        vars: vec![],
                        got_val: None,
                        expected: "a shape documented in syntax.md is accepted by the assembler".into(),
                        got: format!("{:?}", e),
                        case: json!({"src": src}),
                        weight: src.len() as u64,
                    });
                    return;
                }
            };
            accepted.fetch_add(1, Ordering::Relaxed);
            // data lines
            {
                wk.bench.hard_reset();
                if let Err(e) = load_data(&mut wk.bench.vm, &asm.data) {
                    rep.report(Viol {
                        site: site.clone(),
                        field: "data-loader-rejects".into(),
                        vars: vec![],
                        got_val: None,
                        expected: "every emitted data line is accepted by the data loader".into(),
                        got: e,
                        case: json!({"src": src, "data": asm.data}),
                        weight: 0,
                    });
                }
                wk.bench.hard_reset();
            }
            let mut ictx = asm.ictx();
            for (k, line) in asm.code.iter().enumerate() {
                // a state in which the line is executable: non-zero divisors, a caller to return to
                let mut pre = RefM { r: Regs::distinct(0x13), m: SMem::new(0), call_stack: vec![] };
                pre.r.ax = 0x0102;
                pre.r.dx = 0;
                pre.r.cx = 2;
                wk.bench.hard_reset();
                pre.r.to_vm(&mut wk.bench.vm);
                for b in wk.bench.vm.mem.iter_mut() {
                    *b = 0x31;
                }
                ictx.call_stack.clear();
                ictx.call_stack.push(0);
                let (e, _) = wk.m.exec_repeat(k, &mut wk.bench.vm, &mut ictx, line, 8);
                wk.n += 1;
                lines_checked.fetch_add(1, Ordering::Relaxed);
                if let Exec::Err(m) = &e {
                    rep.report(Viol {
                        site: site.clone(),
                        field: "interpreter-rejects".into(),
                        vars: vec![],
                        got_val: None,
                        expected: "every emitted code line is accepted by the interpreter".into(),
                        got: format!("line {:?}: {}", line, m),
                        case: json!({"src": src, "line": line, "idx": k}),
                        weight: src.len() as u64,
                    });
                }
                c.outcome(&exec_label(&e));
            }
            for b in wk.bench.vm.mem.iter_mut() {
                *b = 0;
            }
            wk.flush(c);
            if asm.code.len() == 3 && wk.n % 40 == 0 {
                c.sample(json!({"src": src, "emitted_code": asm.code, "emitted_data": asm.data}));
            }
        })
    });
    // data directive forms, both cases, through Preprocessor and DataParser
    let dcat = data_catalog();
    let dwork: Vec<(&DataDef, bool)> = dcat.iter().flat_map(|d| [(d, false), (d, true)]).collect();
    dwork.par_iter().for_each(|(d, upper)| {
        let prog = Program { data: vec![(*d).clone()], code: vec![Item::Label("start".into()), Item::Ins(Instr::Zero(ZeroOp::Hlt))] };
        let src = if *upper { render_upper(&prog) } else { render(&prog) };
        let site = format!("data {}{}", join_toks(&data_toks(d)).split(' ').take(2).collect::<Vec<_>>().join(" "), if *upper { " (upper case)" } else { "" });
        c.shapes.fetch_add(1, Ordering::Relaxed);
        match assemble(&src) {
            Err(e) => rep.report(Viol {
                site,
                field: "doc-shape-rejected".into(),
                vars: vec![],
                got_val: None,
                expected: "a documented data directive form is accepted".into(),
                got: format!("{:?}", e),
                case: json!({"src": src}),
                weight: 0,
            }),
            Ok(asm) => {
                let mut vm = emulator_8086_lib::VM::new();
                lines_checked.fetch_add(asm.data.len() as u64, Ordering::Relaxed);
                if let Err(e) = load_data(&mut vm, &asm.data) {
                    rep.report(Viol {
                        site,
                        field: "data-loader-rejects".into(),
                        vars: vec![],
                        got_val: None,
                        expected: "every emitted data line is accepted by the data loader".into(),
                        got: e,
                        case: json!({"src": src, "data": asm.data}),
                        weight: 0,
                    });
                }
            }
        }
    });
    // strings with characters outside printable ASCII: the assembler may refuse them, but what it accepts the
    // data loader must load
    let odd_strings: Vec<String> = vec!["Temp: 25\u{b0}C".into(), "\u{e9}".into(), "a\tb".into(), "caf\u{e9} \u{20ac}".into(), "\u{1F600}".into(), "x\u{7f}y".into(), "\u{a0}".into(), "tab\there".into()];
    let odd: Vec<(String, bool)> = odd_strings.iter().flat_map(|t| [(format!("s: db \"{}\"\nstart:\nhlt\n", t), false), (format!("s: dw \"{}\"\nstart:\nhlt\n", t), true)]).collect();
    odd.par_iter().for_each(|(src, _)| {
        c.shapes.fetch_add(1, Ordering::Relaxed);
        match assemble(src) {
            Err(AsmErr::Panic(m)) => rep.report(Viol { site: "data string".into(), field: "data-loader-rejects".into(), vars: vec![], got_val: None, expected: "a diagnostic or an accepted definition".into(), got: format!("PANIC {}", m), case: json!({"src": src}), weight: 0 }),
            Err(_) => c.outcome("odd string refused by the assembler"),
            Ok(asm) => {
                let mut vm = emulator_8086_lib::VM::new();
                lines_checked.fetch_add(asm.data.len() as u64, Ordering::Relaxed);
                if let Err(e) = load_data(&mut vm, &asm.data) {
                    rep.report(Viol { site: "data string".into(), field: "data-loader-rejects".into(), vars: vec![], got_val: None, expected: "every emitted data line is accepted by the data loader".into(), got: e, case: json!({"src": src, "data": asm.data}), weight: 0 });
                }
            }
        }
    });
    // identifiers: every name of up to 3 lower-case letters, the same in upper case, and a dictionary of
    // mnemonic-like words, used as code label (jump target), as procedure name (call target) and as data
    // label: whatever name the assembler accepts, the interpreter must be able to read back
    let names_checked = AtomicU64::new(0);
    {
        let mut names: Vec<String> = Vec::new();
        let az: Vec<char> = ('a'..='z').collect();
        for a in az.iter() {
            names.push(a.to_string());
            for b in az.iter() {
                names.push(format!("{}{}", a, b));
                for d in az.iter() {
                    names.push(format!("{}{}{}", a, b, d));
                }
            }
        }
        for w in [
            "halt", "stop", "exit", "quit", "end", "done", "wait", "lock", "into", "iret", "retf", "retn", "enter", "leave", "pusha", "popa", "movsb", "movsw", "stosb", "lodsb", "cmpsb", "scasb", "next", "print", "flags",
            "reg", "mem", "start", "main", "loop1", "word", "byte", "offset", "short", "near", "far", "ptr", "dup", "equ", "org", "segment", "ends", "proc", "endp", "macro", "endm", "def", "set", "data", "code", "stack",
            "nop1", "hlt1", "al1", "ax_", "_ax", "_", "__", "a1", "x86", "int3", "jmpq", "callf", "syscall", "cpuid", "bswap", "setz", "cmovz", "repx", "lea1", "les", "lds", "in", "out", "esc", "aax", "salc", "xlatb",
        ] {
            names.push(w.to_string());
        }
        let upper: Vec<String> = names.iter().map(|n| n.to_ascii_uppercase()).collect();
        names.extend(upper);
        names.sort();
        names.dedup();
        names.par_chunks(256).for_each(|ch| {
            with_worker(|wk| {
                for name in ch {
                    for kind in 0..3 {
                        let src = match kind {
                            0 => format!("start:\njmp {}\nstc\n{}:\nclc\n", name, name),
                            1 => format!("def {} {{\nstc\n}}\nstart:\ncall {}\n", name, name),
                            _ => format!("{}: dw 7\nstart:\nmov ax, word {}\ninc byte {}\nmov bx, offset {}\n", name, name, name, name),
                        };
                        let asm = match assemble(&src) {
                            Ok(a) => a,
                            Err(_) => continue, // reserved word or otherwise refused: fine
                        };
                        if asm.driver_accepts().is_err() {
                            continue;
                        }
                        names_checked.fetch_add(1, Ordering::Relaxed);
                        let vm = &mut wk.bench.vm;
                        let mut ictx = asm.ictx();
                        ictx.call_stack.push(0);
                        for (k, line) in asm.code.iter().enumerate() {
                            let e = wk.m.exec(k, vm, &mut ictx, line);
                            lines_checked.fetch_add(1, Ordering::Relaxed);
                            if let Exec::Err(m) = &e {
                                rep.report(Viol {
                                    site: format!("identifier as {}", ["code label", "procedure name", "data label"][kind]),
                                    field: "interpreter-rejects".into(),
                                    vars: vec![],
                                    got_val: None,
                                    expected: "every emitted code line is accepted by the interpreter".into(),
                                    got: format!("name {:?}, line {:?}: {}", name, line, m),
                                    case: json!({"src": src, "line": line, "idx": k}),
                                    weight: name.len() as u64,
                                });
                            }
                        }
                        vm.mem[0] = 0;
                        vm.mem[1] = 0;
                    }
                }
                wk.bench.hard_reset();
            })
        });
    }
    // print forms through the binary (the print parser lives there): all forms, radices, both cases
    ensure_bin();
    let mut print_srcs: Vec<String> = Vec::new();
    for upper in [false, true] {
        for radix in [Radix::Dec, Radix::Hex, Radix::HexUp, Radix::Bin] {
            let mut s = String::from("bv: db 7\nstart:\n");
            let kinds = vec![
                PrintKind::Flags,
                PrintKind::Reg,
                PrintKind::MemRange(0, 0),
                PrintKind::MemRange(5, 40),
                PrintKind::MemRange(0xFFFF0, 0xFFFFF),
                PrintKind::MemLen(0, 0),
                PrintKind::MemLen(16, 17),
                PrintKind::MemLen(0xFFFF0, 15),
                PrintKind::MemDs(0),
                PrintKind::MemDs(33),
            ];
            for k in kinds {
                let mut toks = instr_toks(&Instr::Print(k));
                for t in toks.iter_mut() {
                    if let TokKind::Num(v, cl) = t.kind {
                        if let Some(x) = render_num(v, cl, radix) {
                            t.text = x;
                        }
                    }
                }
                if upper {
                    upper_kw(&mut toks);
                }
                s.push_str(&join_toks(&toks));
                s.push('\n');
            }
            s.push_str(if upper { "PRINT MEM OFFSET bv -> 3\nPRINT MEM : OFFSET bv\n" } else { "print mem offset bv -> 3\nprint mem : offset bv\n" });
            print_srcs.push(s);
        }
    }
    print_srcs.par_iter().for_each(|src| {
        let o = run_cli(src, "", &CliOpts::default());
        c.add_exec(1);
        let out = o.out();
        let nprints = src.lines().filter(|l| l.to_ascii_lowercase().starts_with("print")).count();
        let (_, secs) = sections(&out);
        if o.abnormal().is_some() || out.contains("Internal Error") || secs.len() != nprints {
            rep.report(Viol {
                site: "print forms".into(),
                field: "printer-rejects".into(),
                vars: vec![],
                got_val: None,
                expected: format!("{} print statements accepted by the assembler are all printed, no 'Internal Error'", nprints),
                got: format!("{} sections; {}", secs.len(), o.summary()),
                case: json!({"src": src, "stdin": ""}),
                weight: 0,
            });
        }
        c.sample(json!({"cli_print_program": src}));
    });
    // print statements with constants at the edges of the memory space, one per program (the assembler
    // may refuse them; whatever it accepts must print)
    let mut edge: Vec<String> = Vec::new();
    for (a, b) in [(0u32, 0xFFFFFu32), (0xFFFFF, 0xFFFFF), (0xFFFFE, 0xFFFFF), (0, 0x100000), (0x100000, 0x100000), (0xFFFFF, 0x100000)] {
        edge.push(format!("print mem {} -> {}", a, b));
        edge.push(format!("print mem 0x{:x} -> 0x{:x}", a, b));
    }
    for (a, n) in [(0u32, 0xFFFFFu32), (0xFFFFF, 0), (0xFFFF0, 15), (0xFFFF0, 16), (0xFFFFF, 1), (1, 0xFFFFF), (0x80000, 0x80000), (0, 0x100000), (0x100000, 0)] {
        edge.push(format!("print mem {} : {}", a, n));
        edge.push(format!("print mem 0x{:X}:0b{:b}", a, n));
    }
    for n in [0u32, 0xFFFF, 0x10000, 0xFFFFF, 0x100000] {
        edge.push(format!("print mem : {}", n));
        edge.push(format!("PRINT MEM :0X{:X}", n));
    }
    // DS-relative statements under a DS near the top of memory (the assembler cannot know DS: every
    // offset is accepted, so the printer must answer every one of them)
    let mut edge: Vec<(String, String)> = edge.into_iter().map(|l| (String::new(), l)).collect();
    for ds in [0xFFFFu32, 0xFFF0, 0xF800, 0x8000] {
        for n in [0u32, 15, 16, 255, 256, 0x7FFF, 0x8000, 0xFFFF] {
            // keep the dumps small: only ranges of at most 4 KB or ranges that leave the space
            if n > 4096 && ds * 16 + n < (1 << 20) {
                continue;
            }
            edge.push((format!("mov ax, {}\nmov ds, ax\n", ds), format!("print mem : {}", n)));
        }
    }
    edge.par_iter().for_each(|(prelude, line)| {
        let src = format!("bv: db 7\nstart:\n{}stc\n{}\nprint flags\n", prelude, line);
        // printing the whole megabyte takes about 4 MB of output
        let mut opts = CliOpts::default();
        opts.cap = 16 << 20;
        opts.timeout_ms = 20_000;
        let o = run_cli(&src, "", &opts);
        c.add_exec(1);
        let out = o.out();
        let refused = !out.contains("Output of line");
        // accepted: both prints must be answered; refused: a diagnostic and nothing executed
        let ok = o.abnormal().is_none() && !out.contains("Internal Error") && (refused || sections(&out).1.len() == 2);
        c.outcome(if refused { "edge print refused by the assembler" } else { "edge print runs" });
        if !ok {
            rep.report(Viol {
                site: "print forms".into(),
                field: "printer-rejects".into(),
                vars: vec![],
                got_val: None,
                expected: "a print statement the assembler accepts is printed (no 'Internal Error'), and the program continues".into(),
                got: format!("{:?}: {}", line, o.summary()),
                case: json!({"src": src, "stdin": ""}),
                weight: 1,
            });
        }
    });
    c.states.fetch_add(accepted.load(Ordering::Relaxed), Ordering::Relaxed);
    let mut cov = Coverage::default();
    cov.exhaustive = true;
    cov.rule = "the complete shape catalog transcribed from syntax.md (every mnemonic and synonym x every operand form x 17 address forms x 5 segment choices x register choices) in lower and upper case, each as a minimal program: if the real Preprocessor accepts it, every emitted data line goes to the real DataParser and every emitted code line to the real Interpreter (context of the same program, executable state: caller on the call stack, non-zero divisors); any Err downstream is the violation; a documented shape the assembler rejects is reported as doc-shape-rejected. Every shape with an immediate constant or shift count is repeated with the constant at the boundaries of its class (0, largest unsigned, sign bit, -1, most negative; counts 0..255 lattice; displacements and direct addresses at 0, +-127/128/255/256, 32767/32768, 65535, -32768): the assembler may refuse, but what it accepts must run. Identifiers: every name of up to 3 letters in lower and upper case plus a dictionary of mnemonic-like words, as jump target, procedure name and data label: every name the assembler accepts must be readable by the interpreter. All data directive forms in both cases; print statements with constants at the edges of the memory space and DS-relative statements under DS near the top of memory, one per program; strings with characters outside printable ASCII (may be refused, must load if accepted); all print forms x 4 radices x both cases through the CLI binary (no 'Internal Error', one output section per print)".into();
    cov.bounds = json!({"catalog_shapes": cat.len(), "cases": 2, "data_forms": dcat.len(), "print_programs": print_srcs.len(), "identifier_programs_accepted_and_run": names_checked.load(Ordering::Relaxed), "print_edge_programs": edge.len(), "immediate_boundary_variants": n_variants, "accepted_programs": accepted.load(Ordering::Relaxed), "downstream_lines_checked": lines_checked.load(Ordering::Relaxed), "tier": tier.name()});
    cov.assumptions = common_assumptions();
    cov.cli_runs = CLI_RUNS.load(Ordering::Relaxed);
    cov.distinct_nontrivial = accepted.load(Ordering::Relaxed);
    let cov = finish_cov(c, cov);
    rep.finish(cov)
}
