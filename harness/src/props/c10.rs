//! C10 — whatever the assembler accepts, the data loader, interpreter and printer can run.

use super::common::*;
use crate::alu::*;
use crate::ast::*;
use crate::catalog::*;
use crate::cli::*;
use crate::engine::*;
use crate::findings::*;
use crate::mach::*;
use crate::pipe::*;
use rayon::prelude::*;
use serde_json::json;
use std::sync::atomic::{AtomicU64, Ordering};

fn data_catalog() -> Vec<DataDef> {
    let mut v = Vec::new();
    for n in [0u16, 1, 0x0FFF, 0xFFFF] {
        v.push(DataDef::Set(n));
    }
    for w in [W::B, W::W] {
        let vals: Vec<i32> = if w == W::B { vec![0, 1, 127, 128, 255, -1, -128] } else { vec![0, 1, 32767, 32768, 65535, -1, -32768] };
        for l in [None, Some("lbl".to_string())] {
            for x in vals.iter() {
                v.push(DataDef::Val(l.clone(), w, *x));
                v.push(DataDef::ArrVal(l.clone(), w, *x, 3));
            }
            for n in [0u16, 1, 2, 255, 256, 1000] {
                v.push(DataDef::Arr(l.clone(), w, n));
                v.push(DataDef::ArrVal(l.clone(), w, 7, n));
            }
            for s in ["", "a", "hello world", "A-Z [0-9] {x} ~!@#$%^&*()_+=|\\/<>,.?'`", "print mem 0 -> 5", "db 5"] {
                v.push(DataDef::Str(l.clone(), w, s.to_string()));
            }
        }
    }
    v
}

pub fn run(tier: &Tier) -> i32 {
    let rep_o = Reporter::new("C10", tier.name());
    let c_o = Counters::default();
    let rep = &rep_o;
    let c = &c_o;
    let cat = catalog(&CatOpts { disps: if tier.thorough { vec![2, -2, 0x7FFF, -0x8000, 0xFFFF] } else { vec![2, -3] }, all_regs: tier.thorough });
    let accepted = AtomicU64::new(0);
    let lines_checked = AtomicU64::new(0);
    let work: Vec<(&Instr, bool)> = cat.iter().flat_map(|i| [(i, false), (i, true)]).collect();
    work.par_iter().for_each(|(i, upper)| {
        with_worker(|wk| {
            let prog = std_program(i);
            let src = if *upper { render_upper(&prog) } else { render(&prog) };
            let site = format!("{}{}", i.shape(), if *upper { " (upper case)" } else { "" });
            c.shapes.fetch_add(1, Ordering::Relaxed);
            let asm = match assemble(&src) {
                Ok(a) => a,
                Err(e) => {
                    rep.report(Viol {
                        site,
                        field: "doc-shape-rejected".into(),
                        vars: vec![],
                        got_val: None,
                        expected: "a shape documented in syntax.md is accepted by the assembler".into(),
                        got: format!("{:?}", e),
                        case: json!({"src": src}),
                        weight: src.len() as u64,
                    });
                    return;
                }
            };
            accepted.fetch_add(1, Ordering::Relaxed);
            // data lines
            {
                wk.bench.hard_reset();
                if let Err(e) = load_data(&mut wk.bench.vm, &asm.data) {
                    rep.report(Viol {
                        site: site.clone(),
                        field: "data-loader-rejects".into(),
                        vars: vec![],
                        got_val: None,
                        expected: "every emitted data line is accepted by the data loader".into(),
                        got: e,
                        case: json!({"src": src, "data": asm.data}),
                        weight: 0,
                    });
                }
                wk.bench.hard_reset();
            }
            let mut ictx = asm.ictx();
            for (k, line) in asm.code.iter().enumerate() {
                // a state in which the line is executable: non-zero divisors, a caller to return to
                let mut pre = RefM { r: Regs::distinct(0x13), m: SMem::new(0), call_stack: vec![] };
                pre.r.ax = 0x0102;
                pre.r.dx = 0;
                pre.r.cx = 2;
                wk.bench.hard_reset();
                pre.r.to_vm(&mut wk.bench.vm);
                for b in wk.bench.vm.mem.iter_mut() {
                    *b = 0x31;
                }
                ictx.call_stack.clear();
                ictx.call_stack.push(0);
                let (e, _) = wk.m.exec_repeat(k, &mut wk.bench.vm, &mut ictx, line, 8);
                wk.n += 1;
                lines_checked.fetch_add(1, Ordering::Relaxed);
                if let Exec::Err(m) = &e {
                    rep.report(Viol {
                        site: site.clone(),
                        field: "interpreter-rejects".into(),
                        vars: vec![],
                        got_val: None,
                        expected: "every emitted code line is accepted by the interpreter".into(),
                        got: format!("line {:?}: {}", line, m),
                        case: json!({"src": src, "line": line, "idx": k}),
                        weight: src.len() as u64,
                    });
                }
                c.outcome(&exec_label(&e));
            }
            for b in wk.bench.vm.mem.iter_mut() {
                *b = 0;
            }
            wk.flush(c);
            if asm.code.len() == 3 && wk.n % 40 == 0 {
                c.sample(json!({"src": src, "emitted_code": asm.code, "emitted_data": asm.data}));
            }
        })
    });
    // data directive forms, both cases, through Preprocessor and DataParser
    let dcat = data_catalog();
    let dwork: Vec<(&DataDef, bool)> = dcat.iter().flat_map(|d| [(d, false), (d, true)]).collect();
    dwork.par_iter().for_each(|(d, upper)| {
        let prog = Program { data: vec![(*d).clone()], code: vec![Item::Label("start".into()), Item::Ins(Instr::Zero(ZeroOp::Hlt))] };
        let src = if *upper { render_upper(&prog) } else { render(&prog) };
        let site = format!("data {}{}", join_toks(&data_toks(d)).split(' ').take(2).collect::<Vec<_>>().join(" "), if *upper { " (upper case)" } else { "" });
        c.shapes.fetch_add(1, Ordering::Relaxed);
        match assemble(&src) {
            Err(e) => rep.report(Viol {
                site,
                field: "doc-shape-rejected".into(),
                vars: vec![],
                got_val: None,
                expected: "a documented data directive form is accepted".into(),
                got: format!("{:?}", e),
                case: json!({"src": src}),
                weight: 0,
            }),
            Ok(asm) => {
                let mut vm = emulator_8086_lib::VM::new();
                lines_checked.fetch_add(asm.data.len() as u64, Ordering::Relaxed);
                if let Err(e) = load_data(&mut vm, &asm.data) {
                    rep.report(Viol {
                        site,
                        field: "data-loader-rejects".into(),
                        vars: vec![],
                        got_val: None,
                        expected: "every emitted data line is accepted by the data loader".into(),
                        got: e,
                        case: json!({"src": src, "data": asm.data}),
                        weight: 0,
                    });
                }
            }
        }
    });
    // print forms through the binary (the print parser lives there): all forms, radices, both cases
    ensure_bin();
    let mut print_srcs: Vec<String> = Vec::new();
    for upper in [false, true] {
        for radix in [Radix::Dec, Radix::Hex, Radix::HexUp, Radix::Bin] {
            let mut s = String::from("bv: db 7\nstart:\n");
            let kinds = vec![
                PrintKind::Flags,
                PrintKind::Reg,
                PrintKind::MemRange(0, 0),
                PrintKind::MemRange(5, 40),
                PrintKind::MemRange(0xFFFF0, 0xFFFFF),
                PrintKind::MemLen(0, 0),
                PrintKind::MemLen(16, 17),
                PrintKind::MemLen(0xFFFF0, 15),
                PrintKind::MemDs(0),
                PrintKind::MemDs(33),
            ];
            for k in kinds {
                let mut toks = instr_toks(&Instr::Print(k));
                for t in toks.iter_mut() {
                    if let TokKind::Num(v, cl) = t.kind {
                        if let Some(x) = render_num(v, cl, radix) {
                            t.text = x;
                        }
                    }
                }
                if upper {
                    upper_kw(&mut toks);
                }
                s.push_str(&join_toks(&toks));
                s.push('\n');
            }
            s.push_str(if upper { "PRINT MEM OFFSET bv -> 3\nPRINT MEM : OFFSET bv\n" } else { "print mem offset bv -> 3\nprint mem : offset bv\n" });
            print_srcs.push(s);
        }
    }
    print_srcs.par_iter().for_each(|src| {
        let o = run_cli(src, "", &CliOpts::default());
        c.add_exec(1);
        let out = o.out();
        let nprints = src.lines().filter(|l| l.to_ascii_lowercase().starts_with("print")).count();
        let (_, secs) = sections(&out);
        if o.abnormal().is_some() || out.contains("Internal Error") || secs.len() != nprints {
            rep.report(Viol {
                site: "print forms".into(),
                field: "printer-rejects".into(),
                vars: vec![],
                got_val: None,
                expected: format!("{} print statements accepted by the assembler are all printed, no 'Internal Error'", nprints),
                got: format!("{} sections; {}", secs.len(), o.summary()),
                case: json!({"src": src, "stdin": ""}),
                weight: 0,
            });
        }
        c.sample(json!({"cli_print_program": src}));
    });
    c.states.fetch_add(accepted.load(Ordering::Relaxed), Ordering::Relaxed);
    let mut cov = Coverage::default();
    cov.exhaustive = true;
    cov.rule = "the complete shape catalog transcribed from syntax.md (every mnemonic and synonym x every operand form x 17 address forms x 5 segment choices x register choices) in lower and upper case, each as a minimal program: if the real Preprocessor accepts it, every emitted data line goes to the real DataParser and every emitted code line to the real Interpreter (context of the same program, executable state: caller on the call stack, non-zero divisors); any Err downstream is the violation; a documented shape the assembler rejects is reported as doc-shape-rejected. All data directive forms in both cases; all print forms x 4 radices x both cases through the CLI binary (no 'Internal Error', one output section per print)".into();
    cov.bounds = json!({"catalog_shapes": cat.len(), "cases": 2, "data_forms": dcat.len(), "print_programs": print_srcs.len(), "accepted_programs": accepted.load(Ordering::Relaxed), "downstream_lines_checked": lines_checked.load(Ordering::Relaxed), "tier": tier.name()});
    cov.assumptions = common_assumptions();
    cov.cli_runs = CLI_RUNS.load(Ordering::Relaxed);
    cov.distinct_nontrivial = accepted.load(Ordering::Relaxed);
    let cov = finish_cov(c, cov);
    rep.finish(cov)
}
