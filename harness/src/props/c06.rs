//! C06 — conditional jumps and LOOPs are taken exactly under the 8086 condition.

use super::common::*;
use crate::alu::*;
use crate::ast::*;
use crate::engine::*;
use crate::findings::*;
use crate::lattice::*;
use crate::mach::*;
use crate::pipe::*;
use rayon::prelude::*;
use serde_json::json;
use std::collections::HashMap;
use std::sync::atomic::Ordering;
use std::sync::Mutex;

pub fn run(tier: &Tier) -> i32 {
    let rep_o = Reporter::new("C06", tier.name());
    let c_o = Counters::default();
    let rep = &rep_o;
    let c = &c_o;
    let mut spellings: Vec<(String, bool)> = Vec::new();
    for m in JUMP_MNEMONICS.iter().chain(LOOP_MNEMONICS.iter()) {
        spellings.push((m.to_string(), false));
        spellings.push((m.to_string(), true));
    }
    // taken bitmaps (lower-case spellings, CX = 1) for the derived relations
    let taken: Mutex<HashMap<String, Vec<u64>>> = Mutex::new(HashMap::new());
    let backgrounds: Vec<u8> = if tier.thorough { vec![0, 0xFF] } else { vec![0] };
    spellings.par_iter().for_each(|(mn, upper)| {
        with_worker(|wk| {
            let i = Instr::Jmp(mn.clone(), "tgt".into());
            let prog = std_program(&i);
            let src = if *upper { render_upper(&prog) } else { render(&prog) };
            let site = format!("{}{}", mn, if *upper { " (upper case)" } else { "" });
            let mut p = match prepare_src(&i, src) {
                Ok(p) => p,
                Err(e) => {
                    c.block(format!("{}: {:?}", site, e));
                    rep.report(Viol {
                        site: site.clone(),
                        field: "state".into(),
                        vars: vec![],
                        got_val: None,
                        expected: "documented jump spelling assembles".into(),
                        got: format!("{:?}", e),
                        case: json!({"instr": render_instr(&i)}),
                        weight: 0,
                    });
                    return;
                }
            };
            let is_cx = matches!(mn.as_str(), "jcxz" | "loop" | "loope" | "loopz" | "loopne" | "loopnz");
            let mut bits = vec![0u64; 1024];
            for bg in backgrounds.iter() {
                if wk.bench.bg != *bg {
                    wk.bench.set_bg(*bg);
                }
                if !is_cx {
                    for f in 0..=0xFFFFu32 {
                        for cx in [0u16, 1] {
                            let mut pre = RefM { r: Regs::distinct(3), m: SMem::new(*bg), call_stack: vec![] };
                            pre.r.flag = f as u16;
                            pre.r.cx = cx;
                            let e = wk.case(
                                rep,
                                c,
                                &mut p,
                                &pre,
                                &site,
                                &[],
                                (f as u64).count_ones() as u64 * 65536 + f as u64,
                                false,
                            );
                            if cx == 1 && matches!(e, Exec::Ok(St::Jmp(_))) {
                                bits[(f >> 6) as usize] |= 1u64 << (f & 63);
                            }
                        }
                    }
                } else {
                    for cx in 0..=0xFFFFu32 {
                        for f in F4.iter() {
                            for zf in [0u16, ZF] {
                                let mut pre = RefM { r: Regs::distinct(5), m: SMem::new(*bg), call_stack: vec![] };
                                pre.r.flag = (*f & !ZF) | zf;
                                pre.r.cx = cx as u16;
                                wk.case(rep, c, &mut p, &pre, &site, &[], cx as u64, false);
                            }
                        }
                    }
                }
                wk.audit(rep, &p, &site);
            }
            if wk.bench.bg != 0 {
                wk.bench.set_bg(0);
            }
            wk.flush(c);
            c.shapes.fetch_add(1, Ordering::Relaxed);
            c.sample(json!({"source": p.src, "emitted": p.line, "flag_words_or_cx_values": 65536}));
            if !is_cx && !*upper {
                taken.lock().unwrap().insert(mn.clone(), bits);
            }
        })
    });
    // derived relations on the observed behaviour
    let t = taken.lock().unwrap();
    for group in SYNONYMS.iter() {
        let first = match t.get(group[0]) {
            Some(b) => b,
            None => continue,
        };
        for other in group.iter().skip(1) {
            if let Some(b) = t.get(*other) {
                if b != first {
                    let k = (0..65536usize).find(|f| (b[f >> 6] ^ first[f >> 6]) >> (f & 63) & 1 == 1).unwrap();
                    rep.report(Viol {
                        site: format!("synonyms {}/{}", group[0], other),
                        field: "taken".into(),
                        vars: vec![("fin".into(), k as i64)],
                        got_val: None,
                        expected: "synonyms are taken under exactly the same flag words".into(),
                        got: format!("differ at flag word 0x{:04X}", k),
                        case: json!({"flags": k}),
                        weight: 0,
                    });
                }
            }
        }
    }
    for (a, b) in COMPLEMENTS.iter() {
        if let (Some(x), Some(y)) = (t.get(*a), t.get(*b)) {
            for w in 0..1024 {
                if x[w] ^ y[w] != u64::MAX {
                    let bit = (!(x[w] ^ y[w])).trailing_zeros() as usize;
                    let f = w * 64 + bit;
                    let vars: Vec<(String, i64)> = vec![
                        ("fin".into(), f as i64),
                        ("zf".into(), (f as u16 & ZF != 0) as i64),
                        ("sf".into(), (f as u16 & SF != 0) as i64),
                        ("of".into(), (f as u16 & OF != 0) as i64),
                        ("cf".into(), (f as u16 & CF != 0) as i64),
                    ];
                    rep.report(Viol {
                        site: format!("complements {}/{}", a, b),
                        field: "taken".into(),
                        vars,
                        got_val: None,
                        expected: "exactly one of a complementary pair is taken".into(),
                        got: format!("both or neither taken at flag word 0x{:04X}", f),
                        case: json!({"flags": f}),
                        weight: 0,
                    });
                    break;
                }
            }
        }
    }
    drop(t);
    // ---- through the real binary: the driver's handling of taken jumps, in particular of jumps onto
    //      themselves (delay loops), plain, under -i and under the trap flag
    let cli_n = {
        use crate::ast::b::*;
        crate::cli::ensure_bin();
        let mut progs: Vec<(String, Program, bool, bool)> = Vec::new();
        let mb = std::collections::HashMap::new();
        // (a) self-targeting LOOPx with small counts, both ZF values: plain, -i, trap flag
        for mn in ["loop", "loope", "loopz", "loopne", "loopnz"] {
            for zf in [false, true] {
                for cx in [1i32, 2, 5] {
                    for mode in 0..3 {
                        let mut code = vec![label("start")];
                        if mode == 2 {
                            code.push(mov(r16("ax"), imm(0x0100)));
                            code.push(push(r16("ax")));
                            code.push(z(ZeroOp::Popf));
                        }
                        code.push(mov(r16("cx"), imm(cx)));
                        // ZF by an instruction: xor bx,bx sets it, or bx,1 clears it
                        if zf {
                            code.push(bin(BinOp::Xor, r16("bx"), r16("bx")));
                        } else {
                            code.push(bin(BinOp::Or, r16("bx"), imm(1)));
                        }
                        code.push(label("w_"));
                        code.push(jmp(mn, "w_"));
                        code.push(un(UnOp::Inc, r16("dx")));
                        code.push(print(PrintKind::Reg));
                        code.push(print(PrintKind::Flags));
                        progs.push((format!("{} onto itself, ZF={}, CX={}, mode {}", mn, zf as u8, cx, ["plain", "-i", "trap flag"][mode]), Program { data: vec![], code }, mode == 1, false));
                    }
                }
            }
        }
        // (b) conditional jumps taken and not taken around a block, backward jump ending a counted loop
        for mn in ["je", "jne", "jc", "jnc", "js", "jo", "jcxz", "jbe", "jg"] {
            for setup in [0, 1] {
                let mut code = vec![label("start"), mov(r16("cx"), imm(setup))];
                code.push(mov(r16("ax"), imm(if setup == 0 { 5 } else { 0x7FFF })));
                code.push(bin(BinOp::Add, r16("ax"), imm(if setup == 0 { -5 } else { 1 })));
                code.push(jmp(mn, "skip_"));
                code.push(mov(r16("si"), imm(0x0BAD)));
                code.push(label("skip_"));
                code.push(un(UnOp::Inc, r16("dx")));
                code.push(print(PrintKind::Reg));
                progs.push((format!("{} around a block, setup {}", mn, setup), Program { data: vec![], code }, false, false));
            }
        }
        // (c) delay loops: long self-targeting loops one after another with straight-line code in between
        for counts in [vec![40000i32, 40000], vec![0], vec![65535, 2, 3], vec![30000, 30000, 30000]] {
            let mut code = vec![label("start")];
            for (k, n) in counts.iter().enumerate() {
                code.push(mov(r16("cx"), imm(*n)));
                code.push(Item::Label(format!("d{}_", k)));
                code.push(Item::Ins(Instr::Jmp("loop".into(), format!("d{}_", k))));
                code.push(un(UnOp::Inc, r16("ax")));
            }
            code.push(print(PrintKind::Reg));
            progs.push((format!("delay loops {:?}", counts), Program { data: vec![], code }, false, true));
        }
        // (c') the same self-targeting loop entered again and again (nested delay): 3 x 30 000, 2 x 40 000 rounds,
        //      2 x 65 536 (CX = 0), and 40 x 2 000, for LOOP and for LOOPNZ with ZF clear
        for (outer, inner) in [(3i32, 30000i32), (2, 40000), (2, 0), (40, 2000)] {
            for mn in ["loop", "loopnz"] {
                let mut code = vec![label("start"), mov(r16("bx"), imm(outer))];
                code.push(label("outer_"));
                code.push(mov(r16("cx"), imm(inner)));
                code.push(bin(BinOp::Or, r16("si"), imm(1)));
                code.push(label("inner_"));
                code.push(jmp(mn, "inner_"));
                code.push(un(UnOp::Inc, r16("ax")));
                code.push(un(UnOp::Dec, r16("bx")));
                code.push(jmp("jnz", "outer_"));
                code.push(print(PrintKind::Reg));
                progs.push((format!("nested delay: {} x {} rounds of {} onto itself", outer, inner, mn), Program { data: vec![], code }, false, true));
            }
        }
        // (d) every spelling, forward over and backward across a block of `d` instructions, under flag words
        //     that make every condition true once and false once (CX = 2, so LOOPx / JCXZ see CX != 0 too)
        let dists: Vec<usize> = if tier.thorough { vec![0, 1, 2, 127, 128, 129, 255, 256, 257, 1000] } else { vec![1, 256] };
        let fws: Vec<i32> = if tier.thorough { vec![0x0000, 0x0001, 0x0040, 0x0080, 0x0800, 0x0880, 0x0041, 0x0004, 0x08C5] } else { vec![0x0000, 0x0041, 0x0080, 0x08C5] };
        let mut far: Vec<(&str, usize)> = Vec::new();
        if tier.thorough {
            far.extend([("je", 66_000usize), ("loop", 66_000), ("jcxz", 66_000), ("jg", 66_000)]);
        }
        for mn in JUMP_MNEMONICS.iter().chain(LOOP_MNEMONICS.iter()) {
            let mut ds: Vec<usize> = dists.clone();
            ds.extend(far.iter().filter(|(m, _)| m == mn).map(|(_, d)| *d));
            for d in ds {
                for fw in fws.iter() {
                    if d > 60_000 && *fw != 0x0040 && *fw != 0 {
                        continue;
                    }
                    // the recorded JLE/JNG defect (known finding, decided for all 2^16 flag words above) is not
                    // re-reported through the binary: those two spellings skip the flag words it covers
                    let (zf, sf, of) = (*fw & 0x40 != 0, *fw & 0x80 != 0, *fw & 0x800 != 0);
                    if matches!(*mn, "jle" | "jng") && (zf || sf != of) && !(zf && sf != of) {
                        continue;
                    }
                    for cx in [2i32, 0] {
                        if cx == 0 && !(matches!(*mn, "jcxz") && (*fw == 0 || *fw == 0x0040)) {
                            continue;
                        }
                        for backward in [false, true] {
                            let mut code = vec![label("start"), mov(r16("ax"), imm(*fw)), push(r16("ax")), z(ZeroOp::Popf), mov(r16("cx"), imm(cx))];
                            if backward {
                                code.push(jmp("jmp", "fwd_"));
                                code.push(label("back_"));
                                code.push(mov(r16("si"), imm(0x600D)));
                                for k in 0..d {
                                    code.push(mov(r16("di"), imm((k % 30000) as i32)));
                                }
                                code.push(jmp("jmp", "end_"));
                                code.push(label("fwd_"));
                                code.push(jmp(mn, "back_"));
                                code.push(mov(r16("bx"), imm(0x0BAD)));
                                code.push(label("end_"));
                            } else {
                                code.push(jmp(mn, "skip_"));
                                code.push(mov(r16("si"), imm(0x0BAD)));
                                for k in 0..d {
                                    code.push(mov(r16("di"), imm((k % 30000) as i32)));
                                }
                                code.push(label("skip_"));
                            }
                            code.push(un(UnOp::Inc, r16("dx")));
                            code.push(print(PrintKind::Reg));
                            code.push(print(PrintKind::Flags));
                            progs.push((format!("{} {} over {} instructions, flags 0x{:04X}, CX={}", mn, if backward { "backward" } else { "forward" }, d, fw, cx), Program { data: vec![], code }, false, d > 60_000));
                        }
                    }
                }
            }
        }
        progs.par_iter().for_each(|(name, prog, interp, long)| {
            let stdin: Vec<String> = vec!["n".to_string(); 60];
            let src = render(prog);
            let (rr, out, res) = cli_conformance_src(&src, prog, &mb, &stdin, *interp, if *long { 400_000 } else { 5000 });
            c.add_exec(1);
            c.outcome(&format!("cli {:?}", rr.stop));
            report_cli(rep, "cli jumps and loops", res, &src, &stdin, *interp, &out, json!(name));
        });
        progs.len()
    };
    let mut cov = Coverage::default();
    cov.exhaustive = true;
    cov.rule = "source `tgt: <mnemonic> tgt` for all 32 jump and 5 loop spellings of syntax.md in lower and upper case (74 programs) through the real Preprocessor; the emitted line executed by the real Interpreter for ALL 2^16 flag words x CX in {0,1} (jumps) resp. ALL 2^16 CX values x ZF x 4 flag words (JCXZ, LOOPx); outcome JMP(target)/NEXT, CX, flags and all registers compared with the Intel predicate table; synonyms and complementary pairs cross-checked on the recorded behaviour. Through the real binary: every LOOPx spelling jumping onto itself x ZF x CX in {1,2,5}, plain, single-stepped with -i and under a program-set trap flag; 9 conditional jumps taken and not taken around a block; delay loops of 30 000 - 65 536 rounds one after another, and nested delays that re-enter the same self-targeting loop (up to 131 072 rounds in all); every one of the 37 spellings jumping forward over and backward across a block of d instructions (d in {1,256}; thorough {0,1,2,127,128,129,255,256,257,1000}, and 66 000 for je/loop/jcxz/jg) under 4 (thorough 9) flag words that make each condition true and false (stdout matched against the reference interpreter)".into();
    cov.bounds = json!({"spellings": spellings.len(), "flag_words": 65536, "cx_values": 65536, "backgrounds": backgrounds.len(), "programs_through_the_binary": cli_n, "tier": tier.name()});
    cov.assumptions = common_assumptions();
    let cov = finish_cov(c, cov);
    // vacuity guard: both outcomes must have been seen
    let o = c.outcomes.lock().unwrap();
    // (only a verdict-free run can be vacuous: when the implementation never jumps, the mismatches are the finding)
    if !(o.contains("JMP") && o.contains("Next")) && rep.unknown_count() == 0 {
        eprintln!("MACHINERY: C06 did not observe both taken and not-taken outcomes: {:?}", *o);
        return 2;
    }
    drop(o);
    rep.finish(cov)
}
