//! C13 — a macro use equals its hand-expanded body; recursion is always rejected.

use super::common::*;
use crate::cli::*;
use crate::findings::*;
use crate::pipe::*;
use rayon::prelude::*;
use serde_json::json;
use std::collections::HashMap;
use std::sync::atomic::{AtomicU64, Ordering};

#[derive(Clone, Debug)]
pub struct MacroDef {
    pub name: String,
    pub params: Vec<String>,
    pub body: String,
}

#[derive(Clone, Debug, PartialEq, Eq)]
pub enum ExpErr {
    Cycle(String),
    Unknown(String),
    Arity(String),
}

fn is_ident_start(c: char) -> bool {
    c == '_' || c.is_ascii_alphabetic()
}
fn is_ident(c: char) -> bool {
    c == '_' || c.is_ascii_alphanumeric()
}

/// tokens: identifiers/numbers as words, everything else char by char
fn words(s: &str) -> Vec<String> {
    let cs: Vec<char> = s.chars().collect();
    let mut out = Vec::new();
    let mut i = 0;
    while i < cs.len() {
        if is_ident(cs[i]) {
            let st = i;
            while i < cs.len() && is_ident(cs[i]) {
                i += 1;
            }
            out.push(cs[st..i].iter().collect());
        } else {
            out.push(cs[i].to_string());
            i += 1;
        }
    }
    out
}

/// Reference expansion of all macro uses in `text`: whole-word, simultaneous parameter substitution,
/// nested uses expanded recursively, cycles and unknown names reported.
pub fn expand(text: &str, macros: &HashMap<String, MacroDef>, active: &mut Vec<String>) -> Result<String, ExpErr> {
    let w = words(text);
    let mut out = String::new();
    let mut i = 0;
    while i < w.len() {
        let t = &w[i];
        let is_word = t.chars().next().map(is_ident_start).unwrap_or(false);
        if is_word {
            // a macro use is an identifier followed (after white space) by '('
            let mut j = i + 1;
            while j < w.len() && w[j].trim().is_empty() {
                j += 1;
            }
            if j < w.len() && w[j] == "(" {
                // collect arguments up to the matching ')', splitting on top-level commas
                let mut depth = 0i32;
                let mut args: Vec<String> = vec![String::new()];
                let mut k = j + 1;
                let mut closed = false;
                while k < w.len() {
                    let x = &w[k];
                    if (x == ")" || x == "]") && depth == 0 {
                        if x == ")" {
                            closed = true;
                        }
                        break;
                    }
                    if x == "(" || x == "[" {
                        depth += 1;
                    }
                    if x == ")" || x == "]" {
                        depth -= 1;
                    }
                    if x == "," && depth == 0 {
                        args.push(String::new());
                    } else {
                        args.last_mut().unwrap().push_str(x);
                    }
                    k += 1;
                }
                if closed {
                    let args: Vec<String> = args.into_iter().map(|a| a.trim().to_string()).filter(|a| !a.is_empty()).collect();
                    let def = match macros.get(t) {
                        Some(d) => d,
                        None => return Err(ExpErr::Unknown(t.clone())),
                    };
                    if active.contains(t) {
                        return Err(ExpErr::Cycle(t.clone()));
                    }
                    if args.len() != def.params.len() {
                        return Err(ExpErr::Arity(t.clone()));
                    }
                    // simultaneous whole-word substitution
                    let mut body = String::new();
                    for bw in words(&def.body) {
                        match def.params.iter().position(|p| *p == bw) {
                            Some(pi) => body.push_str(&args[pi]),
                            None => body.push_str(&bw),
                        }
                    }
                    active.push(t.clone());
                    let inner = expand(&body, macros, active)?;
                    active.pop();
                    out.push(' ');
                    out.push_str(&inner);
                    out.push(' ');
                    i = k + 1;
                    continue;
                }
            }
        }
        out.push_str(t);
        i += 1;
    }
    Ok(out)
}

pub struct Case {
    pub family: &'static str,
    pub defs: Vec<MacroDef>,
    /// data section text
    pub data: String,
    /// code text after the macro definitions; `uses` are the top-level use texts inside it
    pub code: String,
}

fn render_case(c: &Case) -> String {
    let mut s = c.data.clone();
    // the families "definition-layout-<k>" write the definition in other (accepted) layouts: the body directly
    // against the arrows, no blanks anywhere, blanks around the parameters, upper-case keyword
    let layout: usize = c.family.strip_prefix("definition-layout-").and_then(|k| k.parse().ok()).unwrap_or(0);
    for d in c.defs.iter() {
        match layout {
            1 => s.push_str(&format!("macro {} ({}) ->{}<-\n", d.name, d.params.join(","), d.body)),
            2 => s.push_str(&format!("macro {}({})->{}<-\n", d.name, d.params.join(","), d.body)),
            3 => s.push_str(&format!("macro {} ( {} ) -> {}<-\n", d.name, d.params.join(" , "), d.body)),
            4 => s.push_str(&format!("MACRO {} ({}) ->{} <-\n", d.name, d.params.join(", "), d.body)),
            _ => s.push_str(&format!("macro {} ({}) -> {} <-\n", d.name, d.params.join(","), d.body)),
        }
    }
    s.push_str(&c.code);
    s
}

fn check(rep: &Reporter, cnt: &Counters, st: &(AtomicU64, AtomicU64, AtomicU64), case: &Case) {
    let src = render_case(case);
    let macros: HashMap<String, MacroDef> = case.defs.iter().map(|d| (d.name.clone(), d.clone())).collect();
    st.0.fetch_add(1, Ordering::Relaxed);
    let refexp = expand(&case.code, &macros, &mut vec![]);
    let refexp_txt = format!("{:?}", refexp);
    let got = assemble(&src);
    let viol = |field: &str, expected: String, got: String| {
        if rep.absorbed_by(case.family, field, &[], None, &got) {
            return;
        }
        rep.report(Viol {
            site: case.family.into(),
            field: field.into(),
            vars: vec![],
            got_val: None,
            expected,
            got,
            case: json!({"src": src, "reference_expansion": refexp_txt}),
            weight: src.len() as u64,
        });
    };
    // position of the first top-level macro use (identifier followed by '(') in the code part
    let code_start = src.len() - case.code.len();
    let use_pos = {
        let re = regex::Regex::new(r"[_a-zA-Z][_a-zA-Z0-9]*\s*\(").unwrap();
        // skip "def name {" etc: the first match whose identifier is not a keyword
        re.find_iter(&case.code).map(|m| code_start + m.start()).collect::<Vec<_>>()
    };
    match refexp {
        Err(e) => {
            st.1.fetch_add(1, Ordering::Relaxed);
            match got {
                Ok(a) => viol("accepted", format!("rejected ({:?})", e), format!("accepted: {:?}", a.code)),
                Err(AsmErr::Panic(m)) => viol("panic", format!("diagnostic ({:?})", e), format!("PANIC {}", m)),
                Err(AsmErr::Diag { pos, msg }) => {
                    if msg.trim().is_empty() {
                        viol("diagnostic", "non-empty diagnostic".into(), msg.clone());
                    }
                    match pos {
                        Some(p) if use_pos.contains(&p) => {}
                        other => viol("position", format!("diagnostic at a macro use site {:?}", use_pos), format!("{:?}: {}", other, msg)),
                    }
                    cnt.outcome("rejected-cycle-or-unknown");
                }
            }
        }
        Ok(exp_code) => {
            let exp_src = format!("{}{}", case.data, exp_code);
            let want = assemble(&exp_src);
            match (want, got) {
                (Ok(w), Ok(g)) => {
                    st.2.fetch_add(1, Ordering::Relaxed);
                    // labels: kind and position in the output (instruction index / offset in the segment)
                    let lab = |a: &crate::pipe::Asm| -> Vec<(String, bool, usize)> {
                        let mut v: Vec<(String, bool, usize)> = a.labels.iter().map(|(k, l)| (k.clone(), l.is_code, l.map)).collect();
                        v.sort();
                        v
                    };
                    if w.code != g.code {
                        viol("expansion", format!("{:?}", w.code), format!("{:?}", g.code));
                    } else if w.fns != g.fns || w.labels.len() != g.labels.len() {
                        viol("expansion-maps", format!("{:?} {:?}", w.fns, w.labels.keys()), format!("{:?} {:?}", g.fns, g.labels.keys()));
                    } else if w.data != g.data {
                        viol("expansion-data", format!("{:?}", w.data), format!("{:?}", g.data));
                    } else if lab(&w) != lab(&g) {
                        viol("expansion-labels", format!("{:?}", lab(&w)), format!("{:?}", lab(&g)));
                    }
                    cnt.outcome("expanded");
                }
                (Err(_), Err(AsmErr::Diag { pos, msg })) => {
                    // invalid expansion: diagnostic at a use site (or at the same place as for the pasted text
                    // when the error is outside any macro)
                    if msg.trim().is_empty() {
                        viol("diagnostic", "non-empty diagnostic".into(), msg);
                    } else if let Some(p) = pos {
                        // an error that comes out of a macro expansion (at any nesting depth) is reported at
                        // a use site in the file, never at an offset inside the expanded text
                        if !use_pos.contains(&p) && !use_pos.is_empty() && msg.contains("Macro") {
                            viol("position", format!("diagnostic at a macro use site {:?}", use_pos), format!("{}: {}", p, msg));
                        }
                    }
                    cnt.outcome("rejected-invalid-expansion");
                }
                (Err(e), Ok(g)) => viol("accepted", format!("rejected like the pasted expansion ({:?})", e), format!("{:?}", g.code)),
                (Ok(w), Err(e)) => viol("rejected", format!("same as the pasted expansion: {:?}", w.code), format!("{:?}", e)),
                (_, Err(AsmErr::Panic(m))) => viol("panic", "result or diagnostic".into(), format!("PANIC {}", m)),
            }
        }
    }
}

const DATA: &str = "ab: db 1\na1: db 2\nw1: dw 3\n";

fn family_graphs(n: usize) -> Vec<Case> {
    // every use graph over n macros: macro i uses the macros of subset S_i (incl. itself)
    let mut out = Vec::new();
    let names = ["m0", "m1", "m2", "m3"];
    let subsets = 1usize << n;
    let total = subsets.pow(n as u32);
    for g in 0..total {
        let mut defs = Vec::new();
        let mut x = g;
        for i in 0..n {
            let s = x % subsets;
            x /= subsets;
            let mut body = String::from("inc a");
            for j in 0..n {
                if s & (1 << j) != 0 {
                    body.push_str(&format!(" {}(a)", names[j]));
                }
            }
            defs.push(MacroDef { name: names[i].into(), params: vec!["a".into()], body });
        }
        for user in 0..n {
            let regs = ["ax", "bx", "cx", "dx"];
            // top level
            out.push(Case { family: "graph", defs: defs.clone(), data: DATA.into(), code: format!("start:\nstc\n{}({})\nclc\n", names[user], regs[user]) });
        }
        // inside a procedure (first macro only, to bound the count)
        out.push(Case { family: "graph-in-proc", defs: defs.clone(), data: DATA.into(), code: format!("def f {{\ncmc\n{}(si)\n}}\nstart:\ncall f\n", names[g % n]) });
    }
    out
}

fn family_substitution(thorough: bool) -> Vec<Case> {
    let mut out = Vec::new();
    // (the last four are spelled like the tail of a hex / binary literal or like a register fragment)
    let plists: Vec<Vec<&str>> = vec![vec!["a"], vec!["ab"], vec!["a", "ab"], vec!["ab", "a"], vec!["a", "a1"], vec!["_a", "a"], vec!["b", "a"], vec!["a1", "b"], vec!["x1"], vec!["b1", "x1"], vec!["xF", "b101"], vec!["x", "l"]];
    // X, Y stand for the first / second parameter (Y = X when there is one)
    let templates = [
        "add X, Y",
        "mov X, Y",
        "inc X",
        "mov al, byte [bx, X]",
        "mov cl, byte ab mov dl, byte a1 inc X",
        "push X pop Y",
        "X (Y)",
        "mov word [bx, si, X], Y",
        "mov Y, word w1 add X, 1",
        // positions that take unsigned constants only, and a direct address
        "and X, Y",
        "test X, Y",
        "mov al, byte [X]",
        // literals whose tails look like parameter names
        "add X, 0x1 sub Y, 0b1",
        "mov X, 0xF add Y, 0b101 mov al, 0x1",
    ];
    let args = ["ax", "BX", "cl", "ds", "5", "0x10", "0b101", "65535", "0x8000", "40000", "byte [bx]", "word [bx, si, 2]", "word es[di]", "word ds[bp, 2]", "byte ds[bp, si]", "word ss[bx]", "byte ab", "word w1", "ab", "m", "zz"];
    for pl in plists.iter() {
        for t in templates.iter() {
            let x = pl[0];
            let y = if pl.len() > 1 { pl[1] } else { pl[0] };
            let mut body = String::new();
            for wd in words(t) {
                match wd.as_str() {
                    "X" => body.push_str(x),
                    "Y" => body.push_str(y),
                    o => body.push_str(o),
                }
            }
            let def = MacroDef { name: "m".into(), params: pl.iter().map(|s| s.to_string()).collect(), body };
            let helper = MacroDef { name: "zz".into(), params: vec!["q".into()], body: "dec q".into() };
            for (i0, a0) in args.iter().enumerate() {
                for (i1, a1) in args.iter().enumerate() {
                    if pl.len() == 1 && a1 != a0 {
                        continue;
                    }
                    // quick: each argument kind in each slot, paired with two partners
                    if !thorough && pl.len() > 1 && i1 != (i0 * 5 + 3) % args.len() && i1 != (i0 * 3 + 8) % args.len() {
                        continue;
                    }
                    let use_args = if pl.len() == 1 { a0.to_string() } else { format!("{}, {}", a0, a1) };
                    out.push(Case { family: "substitution", defs: vec![helper.clone(), def.clone()], data: DATA.into(), code: format!("start:\nm({})\nhlt\n", use_args) });
                    // the same use inside a procedure, and twice in a row with a label in between
                    if (i0 + i1) % 4 == 0 || thorough {
                        out.push(Case { family: "substitution-in-proc", defs: vec![helper.clone(), def.clone()], data: DATA.into(), code: format!("def f {{\ncmc\nm({})\nq9:\nm({})\n}}\nstart:\ncall f\n", use_args, use_args) });
                    }
                }
            }
        }
    }
    out
}

fn family_special() -> Vec<Case> {
    let mut out = Vec::new();
    let d = |n: &str, p: &[&str], b: &str| MacroDef { name: n.into(), params: p.iter().map(|s| s.to_string()).collect(), body: b.into() };
    // the parameter name "_" (syntax.md uses it for "no parameter": defined and used with _) is a name like any
    // other when the body mentions it and the use passes something else
    out.push(Case { family: "underscore-parameter", defs: vec![d("skip", &["_"], "jmp _")], data: String::new(), code: "start:\nskip(done)\ninc ax\ndone:\n_:\n".into() });
    out.push(Case { family: "underscore-parameter", defs: vec![d("both", &["_"], "mov ax, _ mov bx, _")], data: String::new(), code: "start:\nboth(0x1234)\nboth(cx)\n".into() });
    out.push(Case { family: "underscore-parameter", defs: vec![d("two", &["_", "v"], "mov _, v")], data: String::new(), code: "start:\ntwo(dx, 7)\n".into() });
    out.push(Case { family: "underscore-parameter", defs: vec![d("none", &["_"], "cld")], data: String::new(), code: "start:\nnone(_)\nnone(_)\n".into() });
    out.push(Case { family: "underscore-parameter", defs: vec![d("a_", &["_a", "a_"], "mov _a, a_")], data: String::new(), code: "start:\na_(si, 3)\n".into() });
    // definition layouts: the first and the last word of the body is a parameter / a keyword / a bracket, written
    // directly against the arrows
    for fam in ["definition-layout-1", "definition-layout-2", "definition-layout-3", "definition-layout-4"] {
        let fam: &'static str = fam;
        out.push(Case { family: fam, defs: vec![d("m", &["r"], "inc r")], data: String::new(), code: "start:\nm(ax)\nm(bx)\n".into() });
        out.push(Case { family: fam, defs: vec![d("m", &["r", "v"], "mov r,v")], data: String::new(), code: "start:\nm(ax,5)\nm(cl, 0x12)\n".into() });
        out.push(Case { family: fam, defs: vec![d("m", &["v", "r"], "mov r, v")], data: String::new(), code: "start:\nm(7, dx)\n".into() });
        out.push(Case { family: fam, defs: vec![d("m", &["l"], "dec cx jnz l")], data: String::new(), code: "start:\nmov cx, 2\nagain:\nm(again)\n".into() });
        out.push(Case { family: fam, defs: vec![d("m", &["r"], "mov al, byte [r]")], data: String::new(), code: "start:\nm(bx)\nm(si)\n".into() });
        out.push(Case { family: fam, defs: vec![d("one", &["r"], "inc r"), d("m", &["f", "r"], "f (r) dec r f (r)")], data: String::new(), code: "start:\nm(one, ax)\n".into() });
        out.push(Case { family: fam, defs: vec![d("one", &["r"], "inc r"), d("m", &["r"], "one(r)")], data: String::new(), code: "def p {\nm(bx)\n}\nstart:\nm(ax)\ncall p\n".into() });
        out.push(Case { family: fam, defs: vec![d("m", &[], "cld")], data: String::new(), code: "start:\nm()\nm()\n".into() });
    }
    // by-name passing (documented example) and a cycle closed through a name argument
    out.push(Case { family: "by-name", defs: vec![d("a", &["q"], "ADD AX,q"), d("b", &["k", "q"], "k (q)")], data: String::new(), code: "start:\nb(a,5)\n".into() });
    out.push(Case { family: "by-name-cycle", defs: vec![d("m0", &["f", "a"], "inc a f (f, a)")], data: String::new(), code: "start:\nm0(m0, ax)\n".into() });
    out.push(Case { family: "by-name-cycle", defs: vec![d("p", &["f"], "f (q)"), d("q", &["f"], "f (p)")], data: String::new(), code: "start:\np(q)\n".into() });
    // a label / procedure spelled like the macro it is passed to (separate name spaces), also inside another macro
    out.push(Case { family: "name-spaces", defs: vec![d("again", &["l"], "dec cx jnz l")], data: String::new(), code: "start:\nmov cx, 3\nagain:\nagain(again)\n".into() });
    out.push(Case { family: "name-spaces", defs: vec![d("go", &["l"], "jmp l"), d("count", &["l"], "dec cx go(count) inc l")], data: String::new(), code: "start:\ncount(ax)\ncount:\nhlt\n".into() });
    out.push(Case { family: "name-spaces", defs: vec![d("f", &["p"], "call p")], data: String::new(), code: "def f {\ninc ax\n}\nstart:\nf(f)\n".into() });
    // macros that produce DATA definitions (the grammar wants all plain data before the first macro definition, so
    // such uses always follow the plain data): the data image is that of the pasted text, and a segment that the
    // produced definitions push past 64 KiB is refused like the pasted text
    for (data, code) in [
        ("x: db 2\n", "tbl(1)\ntbl(3)\nstart:\nmov al, byte x\n"),
        ("x: db 2\ny: dw 4\n", "pair(7, 513)\npair(1, 2)\ntbl(9)\nstart:\nmov al, byte x\nmov bx, offset y\n"),
        ("set 0x10\nx: dw 4\n", "tbl(1)\nblk(3)\npair(3, 4)\nstart:\nmov ax, word x\n"),
        ("x: db [30000]\n", "blk(30000)\nstart:\nmov al, byte x\n"),
        ("x: db [30000]\n", "blk(30000)\nblk(30000)\nstart:\nmov al, byte x\n"),
        ("x: db 1\n", "blk(30000)\nblk(30000)\nblk(30000)\nstart:\nmov al, byte x\n"),
        ("x: db 1\n", "blk(65535)\ntbl(1)\nstart:\nmov al, byte x\n"),
        ("x: db 1\n", "blk(65534)\ntbl(1)\nstart:\nmov al, byte x\n"),
        ("", "wrap(tbl, 5)\nstart:\nhlt\n"),
        ("x: db [65000]\n", "wrap(blk, 300)\nstart:\nhlt\n"),
    ] {
        out.push(Case {
            family: "data-macros",
            defs: vec![d("tbl", &["v"], "db v"), d("pair", &["a", "b"], "db a dw b"), d("blk", &["n"], "db [n]"), d("wrap", &["f", "v"], "f(v) f(v)")],
            data: data.to_string(),
            code: code.to_string(),
        });
    }
    // parameter names are case-sensitive like every other name: an identifier in the body that differs from a
    // parameter only in case (a label, a data label, a procedure) is not the parameter
    out.push(Case { family: "parameter-case", defs: vec![d("br", &["t"], "jz t jmp T")], data: String::new(), code: "start:\nxor ax, ax\nbr(near_)\nnear_:\ninc cx\nT:\ninc dx\n".into() });
    out.push(Case { family: "parameter-case", defs: vec![d("br", &["T"], "jz T jmp t")], data: String::new(), code: "start:\nxor ax, ax\nbr(near_)\nnear_:\ninc cx\nt:\ninc dx\n".into() });
    out.push(Case { family: "parameter-case", defs: vec![d("ld", &["v"], "mov al, byte V mov bl, v")], data: "V: db 7\n".into(), code: "start:\nld(3)\n".into() });
    out.push(Case { family: "parameter-case", defs: vec![d("cl_", &["p"], "call P inc p")], data: String::new(), code: "def P {\ninc si\n}\nstart:\ncl_(ax)\n".into() });
    out.push(Case { family: "parameter-case", defs: vec![d("two", &["x", "X"], "mov x, 1 mov X, 2")], data: String::new(), code: "start:\ntwo(ax, bx)\ntwo(cx, dx)\n".into() });
    out.push(Case { family: "parameter-case", defs: vec![d("inner", &["q"], "inc q"), d("outer", &["Q"], "inner(Q) jmp q")], data: String::new(), code: "start:\nouter(ax)\nq:\n".into() });
    // a macro that leaves through the same label more than once, the label defined before / after the use /
    // inside a procedure; the same macro used twice with the same label
    for (k, code) in [
        "start:\nmov ax, 5\noor(ax, bad)\nmov bx, 1\njmp done\nbad:\nmov bx, 2\ndone:\n",
        "start:\njmp over\nbad:\nhlt\nover:\noor(ax, bad)\n",
        "start:\noor(ax, bad)\noor(bx, bad)\noor(cx, done)\nbad:\ndone:\n",
        "def f {\noor(ax, out_)\ninc si\nout_:\n}\nstart:\ncall f\n",
    ]
    .iter()
    .enumerate()
    {
        let _ = k;
        out.push(Case { family: "repeated-target", defs: vec![d("oor", &["x", "l"], "cmp x,10 ja l cmp x,0 je l loop l")], data: String::new(), code: code.to_string() });
        out.push(Case { family: "repeated-target", defs: vec![d("go", &["l"], "jmp l"), d("oor", &["x", "l"], "cmp x,10 ja l go(l) go(l)")], data: String::new(), code: code.to_string() });
    }
    // macro names that contain each other (suffix, prefix, infix): a macro using, directly or through a name
    // argument, a macro whose name merely CONTAINS its own name is not recursive; using itself still is
    {
        let names = ["ap", "swap", "apx", "swapx", "s", "wa", "init", "reinit"];
        for a in names {
            for b2 in names {
                if a == b2 {
                    out.push(Case { family: "name-relations", defs: vec![d(a, &["p"], &format!("inc p {}(p)", a))], data: String::new(), code: format!("start:\n{}(ax)\n", a) });
                    continue;
                }
                if !(a.contains(b2) || b2.contains(a)) {
                    continue;
                }
                out.push(Case { family: "name-relations", defs: vec![d(b2, &["p"], "dec p"), d(a, &["p"], &format!("inc p {}(p) {} (p)", b2, b2))], data: String::new(), code: format!("start:\n{}(ax)\n{}(bx)\n", a, b2) });
                out.push(Case { family: "name-relations", defs: vec![d(a, &["f", "p"], "inc p f(p)"), d(b2, &["p"], "dec p")], data: String::new(), code: format!("start:\n{}({}, cx)\n", a, b2) });
                // three levels: a -> b -> a-like third name
                out.push(Case { family: "name-relations", defs: vec![d("leaf", &["p"], "not p"), d(b2, &["p"], "dec p leaf(p)"), d(a, &["p"], &format!("{}(p) inc p", b2))], data: String::new(), code: format!("def f {{\n{}(si)\n}}\nstart:\ncall f\n", a) });
            }
        }
    }
    // the same macro used twice with argument lists that read the same when run together (1,12 / 11,2):
    // every use is expanded from its own arguments
    {
        let vals = ["1", "11", "12", "2", "112", "21"];
        for a in vals {
            for b2 in vals {
                for c2 in vals {
                    for e in vals {
                        if (a, b2) == (c2, e) || format!("{}{}", a, b2) != format!("{}{}", c2, e) {
                            continue;
                        }
                        out.push(Case { family: "colliding-arguments", defs: vec![d("setpos", &["r", "c"], "mov dh, r mov dl, c")], data: String::new(), code: format!("start:\nsetpos({}, {})\nsetpos({}, {})\n", a, b2, c2, e) });
                    }
                }
            }
        }
        out.push(Case { family: "colliding-arguments", defs: vec![d("pr", &["x", "y"], "mov x, y")], data: String::new(), code: "start:\npr(al, 1)\npr(a, l1)\n".into() });
    }
    // no-parameter macros
    out.push(Case { family: "no-param", defs: vec![d("n", &["_"], "stc cmc")], data: String::new(), code: "start:\nn(_)\nn(_)\n".into() });
    // unknown macro at top level and inside a body
    out.push(Case { family: "unknown", defs: vec![], data: String::new(), code: "start:\nnothere(ax)\n".into() });
    out.push(Case { family: "unknown", defs: vec![d("m", &["a"], "inc a nothere(a)")], data: String::new(), code: "start:\nstc\nm(ax)\n".into() });
    // a macro defined after its use
    out.push(Case { family: "unknown", defs: vec![], data: String::new(), code: "start:\nlate(ax)\nmacro late (a) -> inc a <-\n".into() });
    // two uses of the same macro in one body are not recursion
    out.push(Case { family: "reuse", defs: vec![d("i", &["a"], "inc a"), d("t", &["a"], "i(a) i(a) i(a)")], data: String::new(), code: "start:\nt(bx)\nt(cx)\n".into() });
    // redefinition: the later definition wins for later uses (both texts pasted accordingly by the reference: skipped)
    // parameter named like a mnemonic fragment / register prefix
    out.push(Case { family: "substitution", defs: vec![d("m", &["a", "a_l"], "mov a_l, a")], data: String::new(), code: "start:\nm(5, bl)\n".into() });
    // every sequence of up to 3 uses over macros with an empty body, a blank body, a plain body and a body
    // that uses the empty macro twice: using a macro must leave no trace that changes a later use
    {
        let defs = vec![d("e", &["a"], ""), d("s", &["a"], " "), d("i", &["a"], "inc a"), d("w", &["a"], "e(a) inc a e(a)")];
        let names = ["e", "s", "i", "w"];
        let mut seqs: Vec<Vec<usize>> = vec![];
        for a in 0..4 {
            seqs.push(vec![a]);
            for b in 0..4 {
                seqs.push(vec![a, b]);
                for c in 0..4 {
                    seqs.push(vec![a, b, c]);
                }
            }
        }
        for sq in seqs {
            let uses: String = sq.iter().map(|k| format!("{}(bx)\n", names[*k])).collect();
            out.push(Case { family: "use-sequence", defs: defs.clone(), data: String::new(), code: format!("start:\nstc\n{}clc\n", uses) });
            out.push(Case { family: "use-sequence", defs: defs.clone(), data: String::new(), code: format!("def f {{\ncmc\n{}}}\nstart:\ncall f\n{}", uses, uses) });
        }
    }
    // macros with 9 .. 13 parameters, every parameter used, in order, reversed, and the last one alone
    for np in [9usize, 10, 11, 12, 13] {
        let params: Vec<String> = (0..np).map(|k| format!("p{}", k)).collect();
        let pr: Vec<&str> = params.iter().map(|x| x.as_str()).collect();
        let args: Vec<String> = (0..np).map(|k| format!("{}", 100 + 7 * k)).collect();
        let fwd: String = (0..np).map(|k| format!("add ax, p{} ", k)).collect();
        let rev: String = (0..np).rev().map(|k| format!("add bx, p{} ", k)).collect();
        for body in [fwd.clone(), rev.clone(), format!("mov cx, p{}", np - 1), format!("mov cx, p{} mov dx, p1 mov si, p0", np - 1)] {
            out.push(Case { family: "many-parameters", defs: vec![d("big", &pr, body.trim())], data: String::new(), code: format!("start:\nbig({})\n", args.join(", ")) });
        }
    }
    // chains of moderate depth
    for depth in [1usize, 2, 4, 8, 16, 32, 64] {
        let mut defs = vec![d("c0", &["a"], "inc a")];
        for k in 1..=depth {
            defs.push(MacroDef { name: format!("c{}", k), params: vec!["a".into()], body: format!("c{}(a)", k - 1) });
        }
        out.push(Case { family: "chain", defs, data: String::new(), code: format!("start:\nc{}(dx)\n", depth) });
    }
    out
}

/// deep chains through the real binary (process isolation: a stack overflow must show as a signal)
fn deep_chains(rep: &Reporter, cnt: &Counters, depths: &[usize]) {
    ensure_bin();
    depths.par_iter().for_each(|depth| {
        let mut src = String::from("macro c0 (a) -> inc a <-\n");
        for k in 1..=*depth {
            src.push_str(&format!("macro c{} (a) -> c{}(a) <-\n", k, k - 1));
        }
        src.push_str(&format!("start:\nc{}(dx)\nprint reg\n", depth));
        let o = run_cli(&src, "", &CliOpts { timeout_ms: 60000, ..Default::default() });
        cnt.add_exec(1);
        let out = o.out();
        let expanded_ok = o.abnormal().is_none() && parse_regs(&out).iter().any(|(k, v)| k == "DX" && *v == 1);
        let diagnosed = o.abnormal().is_none() && out.to_ascii_lowercase().contains("error") && sections(&out).1.is_empty();
        let ok = if *depth <= 64 { expanded_ok } else { expanded_ok || diagnosed };
        cnt.outcome(if expanded_ok { "chain-expanded" } else if diagnosed { "chain-diagnosed" } else { "chain-abnormal" });
        if !ok {
            let vars = vec![("depth".to_string(), *depth as i64)];
            let got = o.summary();
            let vr: Vec<(&str, i64)> = vars.iter().map(|(a, b)| (a.as_str(), *b)).collect();
            if !rep.absorbed_by("deep-chain", "termination", &vr, None, &got) {
                rep.report(Viol {
                    site: "deep-chain".into(),
                    field: "termination".into(),
                    vars,
                    got_val: None,
                    expected: if *depth <= 64 { "DX=1 after the expansion".into() } else { "DX=1 after the expansion, or a diagnostic (never an abort)".into() },
                    got,
                    case: json!({"src": if src.len() > 3000 { format!("{}…", &src[..3000]) } else { src.clone() }, "depth": depth}),
                    weight: *depth as u64,
                });
            }
        }
    });
}

/// recursion that appears only on a LATER use of a macro that has already expanded without trouble (a macro
/// calling a parameter passed by name): through the real binary, because a missing guard ends in a stack overflow
fn late_recursion(rep: &Reporter, cnt: &Counters) -> usize {
    ensure_bin();
    let defs = "macro skip(a) -> inc ax <-\nmacro run(k) -> k (k) <-\nmacro run2(k, a) -> inc a k (k, a) <-\nmacro p(f) -> f (q) <-\nmacro q(f) -> f (p) <-\nmacro twice(k) -> k (skip) k (skip) <-\n";
    // (harmless uses, then the use that closes a cycle)
    let cases: Vec<(Vec<&str>, &str)> = vec![
        (vec!["run(skip)"], "run(run)"),
        (vec!["run(skip)", "run(skip)"], "run(run)"),
        (vec!["run2(skip, bx)"], "run2(run2, bx)"),
        (vec!["p(skip)"], "p(q)"),
        (vec!["p(skip)", "q(skip)"], "q(p)"),
        (vec!["twice(run)"], "twice(twice)"),
        (vec!["twice(skip)", "run(skip)"], "run(twice)"),
        (vec![], "run(run)"),
    ];
    let mut progs: Vec<(String, String)> = Vec::new();
    for (ok, bad) in cases.iter() {
        for in_proc in [false, true] {
            let mut src = String::from(defs);
            if in_proc {
                src.push_str("def f {\n");
                for u in ok.iter() {
                    src.push_str(u);
                    src.push('\n');
                }
                src.push_str("}\nstart:\ncall f\n");
            } else {
                src.push_str("start:\n");
                for u in ok.iter() {
                    src.push_str(u);
                    src.push('\n');
                }
            }
            src.push_str(bad);
            src.push_str("\nprint reg\n");
            progs.push((format!("{:?} then {}{}", ok, bad, if in_proc { " (harmless uses inside a procedure)" } else { "" }), src));
        }
    }
    progs.par_iter().for_each(|(name, src)| {
        let o = run_cli(src, "", &CliOpts { timeout_ms: 20000, ..Default::default() });
        cnt.add_exec(1);
        let out = o.out();
        let ok = o.abnormal().is_none() && sections(&out).1.is_empty() && !out.trim().is_empty();
        if !ok {
            rep.report(Viol { site: "late-recursion".into(), field: "rejected".into(), vars: vec![], got_val: None, expected: "a diagnostic for the recursive use, nothing executed, normal exit".into(), got: format!("{}: {}", name, clip_text(&o.summary(), 600)), case: json!({"src": src, "stdin": "", "interpreted": false}), weight: src.len() as u64 });
        }
    });
    progs.len()
}

/// Redefinition histories: a macro may be defined again, and from then on uses (also uses from inside other
/// macros) take the new body. Every sequence of up to `depth` events over {use outer(ax), use outer(bx), use
/// inner(cx), inner := 3 bodies, inner := outer(r) (closes a cycle), outer := one use of inner} is written as a
/// program and compared with the same program with the bodies that are current AT EACH USE written in place;
/// a use that runs into the cycle must be refused. (An expansion cached by name and arguments is seen here.)
fn redefinition_histories(rep: &Reporter, c: &Counters, depth: usize) -> (u64, u64) {
    const INNER: [&str; 4] = ["inc r", "add r, 5", "dec r", "outer(r)"];
    const OUTER: [&str; 2] = ["inner(r) inner(r)", "inner(r)"];
    // events: 0,1,2 uses; 3..=6 inner := INNER[k-3]; 7 outer := OUTER[1]; 8 outer := OUTER[0]
    let n_ev = 9usize;
    let mut seqs: Vec<Vec<usize>> = vec![vec![]];
    let mut all: Vec<Vec<usize>> = Vec::new();
    for _ in 0..depth {
        let mut next = Vec::new();
        for s in seqs.iter() {
            for e in 0..n_ev {
                let mut t = s.clone();
                t.push(e);
                next.push(t);
            }
        }
        all.extend(next.iter().cloned());
        seqs = next;
    }
    // only histories with at least one use and one redefinition say something
    let all: Vec<Vec<usize>> = all.into_iter().filter(|s| s.iter().any(|e| *e < 3) && s.iter().any(|e| *e >= 3)).collect();
    let refused = AtomicU64::new(0);
    all.par_iter().for_each(|seq| {
        let (mut inner, mut outer) = (0usize, 0usize);
        let mut with_macros = format!("macro inner (r) -> {} <-\nmacro outer (r) -> {} <-\nstart:\nmov ax, 8\n", INNER[0], OUTER[0]);
        let mut pasted = String::from("start:\nmov ax, 8\n");
        let mut cyclic = false;
        for e in seq.iter() {
            match *e {
                0 | 1 | 2 => {
                    let (name, arg) = [("outer", "ax"), ("outer", "bx"), ("inner", "cx")][*e];
                    with_macros.push_str(&format!("{}({})\n", name, arg));
                    // what the use stands for now
                    if inner == 3 {
                        // inner uses outer, outer uses inner: any use runs into the cycle
                        cyclic = true;
                    } else {
                        // the current body of inner with the argument in place of r
                        let one = match inner {
                            0 => format!("inc {}", arg),
                            1 => format!("add {}, 5", arg),
                            _ => format!("dec {}", arg),
                        };
                        let times = if name == "inner" { 1 } else if outer == 0 { 2 } else { 1 };
                        for _ in 0..times {
                            pasted.push_str(&one);
                            pasted.push('\n');
                        }
                    }
                }
                3..=6 => {
                    inner = *e - 3;
                    with_macros.push_str(&format!("macro inner (r) -> {} <-\n", INNER[inner]));
                }
                7 => {
                    outer = 1;
                    with_macros.push_str(&format!("macro outer (r) -> {} <-\n", OUTER[1]));
                }
                _ => {
                    outer = 0;
                    with_macros.push_str(&format!("macro outer (r) -> {} <-\n", OUTER[0]));
                }
            }
        }
        with_macros.push_str("hlt\n");
        pasted.push_str("hlt\n");
        c.add_exec(1);
        let got = assemble(&with_macros);
        let viol = |field: &str, expected: String, got: String| {
            rep.report(Viol { site: "redefinition".into(), field: field.into(), vars: vec![], got_val: None, expected, got, case: json!({"src": with_macros, "pasted": pasted}), weight: with_macros.len() as u64 });
        };
        if cyclic {
            refused.fetch_add(1, Ordering::Relaxed);
            if let Ok(a) = &got {
                viol("cycle-accepted", "refused: a use runs into inner -> outer -> inner".into(), format!("{:?}", a.code));
            }
            return;
        }
        let want = match assemble(&pasted) {
            Ok(a) => a,
            Err(e) => {
                eprintln!("MACHINERY: C13 pasted program refused: {:?}\n{}", e, pasted);
                std::process::exit(2);
            }
        };
        match got {
            Ok(a) => {
                if a.code != want.code {
                    viol("output", format!("{:?}", want.code), format!("{:?}", a.code));
                }
            }
            Err(e) => viol("rejected", format!("same as the pasted program: {:?}", want.code), format!("{:?}", e)),
        }
    });
    (all.len() as u64, refused.load(Ordering::Relaxed))
}

pub fn run(tier: &Tier) -> i32 {
    let rep_o = Reporter::new("C13", tier.name());
    let c_o = Counters::default();
    let rep = &rep_o;
    let c = &c_o;
    let st = (AtomicU64::new(0), AtomicU64::new(0), AtomicU64::new(0));
    let mut cases = Vec::new();
    cases.extend(family_graphs(1));
    cases.extend(family_graphs(2));
    cases.extend(family_graphs(3));
    if tier.thorough {
        cases.extend(family_graphs(4));
    }
    cases.extend(family_substitution(tier.thorough));
    cases.extend(family_special());
    cases.par_iter().for_each(|k| {
        check(rep, c, &st, k);
        c.add_exec(1);
    });
    for k in cases.iter().step_by(cases.len() / 6 + 1) {
        c.sample(json!({"family": k.family, "src": render_case(k)}));
    }
    let depths: Vec<usize> = if tier.thorough { vec![1, 2, 4, 8, 16, 32, 64, 128, 256, 512, 1024, 2048, 4096] } else { vec![1, 8, 64, 128, 256, 1024, 4096] };
    deep_chains(rep, c, &depths);
    let n_late = late_recursion(rep, c);
    let (n_redef, n_redef_cyclic) = redefinition_histories(rep, c, if tier.thorough { 5 } else { 4 });
    c.states.fetch_add(st.0.load(Ordering::Relaxed), Ordering::Relaxed);
    let mut cov = Coverage::default();
    cov.exhaustive = true;
    cov.rule = "differential: the program with macros must emit exactly what the real Preprocessor emits for the reference expansion (whole-word, simultaneous textual substitution, nested uses expanded) pasted in place. Families: EVERY use graph over 1, 2 and 3 macros (4 in thorough; each macro uses any subset of the macros incl. itself => all DAGs and all cyclic graphs), used from top level by each macro and from inside a procedure; parameter lists whose names are prefixes/substrings of each other, of body tokens and of the tails of numeric literals in the body x 12 body templates (register, immediate, unsigned-only immediate, direct address, memory, displacement and macro-name slots) x 21 argument kinds squared (incl. constants above 0x7FFF and DS / SS overrides on BP- and BX-based operands); macros with 9 .. 13 parameters; by-name passing incl. cycles closed through a name, also when the cycle is closed only by a LATER use of a macro that expanded harmlessly before (16 programs through the real binary); every sequence of up to 3 uses over macros with empty, blank, plain and nested-empty bodies (top level and inside a procedure); unknown and late-defined macros; redefinition histories: every sequence of up to 4 (thorough 5) events over {three uses, four new bodies for the inner macro incl. one that closes a cycle, two bodies for the outer macro} compared with the bodies current at each use written in place; definitions written in four other layouts (body directly against the arrows, no blanks, blanks around the parameters, upper-case keyword); chains of depth 1..64 in-process and up to 4096 through the real binary. Cyclic / unknown => diagnostic positioned at a use site; invalid expansion => rejected; deep chains => exact expansion up to depth 64, above that expansion or diagnostic but never an abort".into();
    cov.bounds = json!({"cases": cases.len(), "reference_rejects": st.1.load(Ordering::Relaxed), "both_expand": st.2.load(Ordering::Relaxed), "chain_depths": depths, "late_recursion_programs": n_late, "redefinition_histories": n_redef, "redefinition_histories_cyclic": n_redef_cyclic, "tier": tier.name()});
    cov.assumptions = common_assumptions();
    cov.assumptions.push("macro arguments are generated as unsigned numbers, registers, memory operands and identifiers (negative literals as arguments are not demanded)".into());
    cov.assumptions.push("acyclic chains deeper than 64 may be refused with a diagnostic (resource limit); they must never abort the process".into());
    cov.cli_runs = CLI_RUNS.load(Ordering::Relaxed);
    cov.distinct_nontrivial = st.0.load(Ordering::Relaxed);
    let cov = finish_cov(c, cov);
    rep.finish(cov)
}
