//! C01 — ADD/ADC/SUB/SBB/CMP/INC/DEC/NEG: result and all six status flags, every operand form.

use super::common::*;
use crate::alu::*;
use crate::ast::*;
use crate::engine::*;
use crate::findings::*;
use crate::lattice::*;
use crate::mach::*;
use rayon::prelude::*;
use serde_json::json;
use std::sync::atomic::Ordering;

/// all operand forms of the 8 mnemonics
pub fn all_forms(thorough: bool) -> Vec<Instr> {
    let disps: Vec<i32> = if thorough { vec![2, -2, 0x7FFF, -0x8000, 0xFFFF] } else { vec![2, -3] };
    let mems = mem_forms(&disps);
    let r8s: Vec<usize> = if thorough { (0..8).collect() } else { vec![0, 7, 1] }; // al bh cl
    let r16s: Vec<usize> = if thorough { (0..8).collect() } else { vec![R_AX, R_BX, R_SI, R_SP] };
    let mut out = Vec::new();
    for op in BinOp::ARITH {
        // reg,reg incl. aliasing
        for (a, b) in [(0, 3), (0, 4), (4, 0), (0, 0), (7, 5), (1, 2)] {
            out.push(Instr::Bin(op, Opnd::R8(a), Opnd::R8(b)));
        }
        for (a, b) in [(R_AX, R_BX), (R_BX, R_BX), (R_SP, R_BP), (R_SI, R_DI), (R_CX, R_DX), (R_DI, R_AX)] {
            out.push(Instr::Bin(op, Opnd::R16(a), Opnd::R16(b)));
        }
        for r in r8s.iter() {
            out.push(Instr::Bin(op, Opnd::R8(*r), Opnd::Imm(0)));
            out.push(Instr::Bin(op, Opnd::R8(*r), Opnd::Label(W::B, "bv".into())));
            out.push(Instr::Bin(op, Opnd::Label(W::B, "bv".into()), Opnd::R8(*r)));
        }
        for r in r16s.iter() {
            out.push(Instr::Bin(op, Opnd::R16(*r), Opnd::Imm(0)));
            out.push(Instr::Bin(op, Opnd::R16(*r), Opnd::Label(W::W, "wv".into())));
            out.push(Instr::Bin(op, Opnd::Label(W::W, "wv".into()), Opnd::R16(*r)));
        }
        out.push(Instr::Bin(op, Opnd::Label(W::B, "bv".into()), Opnd::Imm(0)));
        out.push(Instr::Bin(op, Opnd::Label(W::W, "wv".into()), Opnd::Imm(0)));
        for m in mems.iter() {
            let r8 = r8s[(out.len()) % r8s.len()];
            let r16 = r16s[(out.len()) % r16s.len()];
            out.push(Instr::Bin(op, Opnd::R8(r8), Opnd::Mem(W::B, *m)));
            out.push(Instr::Bin(op, Opnd::R16(r16), Opnd::Mem(W::W, *m)));
            out.push(Instr::Bin(op, Opnd::Mem(W::B, *m), Opnd::R8(r8)));
            out.push(Instr::Bin(op, Opnd::Mem(W::W, *m), Opnd::R16(r16)));
            out.push(Instr::Bin(op, Opnd::Mem(W::B, *m), Opnd::Imm(0)));
            out.push(Instr::Bin(op, Opnd::Mem(W::W, *m), Opnd::Imm(0)));
        }
    }
    for op in [UnOp::Inc, UnOp::Dec, UnOp::Neg] {
        for r in 0..8 {
            out.push(Instr::Un(op, Opnd::R8(r)));
            out.push(Instr::Un(op, Opnd::R16(r)));
        }
        out.push(Instr::Un(op, Opnd::Label(W::B, "bv".into())));
        out.push(Instr::Un(op, Opnd::Label(W::W, "wv".into())));
        for m in mems.iter() {
            out.push(Instr::Un(op, Opnd::Mem(W::B, *m)));
            out.push(Instr::Un(op, Opnd::Mem(W::W, *m)));
        }
    }
    out
}

/// replace the immediate (if any) of a binary instruction by `b`
pub fn with_imm(i: &Instr, b: u32, w: W) -> Instr {
    match i {
        Instr::Bin(op, d, Opnd::Imm(_)) => {
            // arithmetic immediates are signed/unsigned: render large values as they are (unsigned)
            let _ = w;
            Instr::Bin(*op, d.clone(), Opnd::Imm(b as i32))
        }
        _ => i.clone(),
    }
}

fn sweep_forms(rep: &Reporter, c: &Counters, forms: &[Instr], thorough: bool) {
    let bvals = if thorough { b8() } else { b8_small() };
    let wvals = if thorough { w16() } else { w16_small() };
    forms.par_iter().for_each(|i| with_worker(|wk| {
        let w = i.operands()[0].width().or(i.operands().get(1).and_then(|o| o.width())).unwrap();
        let vals: &Vec<u32> = if w == W::B { &bvals } else { &wvals };
        let has_imm = matches!(i, Instr::Bin(_, _, Opnd::Imm(_)));
        let unary = matches!(i, Instr::Un(..));
        let site = i.shape();
        let mut prepared: Option<Prepared> = None;
        let bset: Vec<u32> = if unary { vec![0] } else { vals.clone() };
        for b in bset.iter() {
            let ins = if has_imm { with_imm(i, *b, w) } else { i.clone() };
            if prepared.is_none() || has_imm {
                prepared = match prepare(&ins) {
                    Ok(p) => Some(p),
                    Err(e) => {
                        c.block(format!("{}: {:?}", site, e));
                        return;
                    }
                };
            }
            let p = prepared.as_mut().unwrap();
            for a in vals.iter() {
                for cin in 0..2u32 {
                    let f = if (a + b) % 2 == 0 { 0xF000u16 } else { 0x0AD4 } | cin as u16;
                    let pre = make_state(&ins, *a, *b, f, (*a as u16).wrapping_mul(7), &p.dc, 0);
                    wk.case(
                        rep,
                        c,
                        p,
                        &pre,
                        &site,
                        &[("a", *a as i64), ("b", *b as i64), ("cin", cin as i64), ("w", w.bits() as i64)],
                        (*a + *b) as u64 + 1000,
                        true,
                    );
                }
            }
        }
        c.shapes.fetch_add(1, Ordering::Relaxed);
        wk.flush(c);
        if let Some(p) = prepared.as_ref() {
            c.sample(json!({"source_line": render_instr(&p.instr), "emitted": p.line, "shape": site}));
        }
    }));
}

pub fn run(tier: &Tier) -> i32 {
    let rep = Reporter::new("C01", tier.name());
    let c = Counters::default();
    let all8: Vec<u32> = (0..256).collect();
    let all16: Vec<u32> = (0..65536).collect();
    let wl = if tier.thorough { w16_dense(1024) } else { w16() };
    let wbytes = w16_bytes();
    let wrel = w16_relations();
    // (i) canonical forms, value exhaustive
    for op in BinOp::ARITH {
        let i = Instr::Bin(op, Opnd::R8(0), Opnd::R8(3));
        sweep_values(&rep, &c, &i, &all8, &all8, &i.shape());
        let i = Instr::Bin(op, Opnd::R16(R_AX), Opnd::R16(R_BX));
        sweep_values(&rep, &c, &i, &wl, &wl, &i.shape());
        // values away from the boundaries: every low byte under a fixed high byte and the reverse,
        // against the lattice, both ways round; and operands in a fixed relation for every x
        sweep_values(&rep, &c, &i, &wbytes, &wl, &i.shape());
        sweep_values(&rep, &c, &i, &wl, &wbytes, &i.shape());
        sweep_pairs(&rep, &c, &i, &wrel, &i.shape());
    }
    for op in [UnOp::Inc, UnOp::Dec, UnOp::Neg] {
        let i = Instr::Un(op, Opnd::R8(0));
        sweep_values(&rep, &c, &i, &all8, &[0], &i.shape());
        let i = Instr::Un(op, Opnd::R16(R_AX));
        sweep_values(&rep, &c, &i, &all16, &[0], &i.shape());
    }
    // (ii) every operand form
    let forms = all_forms(tier.thorough);
    sweep_forms(&rep, &c, &forms, tier.thorough);

    // (iii) histories
    let seq_depth = if tier.thorough { 4 } else { 3 };
    let seq = {
        use crate::ast::b::*;
        let ins = |it: Item| match it {
            Item::Ins(i) => i,
            _ => unreachable!(),
        };
        let focus = vec![
            ins(bin(BinOp::Add, r16("ax"), r16("bx"))),
            ins(bin(BinOp::Adc, r16("ax"), direct(W::W, 0x0020))),
            ins(bin(BinOp::Sub, r8("al"), r8("bl"))),
            ins(bin(BinOp::Sbb, direct(W::W, 0x0020), r16("bx"))),
            ins(bin(BinOp::Cmp, r16("ax"), imm(0x1234))),
            ins(bin(BinOp::Adc, direct(W::B, 0x0021), imm(0x7F))),
            ins(un(UnOp::Inc, direct(W::B, 0x0020))),
            ins(un(UnOp::Inc, r16("ax"))),
            ins(un(UnOp::Dec, r16("cx"))),
            ins(un(UnOp::Neg, r16("ax"))),
            ins(un(UnOp::Neg, direct(W::B, 0x0021))),
            ins(bin(BinOp::Add, lab8("bv"), imm(0x11))),
            ins(bin(BinOp::Sub, r16("ax"), lab16("wv"))),
            ins(un(UnOp::Inc, lab16("wv"))),
        ];
        crate::seqx::explore_sequences(&rep, &c, &focus, &crate::seqx::context_alphabet(), seq_depth, &crate::seqx::default_inits())
    };
    // (iv) all 2^32 word operand pairs (quick: 2^26) x carry-in by direct calls of the instruction functions
    let direct = crate::direct::run_group(&rep, &c, "arith", tier.name());
    let mut cov = Coverage::default();
    cov.exhaustive = true;
    cov.rule = "every case = (source instruction, pre-state); executed through Preprocessor+Interpreter and compared in full (13 registers, flag word, 1 MB) with the reference ALU. (i) canonical register forms: all 2^16 byte operand pairs x carry-in x 4 prior flag words, word pairs over a boundary lattice squared, INC/DEC/NEG over all 2^8 / 2^16 values; (ii) every operand form of syntax.md (17 address forms x 5 segment choices, labels, immediates, register aliasing) x boundary values x carry-in. distinct_nontrivial = distinct (instruction, pre-state) pairs executed Word operands also run through 512 values away from the boundaries (every low byte under a fixed high byte and the reverse) against the lattice, both ways round, and through 8 fixed RELATIONS between the two operands (equal, low byte complemented, complemented, successor, bytes swapped, negated, doubled, halved+0x4000) for every 16-bit x. Histories: every sequence of up to 3 (thorough 4) instructions over the property's instructions plus a 22-instruction context alphabet (register, memory, stack and flag traffic, data-label operands, DS/ES loaded by pop and by mov), with at least one of the property's instructions, as ONE program on ONE machine and ONE Interpreter object from 3 initial states, compared with the reference after every step (whole memory on every 16th run). Direct calls (separate binary vdirect, see bounds.direct): word_add/adc/sub/sbb/cmp for every first operand x every second operand (quick: 1 024 second operands per first operand, a different residue class each) x carry-in, result and the whole flag word compared with the reference".into();
    cov.bounds = json!({"byte_pairs": 65536, "word_lattice": wl.len(), "word_byte_structured_values": wbytes.len(), "word_relation_pairs": wrel.len(), "flag_words": 8, "forms": forms.len(), "sequence_depth": seq_depth, "sequences": seq.sequences, "sequence_steps": seq.steps, "sequence_whole_memory_audits": seq.audits, "direct": direct, "tier": tier.name()});
    cov.assumptions = common_assumptions();
    let cov = finish_cov(&c, cov);
    if cov.extra.get("shapes").and_then(|v| v.as_u64()).unwrap_or(0) < 100 {
        eprintln!("MACHINERY: C01 reached fewer than 100 shapes");
        return 2;
    }
    rep.finish(cov)
}
