//! C12 — data definitions are laid out exactly and labels resolve to their first byte.

use super::common::*;
use crate::alu::*;
use crate::ast::*;
use crate::cli::*;
use crate::findings::*;
use crate::mach::*;
use crate::pipe::*;
use crate::refprog::layout_data;
use rayon::prelude::*;
use serde_json::json;
use std::cell::RefCell;
use std::sync::atomic::{AtomicU64, Ordering};

fn alphabet(thorough: bool) -> Vec<DataDef> {
    let mut v = Vec::new();
    for n in [0u16, 1, 0x0FFF, 0xF000, 0xFFFF] {
        v.push(DataDef::Set(n));
    }
    let ns: Vec<u16> = if thorough { vec![0, 1, 2, 3, 255, 256, 32767, 32768, 65534, 65535] } else { vec![0, 1, 3, 256, 32767, 32768, 65534, 65535] };
    let mut k = 0;
    let mut lab = |k: &mut usize| -> Option<String> {
        *k += 1;
        if *k % 2 == 0 {
            Some(format!("l{}", *k))
        } else {
            None
        }
    };
    for w in [W::B, W::W] {
        let vals: Vec<i32> = if w == W::B { vec![0x5A, -128, 255] } else { vec![0x1234, -32768, 65535] };
        for x in vals.iter() {
            v.push(DataDef::Val(lab(&mut k), w, *x));
        }
        for n in ns.iter() {
            v.push(DataDef::Arr(lab(&mut k), w, *n));
        }
        for n in [0u16, 2, 255, 32768, 65535] {
            v.push(DataDef::ArrVal(lab(&mut k), w, vals[0] ^ n as i32 & 0x7F, n));
        }
        // the last two contain quote characters themselves (at the ends and inside)
        for s in ["", "a", "ab", "seventeen chars!!", "\"q\"", "x\"y"] {
            v.push(DataDef::Str(lab(&mut k), w, s.to_string()));
        }
        // strings longer than 255 (and, for words, longer than 32767 so that they exceed a segment)
        v.push(DataDef::Str(lab(&mut k), w, "0123456789abcdef".repeat(19)));
        if thorough || w == W::W {
            v.push(DataDef::Str(lab(&mut k), w, "xyz".repeat(11000)));
        }
    }
    v
}

thread_local! {
    static EXPECT: RefCell<Vec<u8>> = RefCell::new(vec![0u8; 1 << 20]);
}

/// rename labels so that a sequence has unique label names
fn uniq(seq: &[&DataDef]) -> Vec<DataDef> {
    let mut out = Vec::new();
    for (i, d) in seq.iter().enumerate() {
        let mut d = (*d).clone();
        match &mut d {
            DataDef::Val(l, ..) | DataDef::Arr(l, ..) | DataDef::ArrVal(l, ..) | DataDef::Str(l, ..) => {
                if l.is_some() {
                    *l = Some(format!("l{}", i));
                }
            }
            _ => {}
        }
        out.push(d);
    }
    out
}

fn check_layout(rep: &Reporter, c: &Counters, wk: &mut Worker, defs: &[DataDef], stats: &(AtomicU64, AtomicU64)) {
    let (image, labels, _) = layout_data(defs);
    // sizes per segment run
    let mut max_total: usize = 0;
    let mut cur: usize = 0;
    let mut label_at_limit = false;
    for d in defs {
        match d {
            DataDef::Set(_) => cur = 0,
            _ => {
                if d.label().is_some() && cur == 0x10000 {
                    label_at_limit = true;
                }
                cur += d.size();
                max_total = max_total.max(cur);
            }
        }
    }
    let overflow = max_total > 0x10000;
    let ambiguous = (max_total == 0x10000) || label_at_limit && !overflow;
    // the program: definitions, then one instruction per label using OFFSET and the label operand
    let mut code = vec![Item::Label("start".into())];
    let mut lab_list: Vec<(String, u16, u32, W)> = Vec::new();
    for d in defs {
        if let Some(l) = d.label() {
            let (seg, off) = labels[l];
            let w = match d {
                DataDef::Val(_, w, _) | DataDef::Arr(_, w, _) | DataDef::ArrVal(_, w, _, _) | DataDef::Str(_, w, _) => *w,
                _ => W::B,
            };
            lab_list.push((l.clone(), seg, off, w));
        }
    }
    for (l, _, _, _) in lab_list.iter() {
        code.push(Item::Ins(Instr::Mov(Opnd::R16(R_AX), Opnd::Offset(l.clone()))));
        code.push(Item::Ins(Instr::Mov(Opnd::R8(3), Opnd::Label(W::B, l.clone()))));
    }
    let prog = Program { data: defs.to_vec(), code };
    let src = render(&prog);
    let site = "layout";
    let viol = |field: &str, expected: String, got: String| {
        let vars = vec![("total".to_string(), max_total as i64), ("defs".to_string(), defs.len() as i64)];
        let vr: Vec<(&str, i64)> = vars.iter().map(|(a, b)| (a.as_str(), *b)).collect();
        if rep.absorbed_by(site, field, &vr, None, &got) {
            return;
        }
        rep.report(Viol {
            site: site.into(),
            field: field.into(),
            vars,
            got_val: None,
            expected,
            got,
            case: json!({"src": if src.len() < 2000 { src.clone() } else { format!("{}…", &src[..2000]) }}),
            weight: src.len() as u64,
        });
    };
    wk.n += 1;
    let asm = match assemble(&src) {
        Ok(a) => a,
        Err(AsmErr::Diag { msg, .. }) => {
            stats.1.fetch_add(1, Ordering::Relaxed);
            if !overflow && !ambiguous {
                viol("rejected", "a layout of at most 64 KiB per segment is accepted".into(), msg);
            }
            c.outcome("diagnosed");
            return;
        }
        Err(AsmErr::Panic(m)) => {
            viol("panic", if overflow { "a diagnostic for more than 64 KiB in one segment".into() } else { "accepted".into() }, format!("PANIC: {}", m));
            return;
        }
    };
    if overflow {
        viol("overflow-accepted", format!("more than 64 KiB ({} bytes) in one segment is diagnosed", max_total), "accepted".into());
        return;
    }
    if ambiguous {
        c.outcome("boundary-skipped");
        return;
    }
    stats.0.fetch_add(1, Ordering::Relaxed);
    // label offsets seen by the assembler
    for (l, _seg, off, _) in lab_list.iter() {
        match asm.labels.get(l) {
            Some(li) if !li.is_code && li.map as u32 == *off => {}
            other => {
                viol("label-offset", format!("label {} at offset {}", l, off), format!("{:?}", other));
                return;
            }
        }
    }
    // load with the real DataParser and compare the whole memory image
    let vm = &mut wk.bench.vm;
    if let Err(e) = load_data(vm, &asm.data) {
        viol("data-loader", "data lines load".into(), e);
        for b in vm.mem.iter_mut() {
            *b = 0;
        }
        return;
    }
    if vm.arch.ds != 0 {
        viol("ds", "DS=0 after loading".into(), format!("DS={:04X}", vm.arch.ds));
    }
    let mismatch = EXPECT.with(|e| {
        let mut e = e.borrow_mut();
        for (a, b) in image.iter() {
            e[*a as usize] = *b;
        }
        let r = if e[..] != vm.mem[..] { (0..(1usize << 20)).find(|k| e[*k] != vm.mem[*k]) } else { None };
        let r = r.map(|k| (k, e[k], vm.mem[k]));
        for (a, _) in image.iter() {
            e[*a as usize] = 0;
        }
        r
    });
    if let Some((k, e, g)) = mismatch {
        viol("image", format!("[0x{:05X}] = 0x{:02X}", k, e), format!("[0x{:05X}] = 0x{:02X}", k, g));
        for b in vm.mem.iter_mut() {
            *b = 0;
        }
        return;
    }
    // values through OFFSET and through the label operand (DS = the label's segment)
    let mut ictx = asm.ictx();
    for (n, (l, seg, off, _w)) in lab_list.iter().enumerate() {
        vm.arch.ax = 0xEEEE;
        vm.arch.bx = 0xEEEE;
        vm.arch.ds = *seg;
        let e1 = wk.m.exec(2 * n, vm, &mut ictx, &asm.code[2 * n]);
        let e2 = wk.m.exec(2 * n + 1, vm, &mut ictx, &asm.code[2 * n + 1]);
        let first = vm.mem[(((*seg as u32) * 16 + *off) & 0xFFFFF) as usize];
        if e1 != Exec::Ok(St::Next) || e2 != Exec::Ok(St::Next) || vm.arch.ax as u32 != *off || (vm.arch.bx & 0xFF) as u8 != first {
            viol(
                "label-use",
                format!("OFFSET {} = {}, byte {} = 0x{:02X}", l, off, l, first),
                format!("{:?} {:?} ax={} bl=0x{:02X} (lines {:?} {:?})", e1, e2, vm.arch.ax, vm.arch.bx & 0xFF, asm.code[2 * n], asm.code[2 * n + 1]),
            );
            break;
        }
    }
    // reset memory for the next case
    for (a, _) in image.iter() {
        vm.mem[*a as usize] = 0;
    }
    vm.arch.ds = 0;
    c.outcome("loaded");
}

pub fn run(tier: &Tier) -> i32 {
    let rep_o = Reporter::new("C12", tier.name());
    let c_o = Counters::default();
    let rep = &rep_o;
    let c = &c_o;
    let alpha = alphabet(tier.thorough);
    let stats = (AtomicU64::new(0), AtomicU64::new(0));
    let n = alpha.len();
    let maxlen = 3;
    let firsts: Vec<usize> = (0..n).collect();
    firsts.par_iter().for_each(|a| {
        with_worker(|wk| {
            check_layout(rep, c, wk, &uniq(&[&alpha[*a]]), &stats);
            for b in 0..n {
                check_layout(rep, c, wk, &uniq(&[&alpha[*a], &alpha[b]]), &stats);
                if maxlen >= 3 {
                    for d in 0..n {
                        check_layout(rep, c, wk, &uniq(&[&alpha[*a], &alpha[b], &alpha[d]]), &stats);
                    }
                }
            }
            wk.flush(c);
        })
    });
    // every value of every constant class in a definition: all SET values, all DB values (signed and
    // unsigned spelling), all DW values, all array counts that fit (each behind one odd byte, so that
    // the definition is not aligned)
    let exhaustive_defs = AtomicU64::new(0);
    {
        let mut jobs: Vec<Vec<DataDef>> = Vec::new();
        let lab = |k: &str| Some(k.to_string());
        for n in 0..=65535u32 {
            jobs.push(vec![DataDef::Set(n as u16), DataDef::Val(None, W::B, 0x11), DataDef::Val(lab("l1"), W::W, 0x5AA5)]);
        }
        for v in -128..=255i32 {
            jobs.push(vec![DataDef::Val(None, W::B, 0x11), DataDef::Val(lab("l1"), W::B, v), DataDef::ArrVal(lab("l2"), W::B, v, 3)]);
        }
        for v in (-32768..=65535i32).step_by(if tier.thorough { 1 } else { 3 }) {
            jobs.push(vec![DataDef::Val(None, W::B, 0x11), DataDef::Val(lab("l1"), W::W, v), DataDef::ArrVal(lab("l2"), W::W, v ^ 0x0101 & 0x7FFF, 2)]);
        }
        for n in (0..=32767u32).step_by(if tier.thorough { 1 } else { 5 }) {
            jobs.push(vec![DataDef::Val(None, W::B, 0x11), DataDef::Arr(lab("l1"), W::W, n as u16), DataDef::Val(lab("l2"), W::B, 0x77)]);
            jobs.push(vec![DataDef::Val(None, W::B, 0x11), DataDef::ArrVal(lab("l1"), W::B, 0x33, (n * 2) as u16), DataDef::Val(lab("l2"), W::B, 0x77)]);
        }
        // the overlay idiom: SET x, definitions, the same or another SET, more (labelled) definitions -
        // all pairs of SET values incl. equal ones, two definition kinds on each side
        let sets = [0u16, 1, 2, 0x0100, 0x0FFF, 0xF000, 0xFFFF];
        for a in sets {
            for b in sets {
                for (d1, d2) in [
                    (DataDef::Val(lab("l1"), W::W, 0x1234), DataDef::Val(lab("l2"), W::B, 0x56)),
                    (DataDef::ArrVal(lab("l1"), W::B, 0x2A, 40), DataDef::Str(lab("l2"), W::W, "Hi".into())),
                    (DataDef::Str(lab("l1"), W::B, "overlay".into()), DataDef::Arr(lab("l2"), W::W, 3)),
                ] {
                    jobs.push(vec![DataDef::Set(a), d1.clone(), DataDef::Set(b), d2.clone(), DataDef::Val(lab("l3"), W::B, 0x7E)]);
                    jobs.push(vec![d1.clone(), DataDef::Set(a), DataDef::Set(b), d2.clone()]);
                    jobs.push(vec![DataDef::Set(a), d1.clone(), DataDef::Set(b), DataDef::Set(a), d2.clone()]);
                }
            }
        }
        exhaustive_defs.store(jobs.len() as u64, Ordering::Relaxed);
        jobs.par_chunks(256).for_each(|ch| {
            with_worker(|wk| {
                for d in ch {
                    check_layout(rep, c, wk, d, &stats);
                }
                wk.flush(c);
            })
        });
    }
    if tier.thorough {
        // length 4 over a reduced alphabet
        let red: Vec<&DataDef> = alpha.iter().enumerate().filter(|(i, _)| i % 3 == 0).map(|(_, d)| d).collect();
        let m = red.len();
        let idx: Vec<(usize, usize)> = (0..m).flat_map(|a| (0..m).map(move |b| (a, b))).collect();
        idx.par_iter().for_each(|(a, b)| {
            with_worker(|wk| {
                for d in 0..m {
                    for e in 0..m {
                        check_layout(rep, c, wk, &uniq(&[red[*a], red[*b], red[d], red[e]]), &stats);
                    }
                }
                wk.flush(c);
            })
        });
    }
    // CLI: execution starts with DS=0 whatever SET said; the image is visible through print mem
    ensure_bin();
    let prog = Program {
        data: vec![DataDef::Set(0x0100), DataDef::Str(Some("s".into()), W::B, "hi".into()), DataDef::Val(None, W::W, 0x1234)],
        code: vec![b::label("start"), b::print(PrintKind::Reg), b::print(PrintKind::MemRange(0x1000, 0x1007)), b::print(PrintKind::MemDs(3))],
    };
    let (src, _, out, res) = cli_conformance(&prog, &Default::default(), &[], false, 1000);
    c.add_exec(1);
    if let Some((field, expected, got)) = res {
        rep.report(Viol { site: "cli ds0".into(), field, vars: vec![], got_val: None, expected, got, case: json!({"src": src, "stdout": out.out()}), weight: 0 });
    }
    // the driver's own loading loop: layouts with consecutive and repeated SETs through the binary, the
    // first bytes of every segment involved printed back
    {
        let sets = [0u16, 1, 0x0100, 0x0300, 0xF000, 0xFFFF];
        let mut progs: Vec<Program> = Vec::new();
        for a in sets {
            for bseg in sets {
                let d1 = DataDef::Str(Some("l1".into()), W::B, "first".into());
                let d2 = DataDef::Val(Some("l2".into()), W::W, 0x4242);
                for defs in [
                    vec![DataDef::Set(a), DataDef::Set(bseg), d1.clone(), d2.clone()],
                    vec![DataDef::Set(a), d1.clone(), DataDef::Set(bseg), d2.clone()],
                    vec![d1.clone(), DataDef::Set(a), DataDef::Set(bseg), DataDef::Set(a), d2.clone()],
                ] {
                    let mut code = vec![b::label("start")];
                    for seg in [0u16, a, bseg] {
                        let base = seg as u32 * 16;
                        code.push(b::print(PrintKind::MemRange(base, (base + 15).min(0xFFFFF))));
                    }
                    code.push(b::mov(b::r16("ax"), Opnd::Offset("l2".into())));
                    code.push(b::print(PrintKind::Reg));
                    progs.push(Program { data: defs, code });
                }
            }
        }
        let none = std::collections::HashMap::new();
        progs.par_iter().for_each(|p| {
            let (src, _, out, res) = cli_conformance(p, &none, &[], false, 1000);
            c.add_exec(1);
            if let Some((field, expected, got)) = res {
                rep.report(Viol { site: "cli layout".into(), field, vars: vec![], got_val: None, expected, got, case: json!({"src": src, "stdin": "", "stdout": out.out()}), weight: src.len() as u64 });
            }
        });
    }
    c.sample(json!({"cli_source": src}));
    c.sample(json!({"alphabet": alpha.iter().map(|d| join_toks(&data_toks(d)).chars().take(40).collect::<String>()).collect::<Vec<_>>()}));
    let mut cov = Coverage::default();
    cov.exhaustive = true;
    cov.rule = format!("all sequences of 1..={} definitions over a {}-item alphabet (SET with 5 segment values incl. 0xF000/0xFFFF so that images wrap at 1 MB; DB/DW single values at the signed/unsigned extremes, zero arrays and value arrays with counts 0..65535, strings of length 0,1,2,17; about half of them labelled){}: the program is assembled by the real Preprocessor, loaded by the real DataParser, and the WHOLE 1 MB is compared with an independently computed image; every label is checked through the assembler's label map, through OFFSET in an instruction and through a load via the label operand with DS set to its segment; more than 64 KiB in one segment must be diagnosed (exactly 64 KiB: either). Plus, exhaustively per constant class: all 65536 SET values, all 384 DB values, all (quick: every third) DW values -32768..65535, array counts 0..32767 (quick: every fifth) for zero and value arrays, each behind one odd byte and followed by a labelled definition; and the overlay idiom (SET a, definitions, SET b [, SET a], labelled definitions) for all 49 pairs of 7 segment values incl. equal and overlapping ones. CLI: DS=0000 at start; 108 layouts with consecutive / repeated / overlapping SETs run through the real binary (the driver has its own loading loop), the first 16 bytes of every segment involved and a label offset printed back", maxlen, n, if tier.thorough { " plus all sequences of 4 over a third of the alphabet" } else { "" });
    cov.bounds = json!({"alphabet": n, "max_len": if tier.thorough {4} else {3}, "exhaustive_constant_definitions": exhaustive_defs.load(Ordering::Relaxed), "loaded_and_compared": stats.0.load(Ordering::Relaxed), "diagnosed": stats.1.load(Ordering::Relaxed), "tier": tier.name()});
    cov.assumptions = common_assumptions();
    cov.cli_runs = CLI_RUNS.load(Ordering::Relaxed);
    cov.distinct_nontrivial = stats.0.load(Ordering::Relaxed);
    let cov = finish_cov(c, cov);
    rep.finish(cov)
}
