//! C02 — AND/OR/XOR/TEST/NOT and SHL/SAL/SHR/SAR/ROL/ROR/RCL/RCR for every value and count.

use super::common::*;
use crate::alu::*;
use crate::ast::*;
use crate::engine::*;
use crate::findings::*;
use crate::lattice::*;
use rayon::prelude::*;
use serde_json::json;
use std::sync::atomic::Ordering;

/// value x count sweep of a shift/rotate on a register destination
fn sweep_shift(rep: &Reporter, c: &Counters, op: ShOp, dest: Opnd, by_cl: bool, vals: &[u32], counts: &[u32]) {
    let w = dest.width().unwrap();
    let site = Instr::Shift(op, dest.clone(), if by_cl { Count::Cl } else { Count::Imm(0) }).shape();
    // work items: one per count (immediate form needs its own program per count)
    counts.par_iter().for_each(|cnt| with_worker(|wk| {
        let i = Instr::Shift(op, dest.clone(), if by_cl { Count::Cl } else { Count::Imm(*cnt as u8) });
        let mut p = match prepare(&i) {
            Ok(p) => p,
            Err(e) => {
                c.block(format!("{}: {:?}", site, e));
                return;
            }
        };
        for v in vals.iter() {
            for cin in 0..2u32 {
                for f in [0xF000u16 | cin as u16, 0x0FD4 | cin as u16] {
                    let mut pre = make_state(&i, *v, 0, f, 0, &p.dc, 0);
                    if by_cl {
                        pre.r.cx = (pre.r.cx & 0xFF00) | *cnt as u16;
                    }
                    wk.case(
                        rep,
                        c,
                        &mut p,
                        &pre,
                        &site,
                        &[("a", *v as i64), ("count", *cnt as i64), ("cin", cin as i64), ("w", w.bits() as i64)],
                        (*cnt as u64) * 70000 + *v as u64,
                        false,
                    );
                }
            }
        }
        wk.audit(rep, &p, &site);
        wk.flush(c);
    }));
    c.shapes.fetch_add(1, Ordering::Relaxed);
    c.sample(json!({"shape": site, "values": vals.len(), "counts": counts.len(), "carry_in": 2, "prior_flag_words": 2}));
}

fn shift_forms(thorough: bool) -> Vec<Instr> {
    let disps: Vec<i32> = if thorough { vec![2, -2, 0x7FFF, -0x8000] } else { vec![2] };
    let mems = mem_forms(&disps);
    let mut out = Vec::new();
    for op in ShOp::ALL {
        for cnt in [Count::Imm(0), Count::Cl] {
            for r in 0..8 {
                out.push(Instr::Shift(op, Opnd::R8(r), cnt));
                out.push(Instr::Shift(op, Opnd::R16(r), cnt));
            }
            out.push(Instr::Shift(op, Opnd::Label(W::B, "bv".into()), cnt));
            out.push(Instr::Shift(op, Opnd::Label(W::W, "wv".into()), cnt));
            for m in mems.iter() {
                out.push(Instr::Shift(op, Opnd::Mem(W::B, *m), cnt));
                out.push(Instr::Shift(op, Opnd::Mem(W::W, *m), cnt));
            }
        }
    }
    out
}

fn sweep_shift_forms(rep: &Reporter, c: &Counters, forms: &[Instr], thorough: bool) {
    let counts: Vec<u32> =
        if thorough { vec![0, 1, 2, 3, 7, 8, 9, 15, 16, 17, 18, 31, 32, 33, 64, 255] } else { vec![0, 1, 2, 7, 8, 9, 15, 16, 17, 31, 32, 255] };
    let bvals = b8_small();
    let wvals = w16_small();
    forms.par_iter().for_each(|i| with_worker(|wk| {
        let (op, dest, by_cl) = match i {
            Instr::Shift(op, d, c) => (*op, d.clone(), *c == Count::Cl),
            _ => unreachable!(),
        };
        let w = dest.width().unwrap();
        let vals = if w == W::B { &bvals } else { &wvals };
        let site = i.shape();
        let mut last: Option<Prepared> = None;
        for cnt in counts.iter() {
            let ins = Instr::Shift(op, dest.clone(), if by_cl { Count::Cl } else { Count::Imm(*cnt as u8) });
            if last.is_none() || !by_cl {
                last = match prepare(&ins) {
                    Ok(p) => Some(p),
                    Err(e) => {
                        c.block(format!("{}: {:?}", site, e));
                        return;
                    }
                };
            }
            let p = last.as_mut().unwrap();
            for v in vals.iter() {
                for cin in 0..2u32 {
                    let mut pre = make_state(&ins, *v, 0, 0xF000 | cin as u16, (*v as u16).wrapping_mul(5), &p.dc, 0);
                    if by_cl {
                        pre.r.cx = (pre.r.cx & 0xFF00) | *cnt as u16;
                        // destination CL/CX/CH: re-place memory operand value (registers only changed)
                    }
                    wk.case(
                        rep,
                        c,
                        p,
                        &pre,
                        &site,
                        &[("a", *v as i64), ("count", *cnt as i64), ("cin", cin as i64), ("w", w.bits() as i64)],
                        (*cnt as u64) * 70000 + *v as u64 + 1_000_000_000,
                        true,
                    );
                }
            }
        }
        c.shapes.fetch_add(1, Ordering::Relaxed);
        wk.flush(c);
        if let Some(p) = last.as_ref() {
            c.sample(json!({"source_line": render_instr(&p.instr), "emitted": p.line, "shape": site}));
        }
    }));
}

fn logic_forms(thorough: bool) -> Vec<Instr> {
    let disps: Vec<i32> = if thorough { vec![2, -2, 0x7FFF, -0x8000] } else { vec![2, -3] };
    let mems = mem_forms(&disps);
    let mut out = Vec::new();
    for op in BinOp::LOGIC {
        for (a, b) in [(0, 3), (0, 4), (4, 0), (0, 0), (7, 5), (1, 2)] {
            out.push(Instr::Bin(op, Opnd::R8(a), Opnd::R8(b)));
        }
        for (a, b) in [(R_AX, R_BX), (R_BX, R_BX), (R_SP, R_BP), (R_SI, R_DI), (R_CX, R_DX), (R_DI, R_AX)] {
            out.push(Instr::Bin(op, Opnd::R16(a), Opnd::R16(b)));
        }
        for r in [0usize, 7, 1] {
            out.push(Instr::Bin(op, Opnd::R8(r), Opnd::Imm(0)));
            out.push(Instr::Bin(op, Opnd::R8(r), Opnd::Label(W::B, "bv".into())));
            out.push(Instr::Bin(op, Opnd::Label(W::B, "bv".into()), Opnd::R8(r)));
        }
        for r in [R_AX, R_BX, R_SI, R_SP] {
            out.push(Instr::Bin(op, Opnd::R16(r), Opnd::Imm(0)));
            out.push(Instr::Bin(op, Opnd::R16(r), Opnd::Label(W::W, "wv".into())));
            out.push(Instr::Bin(op, Opnd::Label(W::W, "wv".into()), Opnd::R16(r)));
        }
        out.push(Instr::Bin(op, Opnd::Label(W::B, "bv".into()), Opnd::Imm(0)));
        out.push(Instr::Bin(op, Opnd::Label(W::W, "wv".into()), Opnd::Imm(0)));
        for (k, m) in mems.iter().enumerate() {
            let r8 = [0usize, 7, 1][k % 3];
            let r16 = [R_AX, R_BX, R_SI, R_DX][k % 4];
            out.push(Instr::Bin(op, Opnd::R8(r8), Opnd::Mem(W::B, *m)));
            out.push(Instr::Bin(op, Opnd::R16(r16), Opnd::Mem(W::W, *m)));
            out.push(Instr::Bin(op, Opnd::Mem(W::B, *m), Opnd::R8(r8)));
            out.push(Instr::Bin(op, Opnd::Mem(W::W, *m), Opnd::R16(r16)));
            out.push(Instr::Bin(op, Opnd::Mem(W::B, *m), Opnd::Imm(0)));
            out.push(Instr::Bin(op, Opnd::Mem(W::W, *m), Opnd::Imm(0)));
        }
    }
    // NOT
    for r in 0..8 {
        out.push(Instr::Un(UnOp::Not, Opnd::R8(r)));
        out.push(Instr::Un(UnOp::Not, Opnd::R16(r)));
    }
    out.push(Instr::Un(UnOp::Not, Opnd::Label(W::B, "bv".into())));
    out.push(Instr::Un(UnOp::Not, Opnd::Label(W::W, "wv".into())));
    for m in mems.iter() {
        out.push(Instr::Un(UnOp::Not, Opnd::Mem(W::B, *m)));
        out.push(Instr::Un(UnOp::Not, Opnd::Mem(W::W, *m)));
    }
    out
}

fn sweep_logic_forms(rep: &Reporter, c: &Counters, forms: &[Instr], thorough: bool) {
    let bvals = if thorough { b8() } else { b8_small() };
    let wvals = if thorough { w16() } else { w16_small() };
    forms.par_iter().for_each(|i| with_worker(|wk| {
        let w = i.operands()[0].width().or(i.operands().get(1).and_then(|o| o.width())).unwrap();
        let vals: &Vec<u32> = if w == W::B { &bvals } else { &wvals };
        let has_imm = matches!(i, Instr::Bin(_, _, Opnd::Imm(_)));
        let unary = matches!(i, Instr::Un(..));
        let site = i.shape();
        let mut prepared: Option<Prepared> = None;
        let bset: Vec<u32> = if unary { vec![0] } else { vals.clone() };
        for b in bset.iter() {
            let ins = if has_imm { super::c01::with_imm(i, *b, w) } else { i.clone() };
            if prepared.is_none() || has_imm {
                prepared = match prepare(&ins) {
                    Ok(p) => Some(p),
                    Err(e) => {
                        c.block(format!("{}: {:?}", site, e));
                        return;
                    }
                };
            }
            let p = prepared.as_mut().unwrap();
            for a in vals.iter() {
                for f in [0xF000u16, 0x0FD5, 0xFFFF] {
                    let pre = make_state(&ins, *a, *b, f, (*a as u16).wrapping_mul(7), &p.dc, 0);
                    wk.case(
                        rep,
                        c,
                        p,
                        &pre,
                        &site,
                        &[("a", *a as i64), ("b", *b as i64), ("w", w.bits() as i64)],
                        (*a + *b) as u64 + 1000,
                        true,
                    );
                }
            }
        }
        c.shapes.fetch_add(1, Ordering::Relaxed);
        wk.flush(c);
        if let Some(p) = prepared.as_ref() {
            c.sample(json!({"source_line": render_instr(&p.instr), "emitted": p.line, "shape": site}));
        }
    }));
}

pub fn run(tier: &Tier) -> i32 {
    let rep = Reporter::new("C02", tier.name());
    let c = Counters::default();
    let all8: Vec<u32> = (0..256).collect();
    let all16: Vec<u32> = (0..65536).collect();
    let counts: Vec<u32> = (0..256).collect();
    let wl = w16();
    let wbytes = w16_bytes();
    let wrel = w16_relations();
    let mid_counts: Vec<u32> = vec![1, 2, 3, 4, 7, 8, 9, 15, 16, 17, 31, 32];
    // shifts and rotates, canonical register forms, all counts
    for op in ShOp::ALL {
        for by_cl in [false, true] {
            sweep_shift(&rep, &c, op, Opnd::R8(0), by_cl, &all8, &counts);
            let wv: &Vec<u32> = if tier.thorough { &all16 } else { &wl };
            sweep_shift(&rep, &c, op, Opnd::R16(R_AX), by_cl, wv, &counts);
            if !tier.thorough {
                // words away from the boundaries (every low byte under a fixed high byte and the reverse)
                sweep_shift(&rep, &c, op, Opnd::R16(R_AX), by_cl, &wbytes, &mid_counts);
            }
        }
    }
    // logic, canonical forms
    for op in BinOp::LOGIC {
        let i = Instr::Bin(op, Opnd::R8(0), Opnd::R8(3));
        sweep_values(&rep, &c, &i, &all8, &all8, &i.shape());
        let i = Instr::Bin(op, Opnd::R16(R_AX), Opnd::R16(R_BX));
        let wv = if tier.thorough { w16_dense(1024) } else { wl.clone() };
        sweep_values(&rep, &c, &i, &wv, &wv, &i.shape());
        sweep_values(&rep, &c, &i, &wbytes, &wl, &i.shape());
        sweep_values(&rep, &c, &i, &wl, &wbytes, &i.shape());
        sweep_pairs(&rep, &c, &i, &wrel, &i.shape());
    }
    let i = Instr::Un(UnOp::Not, Opnd::R8(0));
    sweep_values(&rep, &c, &i, &all8, &[0], &i.shape());
    let i = Instr::Un(UnOp::Not, Opnd::R16(R_AX));
    sweep_values(&rep, &c, &i, &all16, &[0], &i.shape());
    // every operand form
    let sf = shift_forms(tier.thorough);
    sweep_shift_forms(&rep, &c, &sf, tier.thorough);
    let lf = logic_forms(tier.thorough);
    sweep_logic_forms(&rep, &c, &lf, tier.thorough);

    // histories
    let seq_depth = if tier.thorough { 4 } else { 3 };
    let seq = {
        use crate::ast::b::*;
        let ins = |it: Item| match it {
            Item::Ins(i) => i,
            _ => unreachable!(),
        };
        let focus = vec![
            ins(bin(BinOp::And, r16("ax"), r16("bx"))),
            ins(bin(BinOp::Or, direct(W::B, 0x0020), imm(0x81))),
            ins(bin(BinOp::Xor, r16("ax"), direct(W::W, 0x0020))),
            ins(bin(BinOp::Test, r16("ax"), imm(0x8000))),
            ins(un(UnOp::Not, r16("ax"))),
            Instr::Shift(ShOp::Shl, r16("ax"), Count::Imm(1)),
            Instr::Shift(ShOp::Shr, r8("al"), Count::Cl),
            Instr::Shift(ShOp::Sar, direct(W::W, 0x0020), Count::Imm(3)),
            Instr::Shift(ShOp::Rol, r16("bx"), Count::Cl),
            Instr::Shift(ShOp::Rcl, r16("ax"), Count::Imm(1)),
            Instr::Shift(ShOp::Rcr, direct(W::B, 0x0021), Count::Cl),
            Instr::Shift(ShOp::Ror, r8("al"), Count::Imm(8)),
            ins(bin(BinOp::Xor, lab16("wv"), r16("bx"))),
            ins(un(UnOp::Not, lab8("bv"))),
            Instr::Shift(ShOp::Shl, lab16("wv"), Count::Cl),
        ];
        crate::seqx::explore_sequences(&rep, &c, &focus, &crate::seqx::context_alphabet(), seq_depth, &crate::seqx::default_inits())
    };
    // all 2^32 word operand pairs (quick: 2^26) by direct calls of word_and / word_or / word_xor / word_test
    let direct = crate::direct::run_group(&rep, &c, "logic", tier.name());
    let mut cov = Coverage::default();
    cov.exhaustive = true;
    cov.rule = "every case = (source instruction, pre-state) executed through Preprocessor+Interpreter, compared in full with the reference (shift/rotate = count single-bit steps). Direct calls (separate binary vdirect, bounds.direct): word_and/or/xor/test for every first operand x every second operand (quick: 1 024 per first operand) x 4 prior flag words. Canonical register forms: all 256 byte values x all 256 counts x carry-in x 2 prior flag words for the 8 shift/rotate spellings, immediate and CL counts (words: boundary lattice in quick, all 65536 values in thorough); logic ops all 2^16 byte pairs; NOT all values; plus every operand form of syntax.md x boundary values x boundary counts. distinct_nontrivial = distinct (instruction, pre-state) pairs Word operands also run through 512 values away from the boundaries (every low byte under a fixed high byte and the reverse) against the lattice, both ways round, and through 8 fixed RELATIONS between the two operands (equal, low byte complemented, complemented, successor, bytes swapped, negated, doubled, halved+0x4000) for every 16-bit x. Histories: every sequence of up to 3 (thorough 4) instructions over the property's instructions plus a 22-instruction context alphabet (register, memory, stack and flag traffic, data-label operands, DS/ES loaded by pop and by mov), with at least one of the property's instructions, as ONE program on ONE machine and ONE Interpreter object from 3 initial states, compared with the reference after every step (whole memory on every 16th run)".into();
    cov.bounds = json!({"direct": direct, "counts": 256, "byte_values": 256, "word_values": if tier.thorough {65536} else {wl.len()}, "word_byte_structured_values": wbytes.len(), "word_relation_pairs": wrel.len(), "shift_forms": sf.len(), "logic_forms": lf.len(), "sequence_depth": seq_depth, "sequences": seq.sequences, "sequence_steps": seq.steps, "sequence_whole_memory_audits": seq.audits, "tier": tier.name()});
    cov.assumptions = common_assumptions();
    let cov = finish_cov(&c, cov);
    rep.finish(cov)
}
