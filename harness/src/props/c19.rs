//! C19 — runs are reproducible; machines and parser objects do not leak state.
//!
//! (a) all iteration orders of the undefined-label set (hook VERIF_ORDER) and plain reruns in
//!     separate processes: byte-identical output;
//! (b) a new machine is all zero except FLAGS=F000h, CS=FFFFh, whatever happened before;
//! (c) explicit-state: every pair of instruction streams over an alphabet, in every interleaving, on
//!     two machines sharing ONE Interpreter object: each machine ends exactly as when its stream runs
//!     alone on fresh objects;
//! (d) every history of lines through one parser object followed by each probe line: same answer and
//!     same effect as a fresh parser (Preprocessor, DataParser, Interpreter in-process; the print
//!     reader through a prompt session of the real binary).

use super::common::*;
use crate::cli::*;
use crate::findings::*;
use crate::mach::*;
use crate::pipe::*;
use emulator_8086_lib as lib;
use lib::{DataParser, Interpreter, InterpreterContext, Preprocessor, PreprocessorContext, PreprocessorOutput, VM};
use rayon::prelude::*;
use serde_json::json;
use std::collections::BTreeSet;
use std::panic::{catch_unwind, AssertUnwindSafe};
use std::sync::atomic::{AtomicU64, Ordering};

fn fact(n: usize) -> u64 {
    (1..=n as u64).product::<u64>().max(1)
}

/// programs with several simultaneous errors: (name, source, number of entries in the undefined-label set)
fn order_programs() -> Vec<(String, String, usize)> {
    let mut v = Vec::new();
    // k undefined labels in every order of appearance, with jumps to defined labels in between
    let names = ["alpha", "beta", "gamma", "delta"];
    let mns = ["jmp", "jc", "loop", "jnz"];
    for k in 1..=4usize {
        // all permutations of which label is used first
        let mut perm: Vec<usize> = (0..k).collect();
        let mut perms = vec![perm.clone()];
        // Heap's algorithm, iterative
        let mut cstack = vec![0usize; k];
        let mut i = 0;
        while i < k {
            if cstack[i] < i {
                if i % 2 == 0 {
                    perm.swap(0, i);
                } else {
                    perm.swap(cstack[i], i);
                }
                perms.push(perm.clone());
                cstack[i] += 1;
                i = 0;
            } else {
                cstack[i] = 0;
                i += 1;
            }
        }
        for (pi, p) in perms.iter().enumerate() {
            if k == 4 && pi % 4 != 0 {
                continue;
            }
            for variant in 0..3 {
                let mut s = String::from("bv: db 1\nstart:\ninc ax\n");
                let mut entries = 0;
                for (j, li) in p.iter().enumerate() {
                    s.push_str(&format!("{} {}\n", mns[j % 4], names[*li]));
                    entries += 1;
                    if variant == 1 {
                        // a forward jump to a label that is defined later sits in the same set
                        if j == 0 {
                            s.push_str("jmp later\n");
                            entries += 1;
                        }
                        s.push_str("inc bx\n");
                    }
                    if variant == 2 && j == 0 {
                        // the same undefined label used twice
                        s.push_str(&format!("jz {}\n", names[*li]));
                        entries += 1;
                    }
                }
                if variant == 1 {
                    s.push_str("later:\n");
                }
                s.push_str("print reg\n");
                if entries <= 4 {
                    v.push((format!("{} undefined labels, order {:?}, variant {}", k, p, variant), s, entries));
                }
            }
        }
    }
    // combined with a missing start / start as data label
    v.push(("two undefined labels and no start".into(), "inc ax\njmp alpha\njc beta\n".into(), 2));
    v.push(("two undefined labels and start as data label".into(), "start: db 1\nx:\njmp alpha\njc beta\n".into(), 2));
    v.push(("undefined label and a later range error".into(), "start:\njmp alpha\nmov al, 300\n".into(), 1));
    v.push(("undefined labels inside procedures and macros".into(), "macro m(a) -> jmp a <-\ndef f {\njc beta\n}\nstart:\nm(alpha)\ncall f\nm(gamma)\n".into(), 3));
    // one macro use that generates several jumps: their set entries share the position of the use
    v.push(("two undefined labels from one macro use".into(), "macro br(a,b) -> jc a jmp b <-\nstart:\ninc ax\nbr(alpha, beta)\n".into(), 2));
    v.push(("three undefined labels from one macro use".into(), "macro br3(a,b,c) -> jc a jz b jmp c <-\nstart:\nbr3(gamma, alpha, beta)\nprint reg\n".into(), 3));
    v.push(("undefined labels from one macro use and a direct jump".into(), "macro br(a,b) -> jc a jmp b <-\nstart:\nbr(beta, alpha)\njmp gamma\n".into(), 3));
    v.push(("nested macro uses generating undefined jumps".into(), "macro go(l) -> jmp l <-\nmacro two(x,y) -> go(x) go(y) <-\nstart:\ntwo(beta, alpha)\n".into(), 2));
    // valid programs with forward jumps only (the set is non-empty but nothing is undefined)
    v.push(("forward jumps, all defined".into(), "start:\njmp a\nb:\njmp c\na:\njmp b\nc:\nprint reg\n".into(), 3));
    v
}

fn rerun_programs() -> Vec<(String, String, String)> {
    let mut v: Vec<(String, String, String)> = Vec::new();
    for f in ["addition", "data_transfer", "factorial", "hello_world", "interrupt", "lcm_gcd", "macro", "min_max", "sort"] {
        if let Ok(s) = std::fs::read_to_string(format!("{}/examples/{}.s", repo_dir(), f)) {
            v.push((format!("examples/{}.s", f), s, "n\nn\nhello\nn\nn\nn\n".into()));
        }
    }
    v.push(("syntax error".into(), "start:\nmov ax,, 5\n".into(), "".into()));
    v.push(("two syntax errors".into(), "start:\nmov ax, 70000\nmov bl, 300\nfoo bar\n".into(), "".into()));
    v.push(("duplicate labels".into(), "start:\na:\nb:\na:\nb:\n".into(), "".into()));
    v.push(("prompt session".into(), "start:\nmov ax, 5\nint 3\nprint reg\n".into(), "print reg\nprint flags\nfoo\nn\n".into()));
    v.push(("divide error".into(), "start:\nmov bl, 0\ndiv bl\nprint reg\n".into(), "".into()));
    v.push(("input".into(), "start:\nmov ah, 1\nint 0x21\nprint reg\n".into(), "xyz\n".into()));
    // refused programs whose diagnostic could be tempted to LIST things the assembler keeps in hash collections
    // (macros being expanded, labels, procedures, data labels): several of each, so that an order taken from a hash
    // collection differs between processes
    let many = "x: db 1\ny: db 2\nz: dw 3\nmacro ma(r) -> inc r <-\nmacro mb(r) -> dec r <-\nmacro mc(r) -> ma(r) mb(r) <-\ndef f {\ninc ax\n}\ndef g {\ninc bx\n}\ndef h {\ncall f\n}\none:\ntwo:\ninc cx\nthree:\nfour:\nmc(dx)\n";
    v.push(("mutual recursion through two macros".into(), "macro a(x) -> b(x) <-\nmacro b(x) -> a(x) <-\nstart:\na(ax)\n".into(), "".into()));
    v.push(("mutual recursion through three macros".into(), "macro a(x) -> inc x b(x) <-\nmacro b(x) -> c(x) <-\nmacro c(x) -> a(x) <-\nstart:\ninc ax\nb(ax)\n".into(), "".into()));
    v.push(("recursion through four macros, one passed by name".into(), "macro a(f,x) -> f (f,x) <-\nmacro b(f,x) -> c(f,x) <-\nmacro c(f,x) -> d(f,x) <-\nmacro d(f,x) -> a(b,x) <-\nstart:\na(b, ax)\n".into(), "".into()));
    v.push(("no start among many labels, procedures, macros and data labels".into(), many.to_string(), "".into()));
    v.push(("start is a data label among many names".into(), format!("start: db 9\n{}", many), "".into()));
    v.push(("duplicate label among many names".into(), format!("{}start:\ntwo:\n", many), "".into()));
    v.push(("duplicate procedure among many names".into(), format!("{}def g {{\ninc si\n}}\nstart:\n", many), "".into()));
    v.push(("call of an unknown procedure among many names".into(), format!("{}start:\ncall k\n", many), "".into()));
    v.push(("jump to a data label among many names".into(), format!("{}start:\njmp y\n", many), "".into()));
    v.push(("unknown macro among many names".into(), format!("{}start:\nmd(ax)\n", many), "".into()));
    v.push(("macro used with too few arguments among many names".into(), format!("{}start:\nmc()\n", many), "".into()));
    v.push(("code label used as data among many names".into(), format!("{}start:\nmov al, byte two\n", many), "".into()));
    // an unknown name with SEVERAL equally near known names of its kind (a "did you mean" taken from a hash
    // collection would pick a different one in different processes)
    v.push(("undefined label with equally near labels".into(), "start:\nnext1:\ninc ax\nnext2:\ninc bx\nnext4:\nnext5:\njmp next3\n".into(), "".into()));
    v.push(("unknown procedure with equally near procedures".into(), "def fn1 {\ninc ax\n}\ndef fn2 {\ninc bx\n}\ndef fn4 {\ninc cx\n}\nstart:\ncall fn3\n".into(), "".into()));
    v.push(("unknown data label with equally near data labels".into(), "dat1: db 1\ndat2: db 2\ndat4: db 4\ndat5: db 5\nstart:\nmov al, byte dat3\n".into(), "".into()));
    v.push(("unknown macro with equally near macros".into(), "macro mac1(r) -> inc r <-\nmacro mac2(r) -> dec r <-\nmacro mac4(r) -> not r <-\nstart:\nmac3(ax)\n".into(), "".into()));
    v
}

/// Whole programs one after the other ON ONE THREAD, each on a fresh machine, fresh contexts and a fresh assembly:
/// the last program of every sequence of up to 3 programs must behave exactly as when it runs alone on a brand-new
/// thread. The programs share procedure names, label names and the emitted positions of their calls and jumps while
/// the targets differ (state kept per thread - a thread_local table keyed by a name or by a position - is seen here;
/// the command-line binary, one program per process, can never show it).
fn program_sequences(rep: &Reporter, c: &Counters) -> u64 {
    let progs: Vec<&'static str> = vec![
        "def p {\ninc si\n}\ndef q {\ninc di\n}\nstart:\ncall p\nmov cx, 2\nagain:\ninc ax\nloop again\n",
        "def q {\ninc di\n}\ndef p {\ninc si\n}\nstart:\ncall p\nmov cx, 2\ninc bx\nagain:\ninc ax\nloop again\n",
        "def q {\nadd di, 5\n}\ndef p {\ncall q\n}\nstart:\ncall q\njmp again\ninc bx\nagain:\ncall p\n",
        "start:\nmov cx, 2\nagain:\ninc ax\nloop again\njmp done\ninc dx\ndone:\n",
        "start:\njmp done\nagain:\ninc ax\ndone:\nmov cx, 3\nback:\nadd bx, 2\nloop back\n",
        "bv: db 7\nwv: dw 0x1234\ndef p {\nmov al, byte bv\n}\nstart:\ncall p\nmov bx, word wv\n",
        "wv: dw 0x4321\nbv: db 9\ndef p {\nmov al, byte bv\n}\nstart:\ncall p\nmov bx, word wv\n",
    ];
    fn run_seq(progs: &[&'static str]) -> Result<(Vec<usize>, [u16; 14], String), String> {
        // a brand-new thread: nothing of this process's earlier work is in its thread-local state
        let list: Vec<&'static str> = progs.to_vec();
        std::thread::spawn(move || {
            let mut last = Err("empty".to_string());
            for src in list {
                let asm = crate::pipe::assemble_fresh(src).map_err(|e| format!("{:?}", e))?;
                let mut vm = emulator_8086_lib::VM::new();
                let r = run_program(&asm, &mut vm, 2000)?;
                last = Ok((r.trace.clone(), regs_of(&vm).as_array(), format!("{:?}", r.stop)));
            }
            last
        })
        .join()
        .unwrap_or_else(|_| Err("thread panicked".into()))
    }
    let alone: Vec<Result<(Vec<usize>, [u16; 14], String), String>> = progs.iter().map(|p| run_seq(&[*p])).collect();
    for (k, a) in alone.iter().enumerate() {
        match a {
            Ok((_, _, stop)) if stop.contains("Halt") => {}
            other => {
                eprintln!("MACHINERY: C19 sequence program {} does not run to its end alone: {:?}", k, other);
                std::process::exit(2);
            }
        }
    }
    let n = progs.len();
    let mut seqs: Vec<Vec<usize>> = Vec::new();
    for a in 0..n {
        for b in 0..n {
            seqs.push(vec![a, b]);
            for d in 0..n {
                seqs.push(vec![a, b, d]);
            }
        }
    }
    seqs.par_iter().for_each(|sq| {
        let list: Vec<&'static str> = sq.iter().map(|k| progs[*k]).collect();
        let got = run_seq(&list);
        c.add_exec(sq.len() as u64);
        let want = &alone[*sq.last().unwrap()];
        if &got != want {
            rep.report(Viol {
                site: "programs one after the other on one thread".into(),
                field: "state".into(),
                vars: vec![],
                got_val: None,
                expected: format!("the last program behaves as on a fresh thread: {:?}", want),
                got: format!("{:?}", got),
                case: json!({"programs_in_order": list}),
                weight: sq.len() as u64,
            });
        }
    });
    seqs.len() as u64
}

fn repo_dir() -> String {
    std::env::var("VERIF_REPO").unwrap_or_else(|_| "/repo".to_string())
}

// ---------------------------------------------------------------------------------------------
// (c) interleavings

struct StreamEnv {
    code: Vec<String>,
    asm: Asm,
    /// indices into code of the alphabet instructions
    alpha: Vec<usize>,
}

fn stream_env(thorough: bool) -> StreamEnv {
    let mut src = String::from("bv: db 7\nwv: dw 0x1234\ndef f {\ninc dx\n}\nstart:\n");
    let mut lines: Vec<&str> = vec!["mov ax, 0x1234", "add ax, bx", "mov word [16], ax", "push ax", "pop bx", "inc byte [16]"];
    if thorough {
        lines.extend(["call f", "ret", "rep stos byte", "stc", "xchg ax, cx", "sbb word wv, 1"]);
    }
    for l in lines.iter() {
        src.push_str(l);
        src.push('\n');
    }
    let asm = assemble(&src).expect("C19 stream program assembles");
    let start = asm.labels.get("start").unwrap().map;
    let alpha: Vec<usize> = (0..lines.len()).map(|k| start + k).collect();
    StreamEnv { code: asm.code.clone(), asm, alpha }
}

#[derive(Clone, PartialEq, Eq, Debug)]
struct Final {
    regs: [u16; 14],
    stack: Vec<usize>,
    execs: Vec<String>,
    cells: Vec<u8>,
}

fn watch_cells(vm: &VM) -> Vec<u8> {
    // the cells the alphabet can touch: data (0..8), [16..18), stack top area, stos area
    let mut v = Vec::new();
    for a in (0..24usize).chain(0xFFF0..0x10000).chain(0x100..0x108) {
        v.push(vm.mem[a]);
    }
    v
}

fn init_vm(vm: &mut VM, which: u8) {
    // the two machines start from different states
    vm.arch.bx = 0x1111 * (which as u16 + 1);
    vm.arch.cx = 2;
    vm.arch.di = 0x0100;
    vm.arch.dx = which as u16;
    vm.mem[16] = 0x40 + which;
}

fn exec_one(it: &Interpreter, env: &StreamEnv, vm: &mut VM, ictx: &mut InterpreterContext, a: usize) -> String {
    let idx = env.alpha[a];
    let mut n = 0;
    loop {
        let r = catch_unwind(AssertUnwindSafe(|| it.parse(idx, vm, ictx, &env.code[idx])));
        let s = match r {
            Ok(Ok(s)) => format!("{:?}", St::from(s)),
            Ok(Err(e)) => format!("Err({})", e),
            Err(e) => format!("PANIC({})", panic_msg(e)),
        };
        n += 1;
        if s != "Repeat" || n > 8 {
            return s;
        }
    }
}

fn finalize(vm: &VM, ictx: &InterpreterContext, execs: Vec<String>) -> Final {
    Final { regs: Regs::from_vm(vm).as_array(), stack: cs_get(ictx), execs, cells: watch_cells(vm) }
}

fn run_alone(env: &StreamEnv, stream: &[usize], which: u8) -> (Final, Box<VM>) {
    let it = Interpreter::new();
    let mut vm = Box::new(VM::new());
    init_vm(&mut vm, which);
    let mut ictx = env.asm.ictx();
    let mut ex = Vec::new();
    for a in stream {
        ex.push(exec_one(&it, env, &mut vm, &mut ictx, *a));
    }
    (finalize(&vm, &ictx, ex), vm)
}

/// all interleavings of n a-steps and m b-steps as bit masks (true = machine A moves)
fn interleavings(n: usize, m: usize) -> Vec<Vec<bool>> {
    fn go(n: usize, m: usize, cur: &mut Vec<bool>, out: &mut Vec<Vec<bool>>) {
        if n == 0 && m == 0 {
            out.push(cur.clone());
            return;
        }
        if n > 0 {
            cur.push(true);
            go(n - 1, m, cur, out);
            cur.pop();
        }
        if m > 0 {
            cur.push(false);
            go(n, m - 1, cur, out);
            cur.pop();
        }
    }
    let mut out = Vec::new();
    go(n, m, &mut Vec::new(), &mut out);
    out
}

fn all_streams(alpha: usize, maxlen: usize) -> Vec<Vec<usize>> {
    let mut out: Vec<Vec<usize>> = vec![vec![]];
    let mut last: Vec<Vec<usize>> = vec![vec![]];
    for _ in 0..maxlen {
        let mut next = Vec::new();
        for s in last.iter() {
            for a in 0..alpha {
                let mut t = s.clone();
                t.push(a);
                next.push(t);
            }
        }
        out.extend(next.iter().cloned());
        last = next;
    }
    out
}

// ---------------------------------------------------------------------------------------------
// (d) parser histories

fn pre_answer(p: &Preprocessor, src: &str) -> String {
    let r = catch_unwind(AssertUnwindSafe(|| {
        let mut ctx = PreprocessorContext::default();
        let mut out = PreprocessorOutput::default();
        match p.parse(&mut ctx, &mut out, src) {
            Ok(_) => {
                let mut labels: Vec<(String, usize)> = ctx.label_map.iter().map(|(k, v)| (k.clone(), v.map as usize)).collect();
                labels.sort();
                let mut undef: Vec<(usize, String)> = ctx.undefined_labels.into_iter().collect();
                undef.sort();
                let mut sm: Vec<(usize, usize)> = ctx.mapper.get_source_map().into_iter().collect();
                sm.sort();
                format!("Ok code={:?} data={:?} labels={:?} undef={:?} map={:?}", out.code, out.data, labels, undef, sm)
            }
            Err(e) => format!("Err {}", e),
        }
    }));
    match r {
        Ok(s) => s,
        Err(e) => format!("PANIC {}", panic_msg(e)),
    }
}

/// the same with ONE context and ONE output object that are cleared (the library's own `clear`) and
/// reused: a cleared context must behave like a new one
fn pre_answer_reused(p: &Preprocessor, ctx: &mut PreprocessorContext, out: &mut PreprocessorOutput, src: &str) -> String {
    ctx.clear();
    out.clear();
    let r = catch_unwind(AssertUnwindSafe(|| match p.parse(ctx, out, src) {
        Ok(_) => {
            let mut labels: Vec<(String, usize)> = ctx.label_map.iter().map(|(k, v)| (k.clone(), v.map as usize)).collect();
            labels.sort();
            let mut undef: Vec<(usize, String)> = ctx.undefined_labels.iter().map(|e| crate::pipe::UndefEntry::entry(e)).collect();
            undef.sort();
            format!("Ok code={:?} data={:?} labels={:?} undef={:?}", out.code, out.data, labels, undef)
        }
        Err(e) => format!("Err {}", e),
    }));
    match r {
        Ok(s) => s,
        Err(e) => format!("PANIC {}", panic_msg(e)),
    }
}

fn data_answer(p: &DataParser, line: &str) -> String {
    let r = catch_unwind(AssertUnwindSafe(|| {
        let mut vm = VM::new();
        let mut ctr = 3usize;
        vm.arch.ds = 0x0010;
        let a = match p.parse(&mut vm, &mut ctr, line) {
            Ok(_) => "Ok".to_string(),
            Err(e) => format!("Err {}", e),
        };
        let cells: Vec<u8> = vm.mem[0x100..0x120].to_vec();
        format!("{} ctr={} ds={:04X} cells={:?}", a, ctr, vm.arch.ds, cells)
    }));
    match r {
        Ok(s) => s,
        Err(e) => format!("PANIC {}", panic_msg(e)),
    }
}

fn interp_answer(p: &Interpreter, asm: &Asm, line: &str) -> String {
    let r = catch_unwind(AssertUnwindSafe(|| {
        let mut vm = VM::new();
        vm.arch.cx = 2;
        vm.arch.bx = 0x0203;
        vm.arch.di = 0x0040;
        let mut ictx = asm.ictx();
        ictx.call_stack.push(1);
        let a = match p.parse(2, &mut vm, &mut ictx, line) {
            Ok(s) => format!("Ok {:?}", St::from(s)),
            Err(e) => format!("Err {}", e),
        };
        format!("{} regs={:?} stack={:?} cells={:?}", a, Regs::from_vm(&vm).as_array(), ictx.call_stack, &vm.mem[0x40..0x48])
    }));
    match r {
        Ok(s) => s,
        Err(e) => format!("PANIC {}", panic_msg(e)),
    }
}

fn histories(n: usize, maxlen: usize) -> Vec<Vec<usize>> {
    all_streams(n, maxlen)
}

/// calls `T::default()` if (and only if) `T` implements `Default` (autoref specialisation), so that the harness
/// still builds against a tree whose machine type does not offer it
struct DefaultProbe<T>(std::marker::PhantomData<T>);
trait ViaDefault<T> {
    fn make(&self) -> Option<T>;
}
impl<T: Default> ViaDefault<T> for DefaultProbe<T> {
    fn make(&self) -> Option<T> {
        Some(T::default())
    }
}
trait ViaNothing<T> {
    fn make(&self) -> Option<T>;
}
impl<T> ViaNothing<T> for &DefaultProbe<T> {
    fn make(&self) -> Option<T> {
        None
    }
}

pub fn run(tier: &Tier) -> i32 {
    let rep_o = Reporter::new("C19", tier.name());
    let c_o = Counters::default();
    let rep = &rep_o;
    let c = &c_o;
    ensure_bin();

    // ---------------- (a) iteration orders and reruns
    let progs = order_programs();
    let orders_run = AtomicU64::new(0);
    let distinct_msgs: std::sync::Mutex<BTreeSet<String>> = std::sync::Mutex::new(BTreeSet::new());
    progs.par_iter().for_each(|(name, src, entries)| {
        let n = fact(*entries);
        let mut outs: Vec<(String, CliOut)> = Vec::new();
        for k in 0..n {
            let mut o = CliOpts::default();
            o.order = Some(k);
            outs.push((format!("VERIF_ORDER={}", k), run_cli(src, "", &o)));
        }
        for r in 0..2 {
            outs.push((format!("hash order as it comes, run {}", r), run_cli(src, "", &CliOpts::default())));
        }
        orders_run.fetch_add(outs.len() as u64, Ordering::Relaxed);
        c.outcome(&format!("order runs: {}", outs[0].1.out().lines().next().unwrap_or("").split(' ').take(2).collect::<Vec<_>>().join(" ")));
        c.add_exec(outs.len() as u64);
        let first = outs[0].1.clone();
        distinct_msgs.lock().unwrap().insert(first.out().lines().next().unwrap_or("").to_string());
        for (how, o) in outs.iter().skip(1) {
            if o.stdout != first.stdout || o.status != first.status || o.signal != first.signal {
                rep.report(Viol {
                    site: "iteration order".into(),
                    field: "output".into(),
                    vars: vec![("entries".into(), *entries as i64)],
                    got_val: None,
                    expected: format!("the same output under every iteration order; VERIF_ORDER=0 gives {:?}", clip_text(&first.out(), 300)),
                    got: format!("{}: {:?}", how, clip_text(&o.out(), 300)),
                    case: json!({"src": src, "stdin": "", "order": how, "name": name}),
                    weight: src.len() as u64,
                });
                break;
            }
        }
        if let Some(a) = first.abnormal() {
            rep.report(Viol { site: "iteration order".into(), field: "exit".into(), vars: vec![], got_val: None, expected: "normal termination".into(), got: format!("{}: {}", a, first.summary()), case: json!({"src": src, "stdin": "", "name": name}), weight: src.len() as u64 });
        }
    });
    // the hook must really permute (otherwise the enumeration above is vacuous): checked on the one
    // observable the permutation has when the driver does not impose an order of its own
    let reruns = rerun_programs();
    reruns.par_iter().for_each(|(name, src, stdin)| {
        let first = run_cli(src, stdin, &CliOpts::default());
        c.add_exec(8);
        for r in 0..7 {
            let o = run_cli(src, stdin, &CliOpts::default());
            if o.stdout != first.stdout || o.status != first.status || o.signal != first.signal || o.timed_out != first.timed_out {
                rep.report(Viol {
                    site: "rerun".into(),
                    field: "output".into(),
                    vars: vec![],
                    got_val: None,
                    expected: format!("byte-identical output in every run: {:?}", clip_text(&first.out(), 300)),
                    got: format!("run {}: {:?}", r + 2, clip_text(&o.out(), 300)),
                    case: json!({"src": src, "stdin": stdin, "name": name}),
                    weight: src.len() as u64,
                });
                break;
            }
        }
    });

    // ---------------- whole programs in sequence on one thread
    let seq_programs = program_sequences(rep, c);

    // ---------------- (b) fresh machine
    let fresh_checks = AtomicU64::new(0);
    {
        let env = stream_env(true);
        let streams = all_streams(env.alpha.len(), 2);
        streams.par_iter().for_each(|s| {
            let (_, used) = run_alone(&env, s, 1);
            drop(used);
            // both public ways of making a machine: VM::new() and, where the type offers it, Default
            let made: Vec<(&str, VM)> = {
                let mut v = vec![("VM::new()", VM::new())];
                let probe = DefaultProbe::<VM>(std::marker::PhantomData);
                if let Some(d) = (&probe).make() {
                    v.push(("VM::default()", d));
                }
                v
            };
            for (how, vm) in made {
            fresh_checks.fetch_add(1, Ordering::Relaxed);
            let r = Regs::from_vm(&vm);
            let mut bad: Option<String> = None;
            let mut want = Regs::default();
            want.flag = 0xF000;
            want.cs = 0xFFFF;
            if r.as_array() != want.as_array() {
                bad = Some(format!("registers {:?}", r.json()));
            } else if let Some(a) = vm.mem.iter().position(|b| *b != 0) {
                bad = Some(format!("memory[0x{:05X}] = 0x{:02X}", a, vm.mem[a]));
            } else if vm.mem.len() != 1 << 20 {
                bad = Some(format!("memory size {}", vm.mem.len()));
            }
            if let Some(b) = bad {
                rep.report(Viol { site: format!("fresh machine / {}", how), field: "state".into(), vars: vec![], got_val: None, expected: "all registers and all 2^20 bytes zero except FLAGS=F000h, CS=FFFFh".into(), got: b, case: json!({"history": s, "constructor": how}), weight: 0 });
            }
            }
        });
        c.add_exec(streams.len() as u64);
    }

    // ---------------- (c) interleavings on two machines sharing one Interpreter object
    let env = stream_env(tier.thorough);
    let maxlen = 3;
    let streams = all_streams(env.alpha.len(), maxlen);
    // isolated results, per starting state
    let alone: Vec<[Final; 2]> = streams.par_iter().map(|s| [run_alone(&env, s, 0).0, run_alone(&env, s, 1).0]).collect();
    let pairs_n = AtomicU64::new(0);
    let inter_n = AtomicU64::new(0);
    let full_audits = AtomicU64::new(0);
    let idxs: Vec<usize> = (0..streams.len()).collect();
    idxs.par_iter().for_each(|ia| {
        let it = Interpreter::new();
        let mut vma = Box::new(VM::new());
        let mut vmb = Box::new(VM::new());
        let sa = &streams[*ia];
        for (ib, sb) in streams.iter().enumerate() {
            // quick: pairs of full-length streams and all shorter ones; every pair in thorough
            pairs_n.fetch_add(1, Ordering::Relaxed);
            for (li, il) in interleavings(sa.len(), sb.len()).iter().enumerate() {
                // fresh machines, ONE shared interpreter object
                // only the cells the alphabet can touch are reset between runs; a stray write elsewhere
                // stays in memory and is caught by the next whole-memory audit
                for a in (0..24usize).chain(0xFFF0..0x10000).chain(0x100..0x108) {
                    vma.mem[a] = 0;
                    vmb.mem[a] = 0;
                }
                vma.arch = VM::new().arch;
                vmb.arch = VM::new().arch;
                init_vm(&mut vma, 0);
                init_vm(&mut vmb, 1);
                let mut ca = env.asm.ictx();
                let mut cb = env.asm.ictx();
                let (mut xa, mut xb) = (Vec::new(), Vec::new());
                let (mut pa, mut pb) = (0, 0);
                for step_a in il.iter() {
                    if *step_a {
                        xa.push(exec_one(&it, &env, &mut vma, &mut ca, sa[pa]));
                        pa += 1;
                    } else {
                        xb.push(exec_one(&it, &env, &mut vmb, &mut cb, sb[pb]));
                        pb += 1;
                    }
                }
                inter_n.fetch_add(1, Ordering::Relaxed);
                if li == 0 && ib % 97 == 0 {
                    c.outcome(&format!("interleaved: {:?}", xa.last()));
                }
                let fa = finalize(&vma, &ca, xa);
                let fb = finalize(&vmb, &cb, xb);
                let mut bad = None;
                if fa != alone[*ia][0] {
                    bad = Some(("A", format!("{:?}", alone[*ia][0]), format!("{:?}", fa)));
                } else if fb != alone[ib][1] {
                    bad = Some(("B", format!("{:?}", alone[ib][1]), format!("{:?}", fb)));
                } else if li == 0 && (ia + ib) % 61 == 0 {
                    // whole-memory audit against a fresh isolated run
                    full_audits.fetch_add(1, Ordering::Relaxed);
                    let (_, va) = run_alone(&env, sa, 0);
                    if va.mem[..] != vma.mem[..] {
                        let a = (0..1usize << 20).find(|k| va.mem[*k] != vma.mem[*k]).unwrap();
                        bad = Some(("A", format!("memory[0x{:05X}]=0x{:02X}", a, va.mem[a]), format!("0x{:02X}", vma.mem[a])));
                    }
                }
                if let Some((which, exp, got)) = bad {
                    let show = |s: &Vec<usize>| s.iter().map(|a| env.code[env.alpha[*a]].clone()).collect::<Vec<_>>();
                    rep.report(Viol {
                        site: "two machines, one interpreter".into(),
                        field: "state".into(),
                        vars: vec![],
                        got_val: None,
                        expected: format!("machine {} ends as when its stream runs alone on fresh objects: {}", which, exp),
                        got,
                        case: json!({"stream_a": show(sa), "stream_b": show(sb), "interleaving_a_moves": il}),
                        weight: (sa.len() + sb.len()) as u64 * 100 + li as u64,
                    });
                }
            }
        }
    });
    c.add_exec(inter_n.load(Ordering::Relaxed));

    // ---------------- (d) parser histories
    let hist_n = AtomicU64::new(0);
    let hl = if tier.thorough { 3 } else { 2 };
    // Preprocessor
    {
        let alpha: Vec<&str> = vec![
            "start:\nmov ax, 5\n",
            "bv: db 5\nstart:\nmov al, byte bv\njmp fwd\nfwd:\n",
            "macro m(a) -> inc a <-\nstart:\nm(ax)\nm(bx)\n",
            "macro r(a) -> r(a) <-\nstart:\nr(ax)\n",
            "start:\nmov ax,, 5\n",
            "start:\nmov al, 300\n",
            "def f {\ninc ax\n}\nstart:\ncall f\n",
            "start:\na:\na:\n",
            "db [70000]\n",
            "",
            "start:\njmp nowhere\n",
            "set 16\nx: dw [3]\ny: db \"hi\"\nstart:\nlea ax, word x\nprint mem offset y : 2\n",
        ];
        let fresh: Vec<String> = alpha.iter().map(|s| pre_answer(&Preprocessor::new(), s)).collect();
        let hs = histories(alpha.len(), hl);
        hs.par_iter().for_each(|h| {
            let p = Preprocessor::new();
            for a in h {
                let _ = pre_answer(&p, alpha[*a]);
            }
            for (pi, probe) in alpha.iter().enumerate() {
                hist_n.fetch_add(1, Ordering::Relaxed);
                let got = pre_answer(&p, probe);
                if got != fresh[pi] {
                    rep.report(Viol { site: "parser history / Preprocessor".into(), field: "answer".into(), vars: vec![], got_val: None, expected: clip_text(&fresh[pi], 600), got: clip_text(&got, 600), case: json!({"history": h.iter().map(|a| alpha[*a]).collect::<Vec<_>>(), "probe": probe}), weight: h.len() as u64 });
                }
            }
        });
    }
    // Preprocessor with a reused, cleared context: histories that end in every kind of error, incl. the
    // nesting limit and recursion, followed by programs that use the same macro names
    {
        let deep: String = {
            let mut t = String::from("macro c0(a) -> inc a <-\n");
            for k in 1..=130 {
                t.push_str(&format!("macro c{}(a) -> c{}(a) <-\n", k, k - 1));
            }
            t.push_str("start:\nc130(ax)\n");
            t
        };
        let alpha: Vec<String> = vec![
            "start:\nmov ax, 5\n".into(),
            "macro c0(a) -> inc a <-\nmacro c1(a) -> c0(a) <-\nstart:\nc1(ax)\nc0(bx)\n".into(),
            deep.clone(),
            "macro r(a) -> r(a) <-\nstart:\nr(ax)\n".into(),
            "macro r(a) -> inc a <-\nstart:\nr(ax)\nr(bx)\n".into(),
            "macro m(a) -> mov al, a <-\nstart:\nm(300)\n".into(),
            "macro m(a) -> inc a <-\ndef f {\nm(ax)\n}\nstart:\ncall f\njmp fwd\nfwd:\n".into(),
            "bv: db 5\nstart:\nmov al, byte bv\n".into(),
            "db [70000]\n".into(),
            "start:\nmov ax,, 5\n".into(),
            "macro e(a) -> <-\nstart:\ne(ax)\ne(bx)\n".into(),
            "macro c129(a) -> inc a <-\nmacro c130(a) -> c129(a) <-\nstart:\nc130(ax)\nc129(bx)\n".into(),
            // every way an expansion can fail (text ends inside an instruction, unexpected token, invalid
            // character, in a nested expansion, wrong argument count), each followed - in other histories - by a
            // valid program that uses the same macro names and a forward jump
            "macro half(a) -> mov a, <-\nstart:\nhalf(ax)\n".into(),
            "macro half(a) -> inc a <-\nmacro whole(a) -> half(a) <-\nstart:\nhalf(ax)\nwhole(bx)\njmp z\nz:\n".into(),
            "macro half(a) -> mov a,, 5 <-\nmacro whole(a) -> half(a) <-\nstart:\nwhole(ax)\n".into(),
            "macro half(a) -> mov a, [ <-\nmacro whole(a) -> inc a half(a) <-\nstart:\njmp z\nwhole(ax)\nz:\n".into(),
            "macro half(a) -> inc a <-\nstart:\nhalf(ax, bx)\n".into(),
            "macro half(a) -> mov a, @ <-\nstart:\nhalf(ax)\n".into(),
        ];
        let fresh: Vec<String> = alpha
            .iter()
            .map(|s| {
                let mut ctx = PreprocessorContext::default();
                let mut out = PreprocessorOutput::default();
                pre_answer_reused(&Preprocessor::new(), &mut ctx, &mut out, s)
            })
            .collect();
        // (the deep chain costs about a second per parse: histories of length 1 in quick, 2 in thorough)
        let hs = histories(alpha.len(), hl - 1);
        hs.par_iter().for_each(|h| {
            let p = Preprocessor::new();
            let mut ctx = PreprocessorContext::default();
            let mut out = PreprocessorOutput::default();
            for a in h {
                let _ = pre_answer_reused(&p, &mut ctx, &mut out, &alpha[*a]);
            }
            for (pi, probe) in alpha.iter().enumerate() {
                hist_n.fetch_add(1, Ordering::Relaxed);
                let got = pre_answer_reused(&p, &mut ctx, &mut out, probe);
                if got != fresh[pi] {
                    rep.report(Viol { site: "parser history / Preprocessor with a cleared context".into(), field: "answer".into(), vars: vec![], got_val: None, expected: clip_text(&fresh[pi], 600), got: clip_text(&got, 600), case: json!({"history": h.iter().map(|a| clip_text(&alpha[*a], 300)).collect::<Vec<_>>(), "probe": clip_text(probe, 300)}), weight: h.len() as u64 });
                    // later probes would only repeat the leak
                    break;
                }
            }
        });
        // the source map (a private part of the context, read out by consuming the mapper) after every history
        // of one (thorough: two) programs and a clear: the same as that of a new context
        let smap = |ctx: &mut PreprocessorContext| -> String {
            let m = std::mem::take(&mut ctx.mapper);
            let mut v: Vec<(usize, usize)> = m.get_source_map().into_iter().map(|(a, b)| (a as usize, b as usize)).collect();
            v.sort();
            format!("{:?}", v)
        };
        let cheap: Vec<usize> = (0..alpha.len()).filter(|k| alpha[*k].len() < 2000).collect();
        let fresh_map: Vec<String> = alpha
            .iter()
            .map(|s| {
                let mut ctx = PreprocessorContext::default();
                let mut out = PreprocessorOutput::default();
                let _ = pre_answer_reused(&Preprocessor::new(), &mut ctx, &mut out, s);
                smap(&mut ctx)
            })
            .collect();
        let mut hs2: Vec<Vec<usize>> = Vec::new();
        for a in cheap.iter() {
            hs2.push(vec![*a]);
            if tier.thorough {
                for b in cheap.iter() {
                    hs2.push(vec![*a, *b]);
                }
            }
        }
        hs2.par_iter().for_each(|h| {
            for pi in cheap.iter() {
                let p = Preprocessor::new();
                let mut ctx = PreprocessorContext::default();
                let mut out = PreprocessorOutput::default();
                for a in h {
                    let _ = pre_answer_reused(&p, &mut ctx, &mut out, &alpha[*a]);
                }
                hist_n.fetch_add(1, Ordering::Relaxed);
                let _ = pre_answer_reused(&p, &mut ctx, &mut out, &alpha[*pi]);
                let got = smap(&mut ctx);
                if got != fresh_map[*pi] {
                    rep.report(Viol { site: "parser history / source map of a cleared context".into(), field: "answer".into(), vars: vec![], got_val: None, expected: clip_text(&fresh_map[*pi], 600), got: clip_text(&got, 600), case: json!({"history": h.iter().map(|a| clip_text(&alpha[*a], 300)).collect::<Vec<_>>(), "probe": clip_text(&alpha[*pi], 300)}), weight: h.len() as u64 });
                    break;
                }
            }
        });
    }
    // DataParser
    {
        let alpha: Vec<&str> = vec!["db 5", "dw 4660", "db [3]", "dw [7 , 2]", "db \"hey\"", "dw \"ab\"", "set 32", "db 300", "dw", "garbage", "", "db [-1 , 3]"];
        let fresh: Vec<String> = alpha.iter().map(|s| data_answer(&DataParser::new(), s)).collect();
        let hs = histories(alpha.len(), hl);
        hs.par_iter().for_each(|h| {
            let p = DataParser::new();
            for a in h {
                let _ = data_answer(&p, alpha[*a]);
            }
            for (pi, probe) in alpha.iter().enumerate() {
                hist_n.fetch_add(1, Ordering::Relaxed);
                let got = data_answer(&p, probe);
                if got != fresh[pi] {
                    rep.report(Viol { site: "parser history / DataParser".into(), field: "answer".into(), vars: vec![], got_val: None, expected: clip_text(&fresh[pi], 600), got: clip_text(&got, 600), case: json!({"history": h.iter().map(|a| alpha[*a]).collect::<Vec<_>>(), "probe": probe}), weight: h.len() as u64 });
                }
            }
        });
    }
    // Interpreter
    {
        let asm = assemble("bv: db 1\ndef f {\ninc ax\n}\nstart:\nl:\ncall f\n").expect("assembles");
        let alpha: Vec<&str> = vec!["mov ax, 5", "add ax, bx", "rep stos byte", "call f", "ret", "jmp l", "div bl", "int 3", "print reg", "hlt", "mov ax,, 5", "", "frobnicate", "mov byte [bx], 7"];
        let fresh: Vec<String> = alpha.iter().map(|s| interp_answer(&Interpreter::new(), &asm, s)).collect();
        let hs = histories(alpha.len(), hl);
        hs.par_iter().for_each(|h| {
            let p = Interpreter::new();
            for a in h {
                let _ = interp_answer(&p, &asm, alpha[*a]);
            }
            for (pi, probe) in alpha.iter().enumerate() {
                hist_n.fetch_add(1, Ordering::Relaxed);
                let got = interp_answer(&p, &asm, probe);
                if got != fresh[pi] {
                    rep.report(Viol { site: "parser history / Interpreter".into(), field: "answer".into(), vars: vec![], got_val: None, expected: clip_text(&fresh[pi], 600), got: clip_text(&got, 600), case: json!({"history": h.iter().map(|a| alpha[*a]).collect::<Vec<_>>(), "probe": probe}), weight: h.len() as u64 });
                }
            }
        });
    }
    c.add_exec(hist_n.load(Ordering::Relaxed));
    // print reader: one prompt session of the real binary (one PrintParser object answers all commands)
    let prompt_hist = AtomicU64::new(0);
    {
        let src = "bv: db 17\nstart:\nmov ax, 0x1234\nstc\nint 3\n";
        let alpha: Vec<&str> = vec!["print reg", "print flags", "print mem 0 -> 3", "print mem 0 : 300", "print mem : 2", "print mem 5 -> 2", "print mem 1048576 -> 1048577", "garbage", "", "print mem 0x0 -> 0b11", "print", "print mem"];
        let answer = |script: &[&str]| -> (Vec<u8>, Option<String>) {
            let mut s = String::new();
            for l in script {
                s.push_str(l);
                s.push('\n');
            }
            s.push_str("n\n");
            let o = run_cli(src, &s, &CliOpts::default());
            (o.stdout.clone(), o.abnormal())
        };
        // answer of a fresh session to the probe alone: everything after the first prompt marker
        let after = |out: &[u8], k: usize| -> Vec<u8> {
            // the part of stdout after the k-th ">>> "
            let mut pos = 0;
            let mut seen = 0;
            while seen < k {
                match out[pos..].windows(4).position(|w| w == b">>> ") {
                    Some(i) => {
                        pos += i + 4;
                        seen += 1;
                    }
                    None => return Vec::new(),
                }
            }
            out[pos..].to_vec()
        };
        let fresh: Vec<Vec<u8>> = alpha.iter().map(|p| after(&answer(&[p]).0, 1)).collect();
        let hs = histories(alpha.len(), 2);
        hs.par_iter().for_each(|h| {
            for (pi, probe) in alpha.iter().enumerate() {
                if (pi + h.len() + h.iter().sum::<usize>()) % 3 != 0 && !tier.thorough {
                    continue;
                }
                let mut script: Vec<&str> = h.iter().map(|a| alpha[*a]).collect();
                script.push(probe);
                let (out, ab) = answer(&script);
                prompt_hist.fetch_add(1, Ordering::Relaxed);
                let got = after(&out, h.len() + 1);
                if got != fresh[pi] || ab.is_some() {
                    rep.report(Viol {
                        site: "parser history / print reader".into(),
                        field: "answer".into(),
                        vars: vec![],
                        got_val: None,
                        expected: format!("{:?}", clip_text(&String::from_utf8_lossy(&fresh[pi]), 400)),
                        got: format!("{:?} {:?}", clip_text(&String::from_utf8_lossy(&got), 400), ab),
                        case: json!({"src": src, "stdin": format!("{}\nn\n", script.join("\n")), "probe": probe}),
                        weight: h.len() as u64,
                    });
                }
            }
        });
        c.add_exec(prompt_hist.load(Ordering::Relaxed));
    }

    // ---------------- free-running threads (smoke, not deciding): private machines, shared nothing
    let thread_runs = {
        let env = std::sync::Arc::new(stream_env(true));
        let streams = std::sync::Arc::new(all_streams(env.alpha.len(), 2));
        let expect: Vec<Final> = streams.iter().map(|s| run_alone(&env, s, 0).0).collect();
        let expect = std::sync::Arc::new(expect);
        let mut hs = Vec::new();
        for t in 0..8usize {
            let (env, streams, expect) = (env.clone(), streams.clone(), expect.clone());
            hs.push(std::thread::spawn(move || {
                let mut bad = Vec::new();
                for (k, s) in streams.iter().enumerate().skip(t).step_by(3) {
                    let (f, _) = run_alone(&env, s, 0);
                    if f != expect[k] {
                        bad.push(k);
                    }
                }
                bad
            }));
        }
        let mut n = 0;
        for h in hs {
            match h.join() {
                Ok(bad) => {
                    n += 1;
                    for k in bad {
                        rep.report(Viol { site: "threads".into(), field: "state".into(), vars: vec![], got_val: None, expected: "a stream on a private machine ends the same in a concurrent thread".into(), got: format!("stream #{} differs", k), case: json!({"stream": k}), weight: 0 });
                    }
                }
                Err(_) => rep.report(Viol { site: "threads".into(), field: "panic".into(), vars: vec![], got_val: None, expected: "no panic".into(), got: "thread panicked".into(), case: json!({}), weight: 0 }),
            }
        }
        n
    };

    // ---------------- static audit: sources of nondeterminism the harness does not own (a note, not a verdict)
    let mut audit: Vec<String> = Vec::new();
    {
        let re = regex::Regex::new(r"(\.iter\(\)|\.keys\(\)|\.values\(\)|\.drain\(|into_iter\(\)|static\s+mut|thread_local|unsafe|SystemTime|Instant::|env::var|rand::|RefCell|Mutex|Atomic|lazy_static)").unwrap();
        let mut files: Vec<std::path::PathBuf> = Vec::new();
        fn walk(d: &std::path::Path, out: &mut Vec<std::path::PathBuf>) {
            if let Ok(rd) = std::fs::read_dir(d) {
                for e in rd.flatten() {
                    let p = e.path();
                    if p.is_dir() {
                        walk(&p, out);
                    } else if p.extension().map(|x| x == "rs" || x == "lalrpop").unwrap_or(false) {
                        out.push(p);
                    }
                }
            }
        }
        walk(std::path::Path::new(&format!("{}/src", repo_dir())), &mut files);
        files.sort();
        for f in files {
            let name = f.to_string_lossy().to_string();
            // generated parsers and tests are not audited
            if name.ends_with("preprocessor.rs") || name.ends_with("interpreter.rs") || name.ends_with("data_parser.rs") || name.ends_with("print.rs") || name.contains("/tests/") || name.ends_with("_tests.rs") || name.ends_with("verif_hooks.rs") {
                continue;
            }
            if let Ok(t) = std::fs::read_to_string(&f) {
                for (ln, l) in t.lines().enumerate() {
                    let lt = l.trim();
                    if lt.starts_with("//") {
                        continue;
                    }
                    if re.is_match(l) && (l.contains("map") || l.contains("labels") || l.contains("static") || l.contains("unsafe") || l.contains("Time") || l.contains("Instant") || l.contains("env::") || l.contains("rand") || l.contains("Cell") || l.contains("Mutex") || l.contains("Atomic") || l.contains("thread_local")) {
                        audit.push(format!("{}:{}: {}", name.replace(&repo_dir(), ""), ln + 1, lt));
                    }
                }
            }
        }
    }

    c.states.fetch_add(streams.len() as u64 * streams.len() as u64, Ordering::Relaxed);
    for (name, src, e) in progs.iter().step_by(progs.len() / 4 + 1) {
        c.sample(json!({"part": "iteration orders", "name": name, "src": src, "orders": fact(*e)}));
    }
    c.sample(json!({"part": "interleavings", "alphabet": env.alpha.iter().map(|i| env.code[*i].clone()).collect::<Vec<_>>(), "streams": streams.len(), "max_len": maxlen}));
    if (inter_n.load(Ordering::Relaxed) < 100_000 || hist_n.load(Ordering::Relaxed) < 3000 || distinct_msgs.lock().unwrap().len() < 5) && rep.unknown_count() == 0 {
        eprintln!("MACHINERY: C19 explored too little");
        return 2;
    }
    let mut cov = Coverage::default();
    cov.exhaustive = true;
    cov.rule = format!("(a) {} programs with 1-4 entries in the undefined-label set (every order of appearance of up to 4 undefined labels, forward jumps to defined labels in the same set, a label used twice, missing start, later range error, labels in procedures and macros) each run under ALL iteration orders of the set (hook VERIF_ORDER, k! orders) plus two runs in natural hash order: outputs must be byte-identical; {} further programs (the repository's examples, syntax errors, prompt session, divide error, input) rerun 8 times in separate processes; among them 16 refused programs with several macros / labels / procedures / data labels each (mutual recursion through 2, 3 and 4 macros, no start, duplicates, unknown names), whose diagnostic must not depend on the order of a hash collection (repetition, not enumeration). (b) VM::new() and VM::default() after every history of <= 2 instructions on another machine: all registers and all 2^20 bytes zero except FLAGS=F000h, CS=FFFFh. (c) explicit-state: all pairs of instruction streams of length <= {} over a {}-instruction alphabet (register, flag, memory, stack{} instructions) on two machines with different initial states sharing ONE Interpreter object, in ALL interleavings; each machine's final registers, call stack, return values and watched memory cells must equal the stream run alone on fresh objects (whole-memory audit on a subset). (d) every history of <= {} lines (12-14 line alphabets: valid, invalid, erroring, REP, call/ret, recursion error) through one Preprocessor / DataParser / Interpreter object followed by each probe line: answer and effect equal a fresh object's; the same for one preprocessor CONTEXT that is cleared with the library's clear() and reused (histories ending in the nesting limit, recursion and range errors), including the source map such a context yields; print reader: histories of <= 2 commands in one prompt session of the real binary. (e) every sequence of 2 and 3 whole programs out of 7 (shared procedure / label names and call / jump positions, different targets) run one after the other on ONE thread with fresh machine, contexts and assembly each: the last one must behave exactly as alone on a brand-new thread. Free-running 8-thread smoke run with private machines (not deciding). Static audit of iteration/static/clock sites listed under unowned_nondeterminism_candidates (a note, not a verdict)", progs.len(), reruns.len(), maxlen, env.alpha.len(), if tier.thorough { ", call/ret, REP, xchg, label operand" } else { "" }, hl);
    cov.bounds = json!({"order_programs": progs.len(), "order_runs": orders_run.load(Ordering::Relaxed), "distinct_first_lines_in_order_runs": distinct_msgs.lock().unwrap().len(), "rerun_programs": reruns.len(), "fresh_machine_checks": fresh_checks.load(Ordering::Relaxed), "streams": streams.len(), "stream_pairs": pairs_n.load(Ordering::Relaxed), "interleaved_runs": inter_n.load(Ordering::Relaxed), "whole_memory_audits": full_audits.load(Ordering::Relaxed), "parser_history_probes": hist_n.load(Ordering::Relaxed), "prompt_session_probes": prompt_hist.load(Ordering::Relaxed), "threads_joined": thread_runs, "program_sequences_on_one_thread": seq_programs, "tier": tier.name()});
    cov.extra.insert("unowned_nondeterminism_candidates".into(), json!(audit));
    cov.assumptions = common_assumptions();
    cov.assumptions.push("OS-thread schedules are not enumerable for code without synchronisation points: the library has no unsafe, statics or interior mutability (see the audit list), so &mut exclusivity makes schedules unobservable; the schedule quantifier is discharged by the exhaustive sequential interleavings".into());
    cov.assumptions.push("hash seeds are owned at the one iteration site that exists (undefined-label set, cargo feature verif_hooks); the plain reruns are repetition and are labelled so".into());
    cov.cli_runs = CLI_RUNS.load(Ordering::Relaxed);
    cov.distinct_nontrivial = pairs_n.load(Ordering::Relaxed);
    let cov = finish_cov(c, cov);
    rep.finish(cov)
}
