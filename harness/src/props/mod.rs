pub mod common;
pub mod c01;
pub mod c02;
pub mod c03;
pub mod replay;
