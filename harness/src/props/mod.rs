pub mod common;
pub mod c01;
pub mod replay;
