//! C03 — MUL/IMUL/DIV/IDIV, decimal adjusts, CBW/CWD; divide errors raise INT 0.

use super::common::*;
use crate::alu::*;
use crate::ast::*;
use crate::cli::*;
use crate::engine::*;
use crate::findings::*;
use crate::lattice::*;
use crate::mach::*;
use rayon::prelude::*;
use serde_json::json;
use std::sync::atomic::Ordering;

fn vars_md(pre: &RefM, x: u32, w: W) -> Vec<(&'static str, i64)> {
    vec![
        ("x", x as i64),
        ("al", (pre.r.ax & 0xFF) as i64),
        ("ah", (pre.r.ax >> 8) as i64),
        ("w", w.bits() as i64),
    ]
}

/// byte forms: AL x operand exhaustive x a set of AH values
fn sweep_byte(rep: &Reporter, c: &Counters, op: MulOp, ahs: &[u32]) {
    let i = Instr::MulDiv(op, Opnd::R8(3)); // bl
    let site = i.shape();
    let xs: Vec<u32> = (0..256).collect();
    xs.par_iter().for_each(|x| {
        with_worker(|wk| {
            let mut p = match prepare(&i) {
                Ok(p) => p,
                Err(e) => {
                    c.block(format!("{}: {:?}", site, e));
                    return;
                }
            };
            for ah in ahs.iter() {
                for al in 0..256u32 {
                    for f in [0xF000u16, 0x0FD5] {
                        let mut pre = make_state(&i, *x, 0, f, 0, &p.dc, 0);
                        pre.r.ax = ((*ah << 8) | al) as u16;
                        let ex = vars_md(&pre, *x, W::B);
                        wk.case(rep, c, &mut p, &pre, &site, &ex, ((*ah << 8) | al) as u64 + *x as u64, false);
                    }
                }
            }
            wk.audit(rep, &p, &site);
            wk.flush(c);
        })
    });
    c.shapes.fetch_add(1, Ordering::Relaxed);
    c.sample(json!({"instr": render_instr(&i), "al": 256, "operand": 256, "ah_values": ahs.len(), "prior_flag_words": 2}));
}

/// word forms: (DX, AX, operand) lattice cubed
fn sweep_word_lattice(rep: &Reporter, c: &Counters, op: MulOp, lat: &[u32]) {
    let i = Instr::MulDiv(op, Opnd::R16(R_BX));
    let site = i.shape();
    lat.par_iter().for_each(|x| {
        with_worker(|wk| {
            let mut p = match prepare(&i) {
                Ok(p) => p,
                Err(e) => {
                    c.block(format!("{}: {:?}", site, e));
                    return;
                }
            };
            let dxs: Vec<u32> = if matches!(op, MulOp::Mul | MulOp::Imul) { vec![0x1234] } else { lat.to_vec() };
            for dx in dxs.iter() {
                for ax in lat.iter() {
                    let mut pre = make_state(&i, *x, 0, 0xF000 | (*ax as u16 & 1), 0, &p.dc, 0);
                    pre.r.ax = *ax as u16;
                    pre.r.dx = *dx as u16;
                    let ex = vars_md(&pre, *x, W::W);
                    wk.case(rep, c, &mut p, &pre, &site, &ex, (*dx as u64) * 65536 + *ax as u64 + *x as u64, false);
                }
            }
            wk.audit(rep, &p, &site);
            wk.flush(c);
        })
    });
    c.shapes.fetch_add(1, Ordering::Relaxed);
    c.sample(json!({"instr": render_instr(&i), "lattice": lat.len(), "cube": !matches!(op, MulOp::Mul | MulOp::Imul)}));
}

/// word forms on an explicit list of (AX, operand) pairs; DX = 0x1234 for MUL/IMUL, 0 for DIV,
/// the sign extension of AX for IDIV
fn sweep_word_pairs(rep: &Reporter, c: &Counters, op: MulOp, pairs: &[(u32, u32)]) {
    let i = Instr::MulDiv(op, Opnd::R16(R_BX));
    let site = i.shape();
    pairs.par_chunks(8192).for_each(|chunk| {
        with_worker(|wk| {
            let mut p = match prepare(&i) {
                Ok(p) => p,
                Err(e) => {
                    c.block(format!("{}: {:?}", site, e));
                    return;
                }
            };
            for (ax, x) in chunk.iter() {
                let mut pre = make_state(&i, *x, 0, 0xF000 | (*ax as u16 & 1), 0, &p.dc, 0);
                pre.r.ax = *ax as u16;
                pre.r.dx = match op {
                    MulOp::Mul | MulOp::Imul => 0x1234,
                    MulOp::Div => 0,
                    MulOp::Idiv => {
                        if *ax & 0x8000 != 0 {
                            0xFFFF
                        } else {
                            0
                        }
                    }
                };
                let ex = vars_md(&pre, *x, W::W);
                wk.case(rep, c, &mut p, &pre, &site, &ex, *ax as u64 + *x as u64, false);
            }
            wk.audit(rep, &p, &site);
            wk.flush(c);
        })
    });
}

/// word DIV/IDIV: for every divisor the dividends around the overflow boundary
fn sweep_word_div_boundaries(rep: &Reporter, c: &Counters, op: MulOp, stride: u32) {
    let i = Instr::MulDiv(op, Opnd::R16(R_BX));
    let site = i.shape();
    let divisors: Vec<u32> = (0..65536u32).step_by(stride as usize).collect();
    let chunks: Vec<&[u32]> = divisors.chunks(256).collect();
    chunks.par_iter().for_each(|chunk| {
        with_worker(|wk| {
            let mut p = match prepare(&i) {
                Ok(p) => p,
                Err(e) => {
                    c.block(format!("{}: {:?}", site, e));
                    return;
                }
            };
            for d in chunk.iter() {
                let mut dividends: Vec<u32> = Vec::new();
                if op == MulOp::Div {
                    let dv = *d as u64;
                    for q in [0u64, 1, 0xFFFE, 0xFFFF, 0x10000] {
                        for r in [0u64, 1, dv.saturating_sub(1)] {
                            let n = dv * q + r.min(dv.saturating_sub(1));
                            if n <= 0xFFFF_FFFF {
                                dividends.push(n as u32);
                            }
                        }
                    }
                    dividends.push(0xFFFF_FFFF);
                } else {
                    let sd = *d as u16 as i16 as i64;
                    for q in [0i64, 1, -1, 0x7FFE, 0x7FFF, 0x8000, -0x7FFF, -0x8000, -0x8001] {
                        for r in [0i64, 1, sd.abs() - 1] {
                            for rs in [1i64, -1] {
                                let r = r.max(0).min((sd.abs() - 1).max(0)) * rs;
                                let n = sd * q + r;
                                if n >= -(1i64 << 31) && n < (1i64 << 31) {
                                    dividends.push(n as i32 as u32);
                                }
                            }
                        }
                    }
                    dividends.push(0x8000_0000);
                    dividends.push(0x7FFF_FFFF);
                }
                dividends.sort();
                dividends.dedup();
                for n in dividends.iter() {
                    let mut pre = make_state(&i, *d, 0, 0xF000, 0, &p.dc, 0);
                    pre.r.ax = *n as u16;
                    pre.r.dx = (*n >> 16) as u16;
                    let ex = vars_md(&pre, *d, W::W);
                    wk.case(rep, c, &mut p, &pre, &site, &ex, *n as u64 + *d as u64, false);
                }
            }
            wk.audit(rep, &p, &site);
            wk.flush(c);
        })
    });
    c.sample(json!({"instr": render_instr(&i), "divisors": divisors.len(), "dividends_per_divisor": "q in {0,1,qmax-1,qmax,qmax+1 (and negatives)} x r in {0,1,|d|-1}"}));
}

fn forms(thorough: bool) -> Vec<Instr> {
    let disps: Vec<i32> = if thorough { vec![2, -2, 0x7FFF, -0x8000] } else { vec![2] };
    let mems = mem_forms(&disps);
    let mut out = Vec::new();
    for op in MulOp::ALL {
        for r in 0..8 {
            out.push(Instr::MulDiv(op, Opnd::R8(r)));
            out.push(Instr::MulDiv(op, Opnd::R16(r)));
        }
        out.push(Instr::MulDiv(op, Opnd::Label(W::B, "bv".into())));
        out.push(Instr::MulDiv(op, Opnd::Label(W::W, "wv".into())));
        for m in mems.iter() {
            out.push(Instr::MulDiv(op, Opnd::Mem(W::B, *m)));
            out.push(Instr::MulDiv(op, Opnd::Mem(W::W, *m)));
        }
    }
    out
}

fn sweep_forms(rep: &Reporter, c: &Counters, fs: &[Instr]) {
    let xb: Vec<u32> = vec![0, 1, 2, 7, 0x10, 0x7F, 0x80, 0x81, 0xFE, 0xFF];
    let xw: Vec<u32> = vec![0, 1, 2, 0x10, 0xFF, 0x100, 0x7FFF, 0x8000, 0x8001, 0xFFFE, 0xFFFF];
    let axs: Vec<u32> = vec![0, 1, 0x00FF, 0x0100, 0x7FFF, 0x8000, 0x80FF, 0xFF80, 0xFFFF, 0x1234];
    let dxs: Vec<u32> = vec![0, 1, 0x7FFF, 0x8000, 0xFFFF];
    fs.par_iter().for_each(|i| {
        with_worker(|wk| {
            let w = i.operands()[0].width().unwrap();
            let site = i.shape();
            let mut p = match prepare(i) {
                Ok(p) => p,
                Err(e) => {
                    c.block(format!("{}: {:?}", site, e));
                    return;
                }
            };
            let xs = if w == W::B { &xb } else { &xw };
            for x in xs.iter() {
                for ax in axs.iter() {
                    for dx in dxs.iter() {
                        if w == W::B && *dx != 1 {
                            continue;
                        }
                        // accumulators first, then the operand (so an operand aliasing AX/DX keeps its value)
                        let mut pre = make_state(i, *x, 0, 0xF000, (*ax as u16).wrapping_mul(3), &p.dc, 0);
                        let keep = pre.clone();
                        pre.r.ax = *ax as u16;
                        pre.r.dx = *dx as u16;
                        // re-apply a register operand
                        match i.operands()[0] {
                            Opnd::R8(r) => pre.r.set8(*r, keep.r.get8(*r)),
                            Opnd::R16(r) => pre.r.set16(*r, keep.r.get16(*r)),
                            _ => {}
                        }
                        let ex = vars_md(&pre, *x, w);
                        wk.case(rep, c, &mut p, &pre, &site, &ex, (*ax + *x) as u64 + 1_000_000, true);
                    }
                }
            }
            c.shapes.fetch_add(1, Ordering::Relaxed);
            wk.flush(c);
            c.sample(json!({"source_line": render_instr(&p.instr), "emitted": p.line, "shape": site}));
        })
    });
}

fn sweep_adjust(rep: &Reporter, c: &Counters) {
    for op in AdjOp::ALL {
        let i = Instr::Adj(op);
        let site = i.shape();
        let his: Vec<u32> = (0..256).collect();
        his.par_iter().for_each(|ah| {
            with_worker(|wk| {
                let mut p = match prepare(&i) {
                    Ok(p) => p,
                    Err(e) => {
                        c.block(format!("{}: {:?}", site, e));
                        return;
                    }
                };
                for al in 0..256u32 {
                    for fl in 0..4u16 {
                        for base in [0xF000u16, 0x0FC4] {
                            let f = base | (fl & 1) | ((fl >> 1) << 4);
                            let mut pre = make_state(&i, 0, 0, f, 0, &p.dc, 0);
                            pre.r.ax = ((*ah << 8) | al) as u16;
                            wk.case(
                                rep,
                                c,
                                &mut p,
                                &pre,
                                &site,
                                &[("al", al as i64), ("ah", *ah as i64)],
                                ((*ah << 8) | al) as u64,
                                false,
                            );
                        }
                    }
                }
                wk.audit(rep, &p, &site);
                wk.flush(c);
            })
        });
        c.shapes.fetch_add(1, Ordering::Relaxed);
        c.sample(json!({"instr": op.name(), "ax_values": 65536, "af_cf": 4, "prior_flag_words": 2}));
    }
}

/// end-to-end: divide error through the real binary
fn cli_div_errors(rep: &Reporter, c: &Counters) {
    ensure_bin();
    let mut cases: Vec<(String, String, usize, u8)> = Vec::new(); // (name, source, line of the dividing instruction, mode)
    for (w, op, kind) in [
        ("b", "div", "zero"),
        ("b", "div", "ovf"),
        ("b", "idiv", "zero"),
        ("b", "idiv", "ovf"),
        ("w", "div", "zero"),
        ("w", "div", "ovf"),
        ("w", "idiv", "zero"),
        ("w", "idiv", "ovf"),
    ] {
        let setup = match (w, kind) {
            ("b", "zero") => "mov ax, 100\nmov bl, 0\n".to_string(),
            ("b", "ovf") => "mov ax, 0x4000\nmov bl, 2\n".to_string(),
            ("w", "zero") => "mov dx, 0\nmov ax, 100\nmov bx, 0\n".to_string(),
            _ => "mov dx, 0x4000\nmov ax, 0\nmov bx, 2\n".to_string(),
        };
        let operand = if w == "b" { "bl" } else { "bx" };
        let nsetup = setup.lines().count();
        let src = format!("start:\nprint flags\n{}{} {}\nprint reg\nprint reg\n", setup, op, operand);
        cases.push((format!("{} {} {}", op, w, kind), src.clone(), 2 + nsetup + 1, 0));
        // the same under single-stepping (every prompt answered with n): -i, and the trap flag set by the program
        cases.push((format!("{} {} {} under -i", op, w, kind), src, 2 + nsetup + 1, 1));
        let src_tf = format!("start:\nprint flags\nmov ax, 0x0100\npush ax\npopf\n{}{} {}\nprint reg\nprint reg\n", setup, op, operand);
        cases.push((format!("{} {} {} under the trap flag", op, w, kind), src_tf, 5 + nsetup + 1, 2));
    }
    cases.par_iter().for_each(|(name, src, line, mode)| {
        let mut opts = CliOpts::default();
        opts.interpreted = *mode == 1;
        let stdin = if *mode == 0 { String::new() } else { "n\n".repeat(40) };
        let o = run_cli(src, &stdin, &opts);
        c.add_exec(1);
        c.states.fetch_add(1, Ordering::Relaxed);
        let out = o.out();
        let site = format!("cli {}", name);
        let mut bad: Vec<(String, String, String)> = Vec::new();
        if let Some(a) = o.abnormal() {
            bad.push(("exit".into(), "exit status 0".into(), a));
        }
        let re = regex::Regex::new(r"(?i)divide|division").unwrap();
        if !re.is_match(&out) {
            bad.push(("message".into(), "a divide-error message".into(), o.summary()));
        } else {
            let re2 = regex::Regex::new(r"(?i)(?:divide|division)[^\n]*?(?:at|line)\s+(\d+)").unwrap();
            match re2.captures(&out) {
                Some(cap) => {
                    let n: usize = cap[1].parse().unwrap_or(0);
                    if n != *line {
                        bad.push(("line".into(), format!("line {}", line), format!("line {} in {:?}", n, out)));
                    }
                }
                None => bad.push(("line".into(), format!("line {}", line), out.clone())),
            }
        }
        // nothing happens after the report: no further prompt, no further output
        if let Some(m) = re.find(&out) {
            let rest = &out[m.end()..];
            if rest.contains("About to execute") || rest.contains("Output of line") {
                bad.push(("executed-after".into(), "nothing is executed or announced after the divide error".into(), format!("after the message: {:?}", rest)));
            }
        }
        let (_, secs) = sections(&out);
        if secs.len() != 1 {
            bad.push((
                "executed-after".into(),
                "exactly the first print (line 2) executes, nothing after the divide error".into(),
                format!("{} print sections: {:?}", secs.len(), out),
            ));
        }
        for (field, exp, got) in bad {
            rep.report(Viol {
                site: site.clone(),
                field,
                vars: vec![],
                got_val: None,
                expected: exp,
                got,
                case: json!({"src": src, "stdin": stdin, "interpreted": *mode == 1}),
                weight: 0,
            });
        }
        c.sample(json!({"cli_source": src, "stdout": out}));
    });
}

pub fn run(tier: &Tier) -> i32 {
    let rep = Reporter::new("C03", tier.name());
    let c = Counters::default();
    let ahs: Vec<u32> = if tier.thorough {
        (0..256).collect()
    } else {
        vec![0, 1, 2, 0x0F, 0x10, 0x3F, 0x40, 0x7F, 0x80, 0x81, 0xBF, 0xC0, 0xF0, 0xFE, 0xFF, 0x55]
    };
    for op in MulOp::ALL {
        sweep_byte(&rep, &c, op, &ahs);
    }
    let lat: Vec<u32> = if tier.thorough { w16_dense(200) } else { w16().into_iter().step_by(2).chain([0xFFFF, 0x8000, 0x7FFF, 1]).collect::<std::collections::BTreeSet<_>>().into_iter().collect() };
    for op in MulOp::ALL {
        sweep_word_lattice(&rep, &c, op, &lat);
    }
    // operands away from the boundaries and operands in a fixed relation, for every x
    {
        let wb = w16_bytes();
        let mut pairs: Vec<(u32, u32)> = Vec::new();
        for a in wb.iter() {
            for b in lat.iter() {
                pairs.push((*a, *b));
                pairs.push((*b, *a));
            }
        }
        pairs.extend(w16_relations());
        for op in MulOp::ALL {
            sweep_word_pairs(&rep, &c, op, &pairs);
        }
    }
    // word MUL/IMUL: denser square
    if tier.thorough {
        let dense = w16_dense(2048);
        for op in [MulOp::Mul, MulOp::Imul] {
            sweep_word_lattice(&rep, &c, op, &dense);
        }
    }
    let stride = if tier.thorough { 1 } else { 7 };
    sweep_word_div_boundaries(&rep, &c, MulOp::Div, stride);
    sweep_word_div_boundaries(&rep, &c, MulOp::Idiv, stride);
    let fs = forms(tier.thorough);
    sweep_forms(&rep, &c, &fs);
    sweep_adjust(&rep, &c);
    cli_div_errors(&rep, &c);

    // histories
    let seq_depth = if tier.thorough { 4 } else { 3 };
    let seq = {
        use crate::ast::b::*;
        let focus = vec![
            Instr::MulDiv(MulOp::Mul, r8("bl")),
            Instr::MulDiv(MulOp::Mul, r16("bx")),
            Instr::MulDiv(MulOp::Imul, r16("bx")),
            Instr::MulDiv(MulOp::Imul, direct(W::W, 0x0020)),
            Instr::MulDiv(MulOp::Div, r8("bl")),
            Instr::MulDiv(MulOp::Div, r16("cx")),
            Instr::MulDiv(MulOp::Idiv, r16("cx")),
            Instr::MulDiv(MulOp::Idiv, direct(W::B, 0x0021)),
            Instr::Adj(AdjOp::Aaa),
            Instr::Adj(AdjOp::Daa),
            Instr::Adj(AdjOp::Das),
            Instr::Adj(AdjOp::Aam),
            Instr::Adj(AdjOp::Aad),
            Instr::Adj(AdjOp::Cbw),
            Instr::Adj(AdjOp::Cwd),
        ];
        crate::seqx::explore_sequences(&rep, &c, &focus, &crate::seqx::context_alphabet(), seq_depth, &crate::seqx::default_inits())
    };
    // direct calls: word MUL/IMUL for every AX x every operand (quick: 2^26 pairs); word DIV/IDIV for every divisor x
    // every DX (quick: 1 024 per divisor) x 6 AX values that depend on the pair
    let direct_mul = crate::direct::run_group(&rep, &c, "mul", tier.name());
    let direct_div = crate::direct::run_group(&rep, &c, "div", tier.name());
    let mut cov = Coverage::default();
    cov.exhaustive = true;
    cov.rule = "every case = (source instruction, pre-state) executed through Preprocessor+Interpreter and compared with the reference MUL/DIV/BCD semantics (outcome NEXT vs INT 0, AX/DX, CF/OF, frame). Direct calls (separate binary vdirect, bounds.direct_mul / direct_div): word_mul/word_imul for every AX x every operand, word_div/word_idiv for every divisor x every DX x 6 AX values (quick: 1 024 second values per first value). Byte forms: all 256 AL x all 256 operands x a set of AH values (all 256 in thorough); word forms: (DX,AX,operand) boundary lattice cubed plus, for every divisor (every 7th in quick), the dividends at the quotient-overflow boundary; all 2^16 AX x AF x CF for the eight adjust instructions; every operand form incl. the implicit registers as explicit operand; 8 end-to-end divide-error programs through the CLI binary, each plain, single-stepped with -i and under a program-set trap flag (nothing may follow the report). Word operands also run through 512 values away from the boundaries (every low byte under a fixed high byte and the reverse) against the lattice, both ways round, and through 8 fixed RELATIONS between the two operands (equal, low byte complemented, complemented, successor, bytes swapped, negated, doubled, halved+0x4000) for every 16-bit x. Histories: every sequence of up to 3 (thorough 4) instructions over the property's instructions plus a 22-instruction context alphabet (register, memory, stack and flag traffic, data-label operands, DS/ES loaded by pop and by mov), with at least one of the property's instructions, as ONE program on ONE machine and ONE Interpreter object from 3 initial states, compared with the reference after every step (whole memory on every 16th run)".into();
    cov.bounds = json!({"direct_mul": direct_mul, "direct_div": direct_div, "ah_values": ahs.len(), "word_lattice": lat.len(), "divisor_stride": stride, "forms": fs.len(), "sequence_depth": seq_depth, "sequences": seq.sequences, "sequence_steps": seq.steps, "sequence_whole_memory_audits": seq.audits, "tier": tier.name()});
    cov.assumptions = common_assumptions();
    cov.assumptions.push("IDIV whose quotient is exactly -2^(w-1): divide error (8086) or result (later CPUs) both accepted".into());
    cov.assumptions.push("DAA/DAS/AAA/AAS on non-BCD inputs: either the 8086 manual's or the later SDM's pseudo code is accepted where they differ".into());
    cov.assumptions.push("after a divide error AX, DX and the six status flags are undefined and not compared".into());
    cov.cli_runs = CLI_RUNS.load(Ordering::Relaxed);
    let cov = finish_cov(&c, cov);
    rep.finish(cov)
}
