//! C20 — single-stepping and breakpoints are transparent and the prompt always terminates.
//!
//! Explicit exploration of prompt scripts on the real binary: for each program and stepping mode the
//! default script answers every read with `n`; every script with at most d deviations from it
//! (an alternative advancing answer, a non-advancing answer inserted before the `n`, a terminating
//! answer, or the end of input at that position) is run, and stdout is matched event by event against
//! the reference interpreter (one prompt per executed instruction, naming its line; prints answered
//! without advancing; quit / end of input terminate). A relational oracle compares the all-`n` run
//! with the plain run of the same program.

use super::common::*;
use crate::alu::*;
use crate::ast::b::*;
use crate::ast::*;
use crate::cli::*;
use crate::findings::*;
use crate::refprog as rp;
use rayon::prelude::*;
use serde_json::json;
use std::collections::HashMap;
use std::sync::atomic::{AtomicU64, Ordering};

#[derive(Clone)]
struct Prog {
    name: &'static str,
    prog: Program,
    mb: HashMap<String, Vec<Item>>,
    has_rep: bool,
}

fn finals(code: &mut Vec<Item>) {
    code.push(print(PrintKind::Reg));
    code.push(print(PrintKind::Flags));
    code.push(print(PrintKind::MemRange(0, 31)));
}

fn data() -> Vec<DataDef> {
    vec![DataDef::Str(Some("msg".into()), W::B, "stepping".into()), dw(Some("wv"), 0x1234), db(Some("bv"), 7)]
}

fn programs(thorough: bool) -> Vec<Prog> {
    let mut v = Vec::new();
    let mut add = |name: &'static str, code: Vec<Item>, mb: HashMap<String, Vec<Item>>, has_rep: bool| {
        v.push(Prog { name, prog: Program { data: data(), code }, mb, has_rep });
    };
    let none = || HashMap::new();
    // 1 straight line, short instructions at line ends
    {
        // the interrupt and direction flags are set first: a breakpoint (an INT like any other) must leave them alone
        let mut c = vec![label("start"), z(ZeroOp::Sti), z(ZeroOp::Std), mov(r16("ax"), imm(5)), z(ZeroOp::Stc), bin(BinOp::Adc, r16("ax"), imm(3)), z(ZeroOp::Cmc)];
        finals(&mut c);
        add("straight", c, none(), false);
    }
    // 2 loop
    {
        let mut c = vec![label("start"), mov(r16("cx"), imm(3)), label("again"), un(UnOp::Inc, r16("ax")), jmp("loop", "again")];
        finals(&mut c);
        add("loop", c, none(), false);
    }
    // 3 call / implied ret
    {
        let mut c = vec![proc("f", vec![un(UnOp::Inc, r16("bx"))]), label("start"), call("f"), call("f")];
        finals(&mut c);
        add("call", c, none(), false);
    }
    // 4 rep movs
    {
        // plain REP; REPE CMPS over equal elements and REPNE SCAS without a hit both end because the count runs out
        let mut c = vec![
            label("start"),
            mov(r16("si"), imm(0)),
            mov(r16("di"), imm(16)),
            mov(r16("cx"), imm(3)),
            strop(Some(Rep::Rep), StrOp::Movs, W::B),
            mov(r16("si"), imm(0)),
            mov(r16("di"), imm(16)),
            mov(r16("cx"), imm(3)),
            strop(Some(Rep::Repe), StrOp::Cmps, W::B),
            mov(r16("di"), imm(0)),
            mov(r16("cx"), imm(2)),
            mov(r8("al"), imm(0x7E)),
            strop(Some(Rep::Repne), StrOp::Scas, W::B),
            mov(r16("dx"), imm(9)),
        ];
        finals(&mut c);
        add("rep", c, none(), true);
    }
    // 5 prints only
    {
        let mut c = vec![label("start"), print(PrintKind::Flags), print(PrintKind::Reg), print(PrintKind::MemLen(0, 7)), print(PrintKind::MemDs(3))];
        finals(&mut c);
        add("prints", c, none(), false);
    }
    // 6 character output
    {
        let mut c = vec![label("start"), mov(r8("ah"), imm(2)), mov(r8("dl"), imm(65)), int(0x21), mov(r16("cx"), imm(3)), mov(r16("ax"), imm(0x0A2A)), int(0x10)];
        finals(&mut c);
        add("output", c, none(), false);
    }
    // 7 conditional jump forward
    {
        let mut c = vec![
            label("start"),
            bin(BinOp::Cmp, r16("ax"), imm(0)),
            jmp("je", "skip"),
            mov(r16("bx"), imm(0x0BAD)),
            label("skip"),
            mov(r16("dx"), imm(1)),
        ];
        finals(&mut c);
        add("jump", c, none(), false);
    }
    // 8 macro use (every emitted instruction is attributed to the use line)
    {
        let mut mb = HashMap::new();
        mb.insert("twice".to_string(), vec![un(UnOp::Inc, r16("ax")), un(UnOp::Inc, r16("ax"))]);
        let mut c = vec![Item::MacroDef("twice".into(), vec!["a".into()], "inc a inc a".into()), label("start"), Item::MacroUse("twice".into(), vec!["ax".into()]), mov(r16("bx"), r16("ax"))];
        finals(&mut c);
        add("macro", c, mb, false);
    }
    // 9 stack and flags without TF
    {
        let mut c = vec![label("start"), mov(r16("sp"), imm(0x0200)), z(ZeroOp::Stc), z(ZeroOp::Pushf), push(r16("sp")), pop(r16("bx")), z(ZeroOp::Clc), z(ZeroOp::Popf)];
        finals(&mut c);
        add("stack", c, none(), false);
    }
    // 10 explicit hlt in the middle: nothing after it is prompted or executed
    {
        let c = vec![label("start"), mov(r16("ax"), imm(1)), print(PrintKind::Reg), z(ZeroOp::Hlt), mov(r16("ax"), imm(2)), print(PrintKind::Reg)];
        add("hlt", c, none(), false);
    }
    // 10a the program's own hlt as its very last instruction: it is an executed instruction like any other (announced
    // and prompted while stepping)
    {
        let c = vec![label("start"), mov(r16("ax"), imm(1)), print(PrintKind::Reg), un(UnOp::Inc, r16("ax")), print(PrintKind::Flags), z(ZeroOp::Hlt)];
        add("hlt-last", c, none(), false);
    }
    // 10b a divide error / an unsupported service in the middle: in every stepping mode the report ends the run,
    // nothing after it is prompted, announced or executed (as in a plain run)
    {
        let c = vec![label("start"), mov(r16("ax"), imm(1)), print(PrintKind::Reg), mov(r8("bl"), imm(0)), Item::Ins(Instr::MulDiv(MulOp::Div, r8("bl"))), mov(r16("ax"), imm(2)), print(PrintKind::Reg)];
        add("diverr", c, none(), false);
        let c = vec![label("start"), mov(r16("bx"), imm(1)), print(PrintKind::Reg), mov(r8("ah"), imm(0x55)), int(0x21), mov(r16("bx"), imm(2)), print(PrintKind::Reg)];
        add("unsupported21", c, none(), false);
        if thorough {
            let c = vec![label("start"), mov(r16("bx"), imm(1)), mov(r8("ah"), imm(0x77)), int(0x10), mov(r16("bx"), imm(2)), print(PrintKind::Reg)];
            add("unsupported10", c, none(), false);
        }
    }
    // 10c breakpoints inside the program itself: under -i and under the trap flag a breakpoint is single-stepped
    // over like any instruction (its own prompt and the step prompts each appear once, nothing is skipped or repeated)
    {
        let mut c = vec![label("start"), mov(r16("ax"), imm(1)), int(3), mov(r16("bx"), imm(2)), int(3), un(UnOp::Inc, r16("cx"))];
        finals(&mut c);
        add("breakpoints", c, none(), false);
    }
    // 11 input services sharing stdin with the prompt: the line after the prompt's answer belongs to the service
    {
        let mut c = vec![label("start"), mov(r8("ah"), imm(1)), int(0x21), mov(r8("dl"), r8("al")), mov(r8("ah"), imm(2)), int(0x21), mov(r16("dx"), imm(0x0040)), mov(direct(W::B, 0x0040), imm(4)), mov(r8("ah"), imm(0x0A)), int(0x21), print(PrintKind::MemRange(0x40, 0x47))];
        finals(&mut c);
        add("input", c, none(), false);
    }
    if thorough {
        // 12 nested calls with explicit ret, repe cmps
        {
            let mut c = vec![
                proc("inner", vec![un(UnOp::Inc, r16("dx")), z(ZeroOp::Ret), un(UnOp::Dec, r16("dx"))]),
                proc("outer", vec![call("inner"), call("inner")]),
                label("start"),
                call("outer"),
                mov(r16("cx"), imm(4)),
                mov(r16("si"), imm(0)),
                mov(r16("di"), imm(0)),
                strop(Some(Rep::Repe), StrOp::Cmps, W::B),
            ];
            finals(&mut c);
            add("nested", c, none(), true);
        }
    }
    v
}

#[derive(Clone, Copy, Debug, PartialEq, Eq)]
enum Mode {
    Interpreted,
    /// trap flag set by push/popf before the k-th instruction after `start`, cleared before the finals
    Trap(usize),
    /// trap flag set before the k-th instruction and never cleared: the run ends on the driver's own
    /// closing halt, which must not be prompted for
    TrapStay(usize),
    /// INT 3 inserted before the k-th item after `start`
    Int3(usize),
    /// INT 3 before every instruction
    Int3All,
}

/// index in `code` of the label start
fn start_pos(code: &[Item]) -> usize {
    code.iter().position(|i| matches!(i, Item::Label(l) if l == "start")).unwrap()
}

fn tf_set(word: u16) -> Vec<Item> {
    vec![mov(r16("ax"), imm(word as i32)), push(r16("ax")), z(ZeroOp::Popf)]
}

fn with_mode(p: &Prog, m: Mode) -> Option<Program> {
    let mut code = p.prog.code.clone();
    let s = start_pos(&code);
    // top-level instruction positions after start (labels stay where they are)
    let n_after = code.len() - s - 1;
    match m {
        Mode::Interpreted => {}
        Mode::Trap(k) => {
            if k >= n_after {
                return None;
            }
            // the program's own AX must not be disturbed: save/restore is itself part of the program,
            // so the plain twin (same program without TF) differs only in the flag word loaded
            let fin = code.len() - 3;
            let at = s + 1 + k;
            if at > fin {
                return None;
            }
            let mut c2: Vec<Item> = code[..at].to_vec();
            c2.push(push(r16("ax")));
            c2.extend(tf_set(0x0100));
            c2.push(pop(r16("ax")));
            c2.extend(code[at..fin].iter().cloned());
            c2.push(push(r16("ax")));
            c2.extend(tf_set(0x0000));
            c2.push(pop(r16("ax")));
            c2.extend(code[fin..].iter().cloned());
            code = c2;
        }
        Mode::TrapStay(k) => {
            if k >= n_after {
                return None;
            }
            let at = s + 1 + k;
            let mut c2: Vec<Item> = code[..at].to_vec();
            c2.push(push(r16("ax")));
            c2.extend(tf_set(0x0100));
            c2.push(pop(r16("ax")));
            c2.extend(code[at..].iter().cloned());
            code = c2;
        }
        Mode::Int3(k) => {
            if k > n_after {
                return None;
            }
            code.insert(s + 1 + k, int(3));
        }
        Mode::Int3All => {
            let mut c2: Vec<Item> = code[..=s].to_vec();
            for it in code[s + 1..].iter() {
                if matches!(it, Item::Ins(_) | Item::MacroUse(..)) {
                    c2.push(int(3));
                }
                c2.push(it.clone());
            }
            code = c2;
        }
    }
    Some(Program { data: p.prog.data.clone(), code })
}

/// the plain twin: the same text with stepping removed (INT 3 lines blanked so that line numbers
/// stay; TF word 0x0100 replaced by 0)
fn plain_twin_src(src: &str, m: Mode) -> String {
    match m {
        Mode::Interpreted => src.to_string(),
        Mode::Trap(_) | Mode::TrapStay(_) => src.replace("mov ax, 256\n", "mov ax, 0\n"),
        Mode::Int3(_) | Mode::Int3All => src.replace("int 3\n", "\n"),
    }
}

/// remove prompt artefacts from a stepped run's stdout (they may follow program output on the same line)
fn strip_artefacts(out: &str) -> String {
    let no_prompt = out.replace(">>> ", "");
    let re = regex::Regex::new(r"(About to execute line \d+ : [^\n]*\n|Trap flag is set\n|Int 3 at line \d+\n)").unwrap();
    re.replace_all(&no_prompt, "").to_string()
}

fn clip(s: &str, n: usize) -> String {
    if s.len() <= n {
        s.to_string()
    } else {
        let mut e = n;
        while !s.is_char_boundary(e) {
            e -= 1;
        }
        format!("{}… ({} bytes in all)", &s[..e], s.len())
    }
}

const ADVANCING: [&str; 3] = ["next", "NEXT", "  n  "];
const NONADV: [&str; 15] = ["print reg", "print flags", "print mem 0:3", "PRINT MEM 0 -> 0x1f", "", "foo", "nn", "print", "next please", "print mem 1048575 : 1", "print mem 0xFFFF0:16", "print mem 1048575 -> 1048575", "print mem 1048560 : 15", "print mem 99999999999999999999999999 -> 5", "print mem 0xFFFFFFFFFFFFFFFFFFFFF : 1"];
const TERMINATING: [&str; 4] = ["q", "quit", "QUIT", " q "];

#[derive(Clone, Debug)]
struct Script {
    lines: Vec<String>,
    deviations: usize,
    what: String,
}

/// all scripts with exactly one more deviation applied at or after position `from`
fn deviate(base: &Script, from: usize, reads: usize, reduced: bool) -> Vec<(Script, usize, bool)> {
    // returns (script, next position from which a further deviation may be applied, terminated)
    let mut out = Vec::new();
    let adv: &[&str] = if reduced { &ADVANCING[..1] } else { &ADVANCING };
    let non: &[&str] = if reduced { &NONADV[..1] } else { &NONADV };
    let non2: Vec<&str> = if reduced { vec![non[0], "", "foo"] } else { non.to_vec() };
    let term: &[&str] = if reduced { &TERMINATING[..1] } else { &TERMINATING };
    for p in from..base.lines.len().min(reads + base.deviations) {
        for a in adv {
            let mut l = base.lines.clone();
            l[p] = a.to_string();
            out.push((Script { lines: l, deviations: base.deviations + 1, what: format!("{}; read {} answered {:?}", base.what, p, a) }, p + 1, false));
        }
        for a in non2.iter() {
            let mut l = base.lines.clone();
            l.insert(p, a.to_string());
            // a further deviation may hit the same prompt again (position p+1 is the displaced `n`)
            out.push((Script { lines: l, deviations: base.deviations + 1, what: format!("{}; {:?} inserted before read {}", base.what, a, p) }, p + 1, false));
        }
        for a in term {
            let mut l = base.lines[..p].to_vec();
            l.push(a.to_string());
            // lines after a quit must never be read: keep some, they must have no effect
            l.push("print reg".into());
            out.push((Script { lines: l, deviations: base.deviations + 1, what: format!("{}; read {} answered {:?}", base.what, p, a) }, usize::MAX, true));
        }
        // end of input at this read
        let l = base.lines[..p].to_vec();
        out.push((Script { lines: l, deviations: base.deviations + 1, what: format!("{}; end of input at read {}", base.what, p) }, usize::MAX, true));
    }
    out
}

/// all scripts with at most `d` deviations; None if there are more than `budget`
fn scripts(reads: usize, d: usize, reduced_second: bool, budget: usize) -> Option<Vec<Script>> {
    let base = Script { lines: vec!["n".to_string(); reads], deviations: 0, what: "all n".into() };
    let mut all = vec![base.clone()];
    let mut frontier: Vec<(Script, usize, bool)> = vec![(base, 0, false)];
    for level in 0..d {
        let mut next = Vec::new();
        for (s, from, term) in frontier.iter() {
            if *term {
                continue;
            }
            let reduced = level >= 1 && reduced_second;
            for x in deviate(s, *from, reads, reduced) {
                next.push(x);
            }
            if all.len() + next.len() > budget {
                return None;
            }
        }
        for (s, _, _) in next.iter() {
            all.push(s.clone());
        }
        frontier = next;
    }
    Some(all)
}

pub fn run(tier: &Tier) -> i32 {
    let rep_o = Reporter::new("C20", tier.name());
    let c_o = Counters::default();
    let rep = &rep_o;
    let c = &c_o;
    ensure_bin();
    let progs = programs(tier.thorough);
    // (program, mode) pairs
    let mut pm: Vec<(Prog, Mode, Program)> = Vec::new();
    for p in progs.iter() {
        let mut modes = vec![Mode::Interpreted, Mode::Int3All];
        let s = start_pos(&p.prog.code);
        let n_after = p.prog.code.len() - s - 1;
        for k in 0..=n_after {
            if tier.thorough || k % 2 == 0 {
                modes.push(Mode::Int3(k));
            }
        }
        for k in 0..n_after {
            if tier.thorough || k < 2 {
                modes.push(Mode::Trap(k));
            }
            if (tier.thorough && k % 2 == 0) || k == 0 || k + 4 == n_after {
                modes.push(Mode::TrapStay(k));
            }
        }
        for m in modes {
            if let Some(q) = with_mode(p, m) {
                pm.push((p.clone(), m, q));
            }
        }
    }
    // work list: (pm index, script)
    let d = if tier.thorough { 3 } else { 2 };
    let mut work: Vec<(usize, Script)> = Vec::new();
    let mut reads_of: Vec<usize> = Vec::new();
    let mut depth_hist = [0usize; 4];
    // which of the two admissible ways of single-stepping a REP-prefixed instruction does the binary use?
    // (decided once, on a generous all-n script; every later run must be consistent with it)
    let mut rep_iter = false;
    if let Some(p) = progs.iter().find(|p| p.has_rep) {
        let src = render(&p.prog);
        let lines = vec!["n".to_string(); 200];
        let raw = "n\n".repeat(200);
        let (_, _, a) = cli_conformance_raw(&src, &p.prog, &p.mb, &lines, &raw, true, 5000, false, false);
        let (_, _, b) = cli_conformance_raw(&src, &p.prog, &p.mb, &lines, &raw, true, 5000, false, true);
        rep_iter = a.is_some() && b.is_none();
    }
    for (k, (p, m, q)) in pm.iter().enumerate() {
        let flat = rp::flatten(q, &p.mb);
        let rr = rp::run(&flat, &rp::RunOpts { stdin: vec!["n".to_string(); 4000], interpreted: *m == Mode::Interpreted, horizon: 5000, dos_0a: false, rep_prompt_per_iteration: rep_iter });
        if rr.stop == rp::Stop::Horizon || rr.stop == rp::Stop::PromptEof {
            eprintln!("MACHINERY: C20 program {} does not terminate in the reference", p.name);
            return 2;
        }
        let reads = rr.stdin_used;
        reads_of.push(reads);
        // the deepest deviation bound whose complete script set fits the per-pair budget (never a sample:
        // a bound is either explored completely or not claimed)
        let budget = if tier.thorough { 12_000 } else if matches!(m, Mode::Interpreted | Mode::Int3All) { 1500 } else { 300 };
        // the programs that end in a report are about the ending, not about the scripts: a smaller budget in quick
        let budget = if !tier.thorough && matches!(p.name, "diverr" | "unsupported21" | "hlt-last") { budget / 5 } else { budget };
        let mut dd = d;
        let set = loop {
            match scripts(reads, dd, true, budget) {
                Some(v) => break v,
                None => dd -= 1,
            }
        };
        depth_hist[dd.min(3)] += 1;
        for s in set {
            work.push((k, s));
        }
        // one more deviation of the environment: the input ends right after the last answer, which has no line
        // terminator (it is still an answer)
        if reads >= 1 {
            work.push((k, Script { lines: vec!["n".to_string(); reads], deviations: 1, what: "all n; the last one without line terminator".into() }));
        }
    }
    let prompts_checked = AtomicU64::new(0);
    let eof_runs = AtomicU64::new(0);
    let quit_runs = AtomicU64::new(0);
    let rep_iter_mode = AtomicU64::new(0);
    let relational = AtomicU64::new(0);
    work.par_iter().for_each(|(k, sc)| {
        let (p, m, q) = &pm[*k];
        let src = render(q);
        let interpreted = *m == Mode::Interpreted;
        let mut raw = String::new();
        for l in sc.lines.iter() {
            raw.push_str(l);
            raw.push('\n');
        }
        if sc.what.ends_with("without line terminator") {
            raw.pop();
        }
        let (rr, out, res) = cli_conformance_raw(&src, q, &p.mb, &sc.lines, &raw, interpreted, 5000, false, rep_iter);
        if rep_iter && p.has_rep {
            rep_iter_mode.fetch_add(1, Ordering::Relaxed);
        }
        c.add_exec(1);
        prompts_checked.fetch_add(rr.prompts as u64, Ordering::Relaxed);
        match rr.stop {
            rp::Stop::PromptEof => {
                eof_runs.fetch_add(1, Ordering::Relaxed);
            }
            rp::Stop::Quit => {
                quit_runs.fetch_add(1, Ordering::Relaxed);
            }
            _ => {}
        }
        c.outcome(&format!("{:?}/{}", rr.stop, if res.is_none() { "conforms" } else { "differs" }));
        let site = format!("{} / {}", p.name, match m { Mode::Interpreted => "-i", Mode::Trap(_) | Mode::TrapStay(_) => "trap flag", Mode::Int3(_) | Mode::Int3All => "int 3" });
        report_cli(rep, &site, res, &src, &sc.lines, interpreted, &out, json!({"script": sc.what, "mode": format!("{:?}", m)}));
        // relational oracle on the default script: stepped output minus artefacts == plain output
        // (a program that reads stdin itself sees different input in the two runs: only the event oracle applies)
        // (not for the programs whose plain run itself needs input: the input services, the program's own breakpoints)
        if sc.deviations == 0 && p.name != "input" && p.name != "breakpoints" {
            let twin = plain_twin_src(&src, *m);
            let plain = run_cli(&twin, "", &CliOpts::default());
            relational.fetch_add(1, Ordering::Relaxed);
            let a = strip_artefacts(&out.out());
            // header lines of the twin cite the same line numbers; texts of blanked/changed lines are not printed
            let b = plain.out();
            // a program that prints the flags while the trap flag is set shows TF itself: not compared
            let norm = |s: &str| s.replace("TF : 1", "TF : 0").split_whitespace().collect::<Vec<_>>().join(" ");
            if norm(&a) != norm(&b) || plain.abnormal().is_some() {
                rep.report(Viol {
                    site: site.clone(),
                    field: "transparency".into(),
                    vars: vec![],
                    got_val: None,
                    expected: format!("same program output and final dump as the plain run: {}", clip(&norm(&b), 1500)),
                    got: clip(&norm(&a), 1500),
                    case: json!({"src": src, "stdin": raw, "interpreted": interpreted, "plain_twin_src": twin, "stepped_stdout": clip(&out.out(), 6000), "plain_stdout": clip(&b, 6000)}),
                    weight: src.len() as u64,
                });
            }
        }
    });
    // every (program, mode) once more with a standard input that cannot be read at all (a directory: every read
    // fails): the prompt must still let the run end, without abort, within the watchdog and below the output cap
    let unreadable = AtomicU64::new(0);
    pm.par_iter().for_each(|(p, m, q)| {
        let src = render(q);
        let interpreted = *m == Mode::Interpreted;
        let mut o = CliOpts::default();
        o.interpreted = interpreted;
        o.stdin_unreadable = true;
        let out = run_cli(&src, "", &o);
        unreadable.fetch_add(1, Ordering::Relaxed);
        c.add_exec(1);
        if let Some(a) = out.abnormal() {
            rep.report(Viol {
                site: format!("{} / unreadable stdin", p.name),
                field: "exit".into(),
                vars: vec![],
                got_val: None,
                expected: "the run ends (exit status 0 or 1) although every read of the standard input fails".into(),
                got: format!("{}: {}", a, clip(&out.summary(), 1500)),
                case: json!({"src": src, "stdin": "<a directory>", "interpreted": interpreted, "mode": format!("{:?}", m)}),
                weight: src.len() as u64,
            });
        }
    });
    for (k, sc) in work.iter().step_by(work.len() / 10 + 1) {
        let (p, m, q) = &pm[*k];
        c.sample(json!({"program": p.name, "mode": format!("{:?}", m), "script": sc.what, "stdin_lines": sc.lines, "source": render(q)}));
    }
    c.states.fetch_add(work.len() as u64, Ordering::Relaxed);
    if (eof_runs.load(Ordering::Relaxed) < 100 || quit_runs.load(Ordering::Relaxed) < 100 || prompts_checked.load(Ordering::Relaxed) < 5000) && rep.unknown_count() == 0 {
        eprintln!("MACHINERY: C20 explored too little");
        return 2;
    }
    let mut cov = Coverage::default();
    cov.exhaustive = true;
    cov.rule = format!("{} terminating programs (straight line with short instructions at line ends, loop, call with implied ret, REP, prints, character output, conditional jump, macro use, stack/flags, hlt / divide error / unsupported service in the middle, hlt as the last instruction, breakpoints of its own, input services sharing stdin with the prompt{}) x stepping modes (-i; trap flag set by POPF before the k-th instruction and cleared before the final dump, or never cleared so that the run ends on the driver's own closing halt; INT 3 before the k-th item; INT 3 before every instruction). For each (program, mode) the default script answers every read with 'n'; ALL scripts with at most {} deviations are run (alphabet: 3 alternative advancing answers, 15 non-advancing answers incl. print commands (also with ranges ending exactly at and one past the end of memory), empty line and garbage inserted before the 'n' (possibly repeatedly at the same prompt), 4 terminating answers followed by further lines that must not be read, the end of input at that read, and - once per pair - the last answer without its line terminator; the second and later deviations use a reduced alphabet; for each (program, mode) the deviation bound is the largest one whose complete script set fits the per-pair budget, see bounds). Each run's stdout is matched event by event against the reference: one prompt per executed instruction naming its line, print commands answered from the reference state without advancing, quit / end of input terminate with exit status 0 within the watchdog and below the output cap. Relational oracle on every default script: output minus prompt artefacts equals the plain run of the same program (INT 3 lines blanked / TF word replaced by 0). Every (program, mode) pair also runs once with a standard input on which every read fails (a directory) and must end without abort inside the watchdog", progs.len(), if tier.thorough { ", nested calls with REPE CMPS" } else { "" }, d);
    cov.bounds = json!({"programs": progs.len(), "program_mode_pairs": pm.len(), "scripts": work.len(), "max_deviations": d, "program_mode_pairs_explored_completely_to_0_1_2_3_deviations": depth_hist, "prompts_checked": prompts_checked.load(Ordering::Relaxed), "runs_ending_in_end_of_input": eof_runs.load(Ordering::Relaxed), "runs_ending_in_quit": quit_runs.load(Ordering::Relaxed), "relational_pairs": relational.load(Ordering::Relaxed), "runs_with_unreadable_stdin": unreadable.load(Ordering::Relaxed), "binary_prompts_before_every_rep_iteration": rep_iter, "runs_of_programs_with_rep": rep_iter_mode.load(Ordering::Relaxed), "reads_per_pair_min_max": [reads_of.iter().min(), reads_of.iter().max()], "tier": tier.name()});
    cov.assumptions = common_assumptions();
    cov.assumptions.push("single-stepping a REP-prefixed instruction may show one prompt for the instruction or one prompt before every iteration (the 8086 trap flag traps after every iteration); both are accepted".into());
    cov.assumptions.push("watchdog 4 s per run (a run takes about 15 ms), output cap 1 MB; a timeout or capped output is the 'spins' verdict".into());
    cov.cli_runs = CLI_RUNS.load(Ordering::Relaxed);
    cov.distinct_nontrivial = work.len() as u64;
    let cov = finish_cov(c, cov);
    rep.finish(cov)
}
