//! C16 — placeholder until the check is written
use super::common::*;
pub fn run(_tier: &Tier) -> i32 {
    eprintln!("C16: not built yet");
    2
}
