//! C16 — diagnostics and run-time messages cite the source line that caused them.
//!
//! Generated programs with generator-known token positions, in several layouts (blank / comment
//! lines in between, trailing comments, with and without a final newline).
//!  (a) library level: every emitted instruction's source-map entry lies inside the line that
//!      produced it (outermost macro use line; closing brace for the implied ret);
//!  (b) real binary: 'Output of line', 'Int 3 at line', divide-error, unsupported-interrupt and
//!      single-step messages cite the line number and text of that line;
//!  (c) diagnostics: every token position of every template is corrupted in two ways and the file is
//!      truncated after it; semantic errors at first / middle / last line: the reported line number,
//!      column and line text are those of the offending token.

use super::common::*;
use crate::alu::*;
use crate::ast::b::*;
use crate::ast::*;
use crate::cli::*;
use crate::findings::*;
use crate::pipe::*;
use crate::refprog as rp;
use rayon::prelude::*;
use serde_json::json;
use std::collections::HashMap;
use std::sync::atomic::{AtomicU64, Ordering};

#[derive(Clone, Copy, Debug, PartialEq, Eq)]
enum Kind {
    Print,
    Int3,
    DivErr,
    Unsupp,
}

#[derive(Clone, Copy, Debug, PartialEq, Eq)]
enum Place {
    First,
    Middle,
    Last,
    InProc,
    InProcAfterStart,
    InMacro,
    InNestedMacro,
    MacroInProc,
    /// the item comes after a use of a macro whose body is empty
    AfterEmptyMacro,
    /// the program single-steps two instructions under the trap flag, switches it off, then reaches the item
    AfterTrapToggle,
}

#[derive(Clone)]
struct Template {
    name: String,
    prog: Program,
    mb: HashMap<String, Vec<Item>>,
    /// true if the run consumes prompts
    kind: Kind,
}

fn item_of(k: Kind) -> Item {
    match k {
        Kind::Print => print(PrintKind::Reg),
        Kind::Int3 => int(3),
        Kind::DivErr => Item::Ins(Instr::MulDiv(MulOp::Div, r8("bl"))),
        Kind::Unsupp => int(0x21),
    }
}

fn item_text(k: Kind) -> &'static str {
    match k {
        Kind::Print => "print reg",
        Kind::Int3 => "int 3",
        Kind::DivErr => "div bl",
        Kind::Unsupp => "int 33",
    }
}

/// data in front of every template program: numbers, arrays and STRINGS (byte and word), two of them on lines of
/// their own - whatever the driver does to the text before assembling it (comment stripping, string handling)
/// must not move the lines that follow
fn rich_data() -> Vec<DataDef> {
    vec![
        db(Some("bv"), 0),
        DataDef::Str(Some("msg".into()), W::B, "two words, one comma".into()),
        dw(Some("wv"), 0x1234),
        DataDef::Str(None, W::W, "xy".into()),
        DataDef::Str(Some("e".into()), W::B, "".into()),
    ]
}

fn template(k: Kind, p: Place) -> Template {
    let it = || item_of(k);
    let mut mb: HashMap<String, Vec<Item>> = HashMap::new();
    let mut code: Vec<Item> = Vec::new();
    let filler1 = || un(UnOp::Inc, r16("cx"));
    let filler2 = || un(UnOp::Inc, r16("dx"));
    match p {
        Place::InMacro | Place::InNestedMacro | Place::MacroInProc => {
            code.push(Item::MacroDef("inner".into(), vec!["a".into()], format!("inc a {} dec a", item_text(k))));
            mb.insert("inner".into(), vec![un(UnOp::Inc, r16("si")), it(), un(UnOp::Dec, r16("si"))]);
            if p == Place::InNestedMacro {
                code.push(Item::MacroDef("outer".into(), vec!["a".into()], "stc inner(a) cmc".into()));
                mb.insert("outer".into(), vec![z(ZeroOp::Stc), Item::MacroUse("inner".into(), vec!["si".into()]), z(ZeroOp::Cmc)]);
            }
        }
        _ => {}
    }
    let procdef = |code: &mut Vec<Item>| match p {
        Place::InProc | Place::InProcAfterStart => code.push(proc("f", vec![filler1(), it(), filler2()])),
        Place::MacroInProc => code.push(proc("f", vec![filler1(), Item::MacroUse("inner".into(), vec!["si".into()]), filler2()])),
        _ => {}
    };
    if p != Place::InProcAfterStart {
        procdef(&mut code);
    }
    if p == Place::AfterEmptyMacro {
        code.push(Item::MacroDef("off".into(), vec!["a".into()], "".into()));
        mb.insert("off".into(), vec![]);
    }
    code.push(label("start"));
    // preconditions of the run-ending kinds
    match k {
        Kind::DivErr => code.push(mov(r8("bl"), imm(0))),
        Kind::Unsupp => code.push(mov(r8("ah"), imm(0x55))),
        _ => {}
    }
    if p == Place::First {
        code.push(it());
    }
    if p == Place::AfterTrapToggle {
        for w in [0x0100i32, 0x0000] {
            code.push(mov(r16("ax"), imm(w)));
            code.push(push(r16("ax")));
            code.push(z(ZeroOp::Popf));
            code.push(filler2());
        }
        code.push(it());
    }
    if p == Place::AfterEmptyMacro {
        code.push(Item::MacroUse("off".into(), vec!["si".into()]));
        code.push(filler2());
        code.push(Item::MacroUse("off".into(), vec!["di".into()]));
        code.push(it());
    }
    code.push(filler1());
    match p {
        Place::Middle => code.push(it()),
        Place::InProc | Place::MacroInProc => code.push(call("f")),
        Place::InProcAfterStart => {
            code.push(call("f"));
            code.push(jmp("jmp", "over"));
            procdef(&mut code);
            code.push(label("over"));
        }
        Place::InMacro => code.push(Item::MacroUse("inner".into(), vec!["si".into()])),
        Place::InNestedMacro => code.push(Item::MacroUse("outer".into(), vec!["si".into()])),
        _ => {}
    }
    code.push(filler2());
    if p == Place::Last {
        code.push(it());
    } else {
        code.push(z(ZeroOp::Stc));
    }
    Template { name: format!("{:?}/{:?}", k, p), prog: Program { data: rich_data(), code }, mb, kind: k }
}

/// several items in one program (only for the kinds that do not end the run)
fn multi(k: Kind) -> Template {
    let it = || item_of(k);
    let mut mb = HashMap::new();
    let mut code = Vec::new();
    code.push(Item::MacroDef("inner".into(), vec!["a".into()], format!("inc a {} dec a", item_text(k))));
    mb.insert("inner".into(), vec![un(UnOp::Inc, r16("si")), it(), un(UnOp::Dec, r16("si"))]);
    code.push(proc("f", vec![it(), Item::MacroUse("inner".into(), vec!["si".into()])]));
    code.push(label("start"));
    code.push(it());
    code.push(call("f"));
    code.push(mov(r16("cx"), imm(2)));
    code.push(label("again"));
    code.push(it());
    code.push(jmp("loop", "again"));
    code.push(Item::MacroUse("inner".into(), vec!["si".into()]));
    code.push(it());
    Template { name: format!("{:?}/multi", k), prog: Program { data: rich_data(), code }, mb, kind: k }
}

fn templates() -> Vec<Template> {
    let mut v = Vec::new();
    for k in [Kind::Print, Kind::Int3, Kind::DivErr, Kind::Unsupp] {
        for p in [Place::First, Place::Middle, Place::Last, Place::InProc, Place::InProcAfterStart, Place::InMacro, Place::InNestedMacro, Place::MacroInProc, Place::AfterEmptyMacro, Place::AfterTrapToggle] {
            v.push(template(k, p));
        }
    }
    v.push(multi(Kind::Print));
    v.push(multi(Kind::Int3));
    v
}

#[derive(Clone, Copy, Debug, PartialEq, Eq)]
enum Filler {
    None,
    Blank,
    Comment,
    Both,
}

#[derive(Clone, Copy, Debug)]
struct Layout {
    filler: Filler,
    trailing_comment: bool,
    final_newline: bool,
    leading: bool,
    /// lines end in CR LF
    crlf: bool,
    /// the whole program on ONE line (items separated by a blank), so every message cites line 1
    oneline: bool,
}

/// two more layouts, used for the messages and the library-level check: CR LF line ends, and the whole
/// program on one line without any newline
fn extra_layouts() -> Vec<Layout> {
    vec![
        Layout { filler: Filler::None, trailing_comment: false, final_newline: true, leading: false, crlf: true, oneline: false },
        Layout { filler: Filler::Blank, trailing_comment: false, final_newline: false, leading: true, crlf: true, oneline: false },
        Layout { filler: Filler::None, trailing_comment: false, final_newline: false, leading: false, crlf: false, oneline: true },
        Layout { filler: Filler::None, trailing_comment: false, final_newline: true, leading: false, crlf: false, oneline: true },
    ]
}

fn layouts(with_comments: bool) -> Vec<Layout> {
    let mut v = Vec::new();
    for final_newline in [true, false] {
        v.push(Layout { filler: Filler::None, trailing_comment: false, final_newline, leading: false, crlf: false, oneline: false });
        v.push(Layout { filler: Filler::Blank, trailing_comment: false, final_newline, leading: true, crlf: false, oneline: false });
        if with_comments {
            v.push(Layout { filler: Filler::Comment, trailing_comment: true, final_newline, leading: true, crlf: false, oneline: false });
            v.push(Layout { filler: Filler::Both, trailing_comment: false, final_newline, leading: false, crlf: false, oneline: false });
            v.push(Layout { filler: Filler::None, trailing_comment: true, final_newline, leading: false, crlf: false, oneline: false });
        }
    }
    v
}

/// lay out canonical lines; returns (text, actual line number of each canonical line (1-based index))
fn lay_out(lines: &[String], l: &Layout) -> (String, Vec<usize>) {
    let mut out: Vec<String> = Vec::new();
    let mut map = vec![0usize; lines.len() + 1];
    let fill = |out: &mut Vec<String>, k: usize| match l.filler {
        Filler::None => {}
        Filler::Blank => out.push(String::new()),
        Filler::Comment => out.push(format!("; note {} mov ax, 1", k)),
        Filler::Both => {
            out.push("   ".into());
            out.push(format!(";; {}", k));
            if k % 3 == 0 {
                out.push(String::new());
            }
        }
    };
    if l.leading {
        fill(&mut out, 0);
    }
    for (i, line) in lines.iter().enumerate() {
        if i > 0 {
            fill(&mut out, i);
        }
        let mut t = line.clone();
        if l.trailing_comment {
            t.push_str(if i % 2 == 0 { " ; trailing note" } else { ";x" });
        }
        out.push(t);
        map[i + 1] = out.len();
    }
    if l.oneline {
        // everything on line 1
        let mut text = lines.join(" ");
        if l.final_newline {
            text.push('\n');
        }
        return (text, vec![1; lines.len() + 1]);
    }
    let nl = if l.crlf { "\r\n" } else { "\n" };
    let mut text = out.join(nl);
    if l.final_newline {
        text.push_str(nl);
    }
    (text, map)
}

fn canon_lines(p: &Program) -> Vec<String> {
    program_lines(p).iter().map(|t| join_toks(t)).collect()
}

fn remap(events: &[rp::Ev], map: &[usize]) -> Vec<rp::Ev> {
    events
        .iter()
        .map(|e| match e {
            rp::Ev::Print { line, kind, regs, bytes } => rp::Ev::Print { line: map[*line], kind: kind.clone(), regs: *regs, bytes: bytes.clone() },
            rp::Ev::DivErr { line } => rp::Ev::DivErr { line: map[*line] },
            rp::Ev::Unsupported { line, int, ah } => rp::Ev::Unsupported { line: map[*line], int: *int, ah: *ah },
            rp::Ev::Int3 { line } => rp::Ev::Int3 { line: map[*line] },
            rp::Ev::StepPrompt { line, tf } => rp::Ev::StepPrompt { line: map[*line], tf: *tf },
            other => other.clone(),
        })
        .collect()
}

/// 1-based line number and 0-based column of a byte offset
fn line_col(text: &str, pos: usize) -> (usize, usize, String) {
    let pos = pos.min(text.len());
    let before = &text[..pos];
    let line = before.matches('\n').count() + 1;
    let start = before.rfind('\n').map(|i| i + 1).unwrap_or(0);
    let end = text[start..].find('\n').map(|i| start + i).unwrap_or(text.len());
    (line, pos - start, text[start..end].to_string())
}

fn strip_comment(l: &str) -> String {
    match l.find(';') {
        Some(i) => l[..i].trim().to_string(),
        None => l.trim().to_string(),
    }
}

/// parse the first line of a diagnostic: (line, column, the rest of the header)
fn parse_diag(out: &str) -> Option<(usize, Option<usize>, String)> {
    let first = out.lines().find(|l| !l.trim().is_empty())?;
    let re = regex::Regex::new(r"(?i)\bat (?:line )?(\d+)\s*(?::\s*(\d+))?\s*:?(.*)$").unwrap();
    let c = re.captures(first)?;
    let line: usize = c[1].parse().ok()?;
    let col = c.get(2).and_then(|m| m.as_str().parse().ok());
    Some((line, col, c.get(3).map(|m| m.as_str().to_string()).unwrap_or_default()))
}

/// which column base the diagnostics use: bit 0 = a 0-based column was seen, bit 1 = a 1-based one; either
/// convention is admissible, but it must be the same everywhere
static COL_BASE: AtomicU64 = AtomicU64::new(0);
static COL_ONE_EXAMPLE: std::sync::Mutex<String> = std::sync::Mutex::new(String::new());

struct Stats {
    lib_entries: AtomicU64,
    cli_msgs: AtomicU64,
    diag_exact: AtomicU64,
    diag_later: AtomicU64,
    diag_total: AtomicU64,
    still_valid: AtomicU64,
}

/// (a) library level
fn check_source_map(rep: &Reporter, c: &Counters, st: &Stats, t: &Template, lay: &Layout) {
    let lines = canon_lines(&t.prog);
    let (text, map) = lay_out(&lines, lay);
    let flat = rp::flatten(&t.prog, &t.mb);
    c.add_exec(1);
    let asm = match assemble_fresh_cached(&text) {
        Ok(a) => a,
        Err(e) => {
            c.block(format!("{}: {:?}", t.name, e));
            return;
        }
    };
    let viol = |field: &str, expected: String, got: String| {
        rep.report(Viol { site: format!("source map / {}", t.name), field: field.into(), vars: vec![], got_val: None, expected, got, case: json!({"src": text, "layout": format!("{:?}", lay)}), weight: text.len() as u64 });
    };
    if asm.code.len() != flat.ins.len() {
        viol("count", format!("{} emitted instructions", flat.ins.len()), format!("{}: {:?}", asm.code.len(), asm.code));
        return;
    }
    for (i, fi) in flat.ins.iter().enumerate() {
        st.lib_entries.fetch_add(1, Ordering::Relaxed);
        let want = map[fi.line];
        match asm.source_map.get(&i) {
            None => viol("missing", format!("a source position for instruction {} ({})", i, asm.code[i]), "none".into()),
            Some(pos) => {
                let (l, _, txt) = line_col(&text, *pos);
                if l != want || *pos > text.len() {
                    viol(
                        if fi.implied { "implied-ret line" } else if fi.from_macro { "macro line" } else { "line" },
                        format!("instruction {} ({}) maps into line {} ({:?})", i, asm.code[i], want, text.lines().nth(want - 1).unwrap_or("")),
                        format!("offset {} = line {} ({:?})", pos, l, txt),
                    );
                }
            }
        }
    }
}

fn assemble_fresh_cached(text: &str) -> Result<Asm, AsmErr> {
    assemble(text)
}

/// (b) run-time messages through the binary
fn check_messages(rep: &Reporter, c: &Counters, st: &Stats, t: &Template, lay: &Layout, interpreted: bool) {
    let lines = canon_lines(&t.prog);
    let (text, map) = lay_out(&lines, lay);
    let flat = rp::flatten(&t.prog, &t.mb);
    let stdin_lines: Vec<String> = vec!["n".to_string(); 80];
    let rr = rp::run(&flat, &rp::RunOpts { stdin: stdin_lines.clone(), interpreted, horizon: 2000, dos_0a: false, rep_prompt_per_iteration: false });
    let events = remap(&rr.events, &map);
    let mut o = CliOpts::default();
    o.interpreted = interpreted;
    let stdin = "n\n".repeat(80);
    let out = run_cli(&text, &stdin, &o);
    c.add_exec(1);
    st.cli_msgs.fetch_add(events.iter().filter(|e| matches!(e, rp::Ev::Print { .. } | rp::Ev::DivErr { .. } | rp::Ev::Unsupported { .. } | rp::Ev::Int3 { .. } | rp::Ev::StepPrompt { .. })).count() as u64, Ordering::Relaxed);
    let res = if let Some(a) = out.abnormal() {
        Some(("exit".to_string(), "normal termination".to_string(), format!("{}: {}", a, out.summary())))
    } else {
        // the messages show the comment-stripped text of the line
        let mut m = crate::cliobs::Matcher::new(&out.stdout, &text);
        match m.match_all(&events) {
            Ok(()) => None,
            Err(e) => Some((e.field, e.expected, format!("event #{} of {}; {}", e.event_index, events.len(), e.got))),
        }
    };
    c.outcome(&format!("{:?}/{}", rr.stop, res.is_none()));
    let site = format!("{} / {}", if interpreted { "step message" } else { "run-time message" }, t.name);
    report_cli(rep, &site, res, &text, &stdin_lines, interpreted, &out, json!(format!("{:?}", lay)));
}

#[derive(Clone, Debug)]
struct DiagCase {
    site: String,
    text: String,
    /// generator-known offset of the corrupted token (None for semantic errors)
    tok_off: Option<usize>,
    /// admissible (line, text) pairs for semantic errors
    sem_lines: Vec<usize>,
    what: String,
    must_be_at_token: bool,
}

/// token-level corruptions of a laid-out program
fn corruptions(t: &Template, lay: &Layout, every: usize) -> Vec<DiagCase> {
    let toks = program_lines(&t.prog);
    // render each line with token offsets
    let mut lines: Vec<String> = Vec::new();
    let mut offs: Vec<Vec<(usize, usize)>> = Vec::new();
    for l in toks.iter() {
        let mut s = String::new();
        let mut o = Vec::new();
        for (i, tk) in l.iter().enumerate() {
            if i > 0 && tk.space_before {
                s.push(' ');
            }
            o.push((s.len(), tk.text.len()));
            s.push_str(&tk.text);
        }
        lines.push(s);
        offs.push(o);
    }
    let (text, map) = lay_out(&lines, lay);
    // start offset of each actual line
    let mut line_start = vec![0usize];
    for (i, ch) in text.bytes().enumerate() {
        if ch == b'\n' {
            line_start.push(i + 1);
        }
    }
    let mut out = Vec::new();
    let mut n = 0usize;
    for (li, l) in toks.iter().enumerate() {
        for (ti, tk) in l.iter().enumerate() {
            n += 1;
            if n % every != 0 {
                continue;
            }
            let (o, len) = offs[li][ti];
            let abs = line_start[map[li + 1] - 1] + o;
            let raw = tk.kind == TokKind::Raw;
            // 1. a character that is no token, put in front of the token
            {
                let mut s = text.clone();
                s.insert_str(abs, "@ ");
                out.push(DiagCase { site: format!("invalid character / {}", t.name), text: s, tok_off: Some(abs), sem_lines: vec![], what: format!("'@' inserted before token {:?} (line {}, column {})", tk.text, map[li + 1], o), must_be_at_token: true });
            }
            // 2. a valid token that cannot occur there, replacing the token
            if !raw {
                let mut s = text.clone();
                s.replace_range(abs..abs + len, ")");
                out.push(DiagCase { site: format!("unexpected token / {}", t.name), text: s, tok_off: Some(abs), sem_lines: vec![], what: format!("token {:?} replaced by ')' (line {}, column {})", tk.text, map[li + 1], o), must_be_at_token: false });
            }
            // 3. the file ends after the token (without and with a final newline)
            {
                let s = text[..abs + len].to_string();
                out.push(DiagCase { site: format!("truncated / {}", t.name), text: s.clone(), tok_off: Some(abs + len), sem_lines: vec![], what: format!("file ends after token {:?} (line {})", tk.text, map[li + 1]), must_be_at_token: false });
                out.push(DiagCase { site: format!("truncated / {}", t.name), text: format!("{}\n", s), tok_off: Some(abs + len), sem_lines: vec![], what: format!("file ends after token {:?} and a newline (line {})", tk.text, map[li + 1]), must_be_at_token: false });
            }
        }
    }
    out
}

/// semantic errors at first / middle / last line
fn semantic_cases(lay: &Layout, deep: bool) -> Vec<DiagCase> {
    let mut out = Vec::new();
    let base: Vec<&str> = vec!["bv: db 1", "wv: dw 2", "def f {", "inc bx", "}", "start:", "inc cx", "again:", "inc dx", "call f", "stc"];
    let bad: Vec<(&str, &str, Option<&str>)> = vec![
        ("constant out of range", "mov al, 256", None),
        ("constant out of range", "add word wv, 65536", None),
        ("constant out of range", "mov ax, word [bx, 70000]", None),
        ("undefined label", "jmp nowhere", None),
        ("undefined label", "loop nowhere", None),
        ("unknown procedure", "call nowhere", None),
        ("unknown data name", "mov al, byte nowhere", None),
        ("mixed sizes", "mov al, bx", None),
        ("code label as data", "mov ax, word start", None),
        ("duplicate label", "again:", Some("again:")),
        ("duplicate label", "start:", Some("start:")),
        ("unknown macro", "nomacro(ax)", None),
    ];
    // positions: first code line (after start:), middle, last
    for (class, line, dup_of) in bad.iter() {
        for pos in [6usize, 8, base.len()] {
            let mut lines: Vec<String> = base.iter().map(|s| s.to_string()).collect();
            lines.insert(pos, line.to_string());
            let (text, map) = lay_out(&lines, lay);
            let mut sem = vec![map[pos + 1]];
            if let Some(d) = dup_of {
                // the first definition is an admissible citation for a duplicate definition
                for (i, l) in lines.iter().enumerate() {
                    if l == d && i != pos {
                        sem.push(map[i + 1]);
                    }
                }
            }
            out.push(DiagCase { site: format!("semantic / {}", class), text, tok_off: None, sem_lines: sem, what: format!("{:?} inserted as canonical line {}", line, pos + 1), must_be_at_token: false });
        }
    }
    // the offending statement comes out of a macro: the use line is the one to cite
    {
        let mbase: Vec<&str> = vec!["bv: db 1", "macro goto(l) -> jmp l <-", "macro outer(l) -> inc ax goto(l) <-", "macro setb(v) -> mov al, v <-", "start:", "inc cx", "again:", "inc dx", "stc"];
        let mbase: Vec<&str> = {
            let mut m = mbase.clone();
            m.insert(4, "macro outer2(v) -> inc ax setb(v) dec ax <-");
            m.insert(5, "macro outer3(v) -> outer2(v) <-");
            m.insert(6, "macro off(a) -> <-");
            // the undefined name stands in the BODY, not in an argument: the use line does not contain it
            m.insert(7, "macro lost(r) -> inc r jmp nowhere <-");
            m.insert(8, "macro lost2(r) -> lost(r) loop nowhere <-");
            m
        };
        for (class, line) in [
            ("undefined label", "goto(nowhere)"),
            ("undefined label", "outer(nowhere)"),
            ("constant out of range", "setb(300)"),
            ("undefined label", "goto(again) goto(nowhere)"),
            ("constant out of range", "outer2(300)"),
            ("constant out of range", "outer3(300)"),
            ("undefined label", "off(ax) goto(nowhere)"),
            ("undefined label", "lost(ax)"),
            ("undefined label", "lost2(bx)"),
        ] {
            for pos in [10usize, 12, mbase.len()] {
                let mut lines: Vec<String> = mbase.iter().map(|s| s.to_string()).collect();
                lines.insert(pos, line.to_string());
                let (text, map) = lay_out(&lines, lay);
                out.push(DiagCase { site: format!("semantic in macro / {}", class), text, tok_off: None, sem_lines: vec![map[pos + 1]], what: format!("{:?} inserted as canonical line {}", line, pos + 1), must_be_at_token: false });
            }
        }
    }
    // errors of the expansion machinery itself: the nesting limit (a chain of 135 macros, so that the error is
    // raised deep inside and handed up through more than 128 uses), direct and mutual recursion, recursion
    // closed below a few proper levels, an unknown macro used three levels down (each run takes about a second:
    // in the layouts the caller selects)
    if deep {
        let mut defs: Vec<String> = vec!["macro c0(a) -> inc a <-".to_string()];
        for k in 1..135 {
            defs.push(format!("macro c{}(a) -> c{}(a) <-", k, k - 1));
        }
        defs.push("macro r(a) -> inc a r(a) <-".to_string());
        defs.push("macro p(a) -> q(a) <-".to_string());
        defs.push("macro q(a) -> inc a p(a) <-".to_string());
        defs.push("macro d3(a) -> inc a q(a) <-".to_string());
        defs.push("macro d2(a) -> d3(a) <-".to_string());
        defs.push("macro d1(a) -> dec a d2(a) <-".to_string());
        defs.push("macro u3(a) -> nomacro(a) <-".to_string());
        defs.push("macro u2(a) -> u3(a) <-".to_string());
        defs.push("macro u1(a) -> u2(a) <-".to_string());
        for (class, line) in [("macro nesting limit", "c134(ax)"), ("macro nesting limit", "c129(ax)"), ("recursive macro", "r(ax)"), ("recursive macro", "p(ax)"), ("recursive macro", "d1(ax)"), ("unknown macro", "u1(ax)"), ("macro nesting limit", "c5(bx) c134(ax)")] {
            for tail in [0usize, 2] {
                let mut lines: Vec<String> = defs.clone();
                lines.push("start:".to_string());
                lines.push("inc cx".to_string());
                let pos = lines.len();
                lines.push(line.to_string());
                for _ in 0..tail {
                    lines.push("stc".to_string());
                }
                let (text, map) = lay_out(&lines, lay);
                out.push(DiagCase { site: format!("semantic in macro / {}", class), text, tok_off: None, sem_lines: vec![map[pos + 1]], what: format!("{:?} as canonical line {}", line, pos + 1), must_be_at_token: false });
            }
        }
    }
    // data-side errors at first / last data line
    for (class, line) in [("constant out of range", "db 256"), ("constant out of range", "dw [70000]"), ("duplicate label", "bv: db 9")] {
        for pos in [0usize, 2] {
            let mut lines: Vec<String> = base.iter().map(|s| s.to_string()).collect();
            lines.insert(pos, line.to_string());
            let (text, map) = lay_out(&lines, lay);
            let mut sem = vec![map[pos + 1]];
            if class == "duplicate label" {
                for (i, l) in lines.iter().enumerate() {
                    if l.starts_with("bv:") && i != pos {
                        sem.push(map[i + 1]);
                    }
                }
            }
            out.push(DiagCase { site: format!("semantic / {}", class), text, tok_off: None, sem_lines: sem, what: format!("{:?} inserted as canonical line {}", line, pos + 1), must_be_at_token: false });
        }
    }
    out
}

fn check_diag(rep: &Reporter, c: &Counters, st: &Stats, d: &DiagCase) {
    c.add_exec(1);
    // the driver strips comments first; positions refer to the stripped text, which keeps all line
    // numbers and all columns left of a comment
    let re = regex::Regex::new(r";.*\n?").unwrap();
    let stripped = re.replace_all(&d.text, "\n").to_string();
    let lib = assemble(&stripped);
    // (a chain of 135 macros takes about a second on an idle machine: a generous watchdog for every diagnostic run)
    let out = run_cli(&d.text, "", &CliOpts { timeout_ms: 30_000, ..Default::default() });
    let viol = |field: &str, expected: String, got: String| {
        let got = format!("{} | {}", d.what, got);
        if rep.absorbed_by(&d.site, field, &[], None, &got) {
            return;
        }
        rep.report(Viol { site: d.site.clone(), field: field.into(), vars: vec![], got_val: None, expected, got, case: json!({"src": d.text, "stdin": "", "what": d.what}), weight: d.text.len() as u64 });
    };
    if let Some(a) = out.abnormal() {
        viol("abort", "a diagnostic".into(), format!("{}: {}", a, out.summary()));
        return;
    }
    let stdout = out.out();
    // where is the error, according to the real Preprocessor?
    let (want_line, want_col, want_text): (Vec<usize>, Option<usize>, Option<String>) = match (&lib, d.tok_off) {
        (Err(AsmErr::Panic(p)), _) => {
            viol("abort", "a diagnostic".into(), format!("library panic {}", p));
            return;
        }
        (Ok(a), None) => {
            // driver-level semantic error (undefined label): still must be refused and cite the line
            if a.driver_accepts().is_ok() {
                viol("not-refused", "refused".into(), format!("accepted; stdout {:?}", stdout));
                return;
            }
            (d.sem_lines.clone(), None, None)
        }
        (Ok(a), Some(_)) => {
            // the corruption left a valid program (e.g. ')' closing an argument list, truncation after a
            // complete statement): nothing to check unless the driver-level checks refuse it
            st.still_valid.fetch_add(1, Ordering::Relaxed);
            if a.driver_accepts().is_ok() {
                return;
            }
            // an undefined label / missing start caused by the corruption: the line cited must exist
            (vec![], None, None)
        }
        (Err(AsmErr::Diag { pos, .. }), Some(tok)) => {
            st.diag_total.fetch_add(1, Ordering::Relaxed);
            let p = match pos {
                Some(p) => *p,
                None => {
                    viol("position", "a diagnostic with a position".into(), "the Preprocessor's error carries no position".into());
                    return;
                }
            };
            // positions are compared as (line, column): stripping comments keeps those, not offsets
            let (tl, tc, _) = line_col(&d.text, tok);
            let (pl, pc, _) = line_col(&stripped, p);
            // everything before the corrupted token is a viable prefix of a valid program, so the
            // error cannot lie on an earlier line
            if pl < tl {
                viol("position", format!("an error at or after line {} column {}", tl, tc), format!("error position line {} column {}", pl, pc));
                return;
            }
            if (pl, pc) == (tl, tc) {
                st.diag_exact.fetch_add(1, Ordering::Relaxed);
            } else {
                if std::env::var("VERIF_DEBUG").is_ok() {
                    eprintln!("DEBUG later: {} | tok {}:{} pos {}:{} | {:?}", d.what, tl, tc, pl, pc, lib);
                }
                st.diag_later.fetch_add(1, Ordering::Relaxed);
                if d.must_be_at_token {
                    viol("position", format!("the error at line {} column {}", tl, tc), format!("error position line {} column {}", pl, pc));
                    return;
                }
            }
            // end of input: the last line that has a token is the offending line
            let mut p2 = p.min(stripped.len());
            if p2 >= stripped.trim_end().len() {
                p2 = stripped.trim_end().len().saturating_sub(1);
            }
            let (l, col, _) = line_col(&stripped, p2);
            let col = if p2 == p { Some(col) } else { None };
            (vec![l], col, None)
        }
        (Err(AsmErr::Diag { .. }), None) => (d.sem_lines.clone(), None, None),
    };
    let _ = want_text;
    if stdout.trim().is_empty() {
        viol("no-diagnostic", "a diagnostic".into(), "empty stdout".into());
        return;
    }
    if stdout.contains("Output of line") || stdout.contains(">>>") {
        viol("executed", "a diagnostic, nothing executed".into(), stdout.clone());
        return;
    }
    if want_line.is_empty() {
        return;
    }
    match parse_diag(&stdout) {
        None => viol("line", format!("a diagnostic citing line {:?}", want_line), format!("no line number in {:?}", stdout)),
        Some((line, col, rest)) => {
            c.outcome("diagnostic with line");
            if !want_line.contains(&line) {
                viol("line", format!("line {:?}", want_line), format!("line {}: {:?}", line, stdout));
                return;
            }
            let src_line = d.text.split('\n').nth(line - 1).unwrap_or("");
            let want_txt = strip_comment(src_line);
            let shown = rest.trim().trim_end_matches(':').trim();
            let shown_txt = strip_comment(shown);
            // the header ends with the text of the cited line
            if !(shown_txt == want_txt || (shown_txt.ends_with(&want_txt) && !want_txt.is_empty())) {
                viol("linetext", format!("the text of line {}: {:?}", line, want_txt), format!("{:?}", stdout));
                return;
            }
            if let Some(wc) = want_col {
                match col {
                    None => viol("column", format!("column {} (or {})", wc, wc + 1), format!("no column in {:?}", stdout)),
                    Some(cc) => {
                        if cc != wc && cc != wc + 1 {
                            viol("column", format!("column {} (0-based) or {} (1-based)", wc, wc + 1), format!("column {}: {:?}", cc, stdout));
                        } else if cc == wc {
                            COL_BASE.fetch_or(1, Ordering::Relaxed);
                        } else {
                            let first = COL_BASE.fetch_or(2, Ordering::Relaxed) & 2 == 0;
                            if first {
                                *COL_ONE_EXAMPLE.lock().unwrap() = format!("{} | {:?}", d.what, stdout);
                            }
                        }
                    }
                }
            } else if d.tok_off.is_some() {
                // unexpected end of input: any column of the last line that holds a token
                if let Some(cc) = col {
                    if cc > src_line.len() + 1 {
                        viol("column", format!("a column inside the line (length {})", src_line.len()), format!("column {}: {:?}", cc, stdout));
                    }
                }
            } else if let Some(cc) = col {
                // semantic errors: the column of one of the tokens of the cited statement (0- or 1-based)
                let mut starts: Vec<usize> = Vec::new();
                let b = src_line.as_bytes();
                for i in 0..b.len() {
                    let is_tok = !b[i].is_ascii_whitespace() && b[i] != b',';
                    let prev_sep = i == 0 || b[i - 1].is_ascii_whitespace() || b[i - 1] == b',' || b[i - 1] == b'[' || b[i - 1] == b'(';
                    if is_tok && prev_sep {
                        starts.push(i);
                    }
                }
                if !starts.iter().any(|s| cc == *s || cc == *s + 1) {
                    viol("column", format!("the column of a token of the statement: one of {:?} (0-based) in {:?}", starts, src_line), format!("column {}: {:?}", cc, stdout));
                }
            }
        }
    }
}

pub fn run(tier: &Tier) -> i32 {
    let rep_o = Reporter::new("C16", tier.name());
    let c_o = Counters::default();
    let rep = &rep_o;
    let c = &c_o;
    ensure_bin();
    let ts_all = templates();
    let st = Stats { lib_entries: AtomicU64::new(0), cli_msgs: AtomicU64::new(0), diag_exact: AtomicU64::new(0), diag_later: AtomicU64::new(0), diag_total: AtomicU64::new(0), still_valid: AtomicU64::new(0) };
    // templates the assembler does not accept (print statements are not allowed inside a procedure body)
    // cannot be explored; they are listed as blocked
    let mut ts: Vec<Template> = Vec::new();
    for t in ts_all.into_iter() {
        let src = render(&t.prog);
        match assemble(&src) {
            Ok(_) => ts.push(t),
            Err(e) => c.block(format!("template {}: {:?}", t.name, e)),
        }
    }
    if ts.len() < 28 {
        eprintln!("MACHINERY: C16: only {} templates are accepted by the assembler", ts.len());
        return 2;
    }
    // (a) library level: blank-line layouts (comment stripping is the driver's job)
    let lib_work: Vec<(usize, Layout)> = (0..ts.len()).flat_map(|i| layouts(false).into_iter().chain(extra_layouts()).map(move |l| (i, l))).collect();
    lib_work.par_iter().for_each(|(i, l)| check_source_map(rep, c, &st, &ts[*i], l));
    // (a') for EVERY instruction shape of the catalog: the source map stays in step with the emitted code
    // (one entry per emitted instruction, none left over), so the instruction after it maps to its own line
    let shapes_checked = AtomicU64::new(0);
    {
        let cat = crate::catalog::catalog(&crate::catalog::CatOpts { disps: vec![2], all_regs: true });
        cat.par_iter().for_each(|i| {
            let line = render_instr(i);
            let src = format!("db [3]\nbv: db 0\ndb [2]\nwv: dw 0\ndef fn1 {{\nstc\n}}\nstart:\ntgt:\n{}\ncmc\n", line);
            let asm = match assemble(&src) {
                Ok(a) => a,
                Err(_) => return,
            };
            shapes_checked.fetch_add(1, Ordering::Relaxed);
            c.add_exec(1);
            let last = asm.code.len() - 1;
            let cmc_line = src.matches('\n').count(); // the last line
            let bad = if asm.source_map.len() != asm.code.len() {
                Some(format!("{} source-map entries for {} emitted instructions {:?}", asm.source_map.len(), asm.code.len(), asm.code))
            } else {
                match asm.source_map.get(&last) {
                    Some(pos) if line_col(&src, *pos).0 == cmc_line => None,
                    other => Some(format!("the instruction after it ({:?}) maps to {:?} = line {:?}, not to line {}", asm.code[last], other, other.map(|p| line_col(&src, *p).0), cmc_line)),
                }
            };
            if let Some(b) = bad {
                rep.report(Viol { site: format!("source map / shape {}", i.shape()), field: "line".into(), vars: vec![], got_val: None, expected: "one source-map entry per emitted instruction, each inside the line of its instruction".into(), got: b, case: json!({"src": src}), weight: src.len() as u64 });
            }
        });
    }
    // (a'') a program of more than 65 536 instructions: the instructions beyond index 2^16 still have their
    // own source-map entries, and the messages about them cite their lines (library level and real binary)
    {
        let n = 65_600usize;
        let mut src = String::from("start:\n");
        for _ in 0..n {
            src.push_str("inc ax\n");
        }
        src.push_str("print reg\ninc bx\nint 3\nprint flags\n");
        c.add_exec(1);
        match assemble(&src) {
            Ok(asm) => {
                for (idx, line) in [(n, n + 2), (n + 1, n + 3), (n + 2, n + 4), (n + 3, n + 5), (n - 1, n + 1), (65_535, 65_537), (65_536, 65_538)] {
                    let ok = match asm.source_map.get(&idx) {
                        Some(pos) => line_col(&src, *pos).0 == line,
                        None => false,
                    };
                    if !ok {
                        rep.report(Viol { site: "source map / large program".into(), field: "line".into(), vars: vec![("idx".into(), idx as i64)], got_val: None, expected: format!("instruction {} maps into line {}", idx, line), got: format!("{:?}", asm.source_map.get(&idx).map(|p| line_col(&src, *p).0)), case: json!({"program": "start: + 65600 x inc ax + print reg, inc bx, int 3, print flags"}), weight: 0 });
                        break;
                    }
                }
            }
            Err(e) => rep.report(Viol { site: "source map / large program".into(), field: "line".into(), vars: vec![], got_val: None, expected: "a program of 65 600 instructions assembles".into(), got: format!("{:?}", e), case: json!({}), weight: 0 }),
        }
        let out = run_cli(&src, "n\nn\n", &CliOpts { timeout_ms: 30_000, ..Default::default() });
        let o = out.out();
        let want = [format!("Output of line {} : print reg", n + 2), format!("Int 3 at line {}", n + 4), format!("Output of line {} : print flags", n + 5)];
        if out.abnormal().is_some() || want.iter().any(|w| !o.contains(w.as_str())) {
            rep.report(Viol { site: "run-time message / large program".into(), field: "line".into(), vars: vec![], got_val: None, expected: format!("{:?}", want), got: clip_text(&out.summary(), 600), case: json!({"program": "start: + 65600 x inc ax + print reg, inc bx, int 3, print flags", "stdin": "n\nn\n"}), weight: 0 });
        }
    }
    // (b) messages through the binary, all layouts, plain and -i
    let cli_work: Vec<(usize, Layout, bool)> = (0..ts.len()).flat_map(|i| layouts(true).into_iter().chain(extra_layouts()).flat_map(move |l| [(i, l, false), (i, l, true)])).collect();
    cli_work.par_iter().for_each(|(i, l, interp)| check_messages(rep, c, &st, &ts[*i], l, *interp));
    // (c) diagnostics
    let mut diag: Vec<DiagCase> = Vec::new();
    let lays = layouts(true);
    let diag_lays: Vec<Layout> = if tier.thorough { lays.clone() } else { vec![lays[0], lays[2], lays[6], lays[8]] };
    for (ti, t) in ts.iter().enumerate() {
        // quick: every template, every third token, rotating; thorough: every token
        let every = 1;
        let _ = ti;
        for l in diag_lays.iter() {
            diag.extend(corruptions(t, l, every));
        }
    }
    for (li, l) in lays.iter().chain(extra_layouts().iter().filter(|l| l.crlf)).enumerate() {
        // the chain-of-135 cases: two layouts in quick (plain, and one with filler lines), every layout in thorough
        diag.extend(semantic_cases(l, tier.thorough || li == 0 || li == 3));
    }
    // token corruptions under CR LF line ends, for a third of the templates
    for t in ts.iter().step_by(3) {
        for l in extra_layouts().iter().filter(|l| l.crlf) {
            diag.extend(corruptions(t, l, 2));
        }
    }
    diag.par_iter().for_each(|d| check_diag(rep, c, &st, d));
    if COL_BASE.load(Ordering::Relaxed) == 3 {
        rep.report(Viol { site: "column base".into(), field: "column".into(), vars: vec![], got_val: None, expected: "columns counted from the same base in every diagnostic".into(), got: format!("most diagnostics count from 0, but: {}", COL_ONE_EXAMPLE.lock().unwrap()), case: json!({}), weight: 0 });
    }
    for d in diag.iter().step_by(diag.len() / 6 + 1) {
        c.sample(json!({"site": d.site, "what": d.what, "src": d.text}));
    }
    for t in ts.iter().step_by(7) {
        c.sample(json!({"template": t.name, "canonical_source": render(&t.prog)}));
    }
    c.states.fetch_add((lib_work.len() + cli_work.len() + diag.len()) as u64, Ordering::Relaxed);
    let exact = st.diag_exact.load(Ordering::Relaxed);
    let total = st.diag_total.load(Ordering::Relaxed);
    if st.lib_entries.load(Ordering::Relaxed) < 500 || st.cli_msgs.load(Ordering::Relaxed) < 2000 || total < 500 || (exact * 10 < total * 8 && std::env::var("VERIF_DEBUG").is_err() && rep.unknown_count() == 0) {
        eprintln!("MACHINERY: C16 explored too little (lib entries {}, messages {}, diagnostics {} of which {} exactly at the corrupted token)", st.lib_entries.load(Ordering::Relaxed), st.cli_msgs.load(Ordering::Relaxed), total, exact);
        return 2;
    }
    let mut cov = Coverage::default();
    cov.exhaustive = true;
    cov.rule = format!("{} templates = 4 item kinds (print, INT 3, divide error, unsupported AH) x 10 placements (after the trap flag was switched on and off again, after uses of a macro with an empty body, first / middle / last line, inside a procedure defined before or after start, inside a macro body, inside nested macros, macro used inside a procedure) plus two multi-item programs with loops; layouts = {{no filler, blank lines, comment-only lines, mixed}} x {{trailing comments or not}} x {{final newline or not}} (10 layouts), plus CR LF line ends and the whole program on ONE line without a newline. (a) library level: for every emitted instruction the source-map offset must lie in the line of the instruction (macro output: outermost use line; implied ret: closing brace). (a') for every instruction shape of the syntax.md catalog the source map has exactly one entry per emitted instruction and the instruction after it maps to its own line. (a'') one program of 65 600 instructions: entries and messages beyond index 2^16. (b) every template x every layout through the real binary, plain and with -i (every instruction is then preceded by a step message): line numbers and line texts of all messages are matched. (c) diagnostics: for {} token positions: '@' inserted before the token, the token replaced by ')', the file truncated after the token; plus 12 semantic errors at first / middle / last line and 3 data-side errors in all 10 layouts; the position the real Preprocessor reports is cross-checked against the generator-known token offset, and the binary's message must cite that line, column (0- or 1-based, but the same base everywhere) and line text", ts.len(), "all");
    cov.bounds = json!({"templates": ts.len(), "library_runs": lib_work.len(), "catalog_shapes_with_source_map_in_step": shapes_checked.load(Ordering::Relaxed), "source_map_entries_checked": st.lib_entries.load(Ordering::Relaxed), "message_runs": cli_work.len(), "messages_checked": st.cli_msgs.load(Ordering::Relaxed), "diagnostic_runs": diag.len(), "syntax_diagnostics": total, "reported_exactly_at_corrupted_token": exact, "reported_later_than_corrupted_token": st.diag_later.load(Ordering::Relaxed), "corruptions_leaving_a_valid_program": st.still_valid.load(Ordering::Relaxed), "tier": tier.name()});
    cov.assumptions = common_assumptions();
    cov.assumptions.push("line text in messages is compared modulo the ';' comment and surrounding white space; line numbers exactly; columns 0- or 1-based".into());
    cov.assumptions.push("a duplicate definition may be reported at the first or at the repeated definition".into());
    cov.assumptions.push("for an unexpected end of input the offending line is the last line that holds a token".into());
    cov.cli_runs = CLI_RUNS.load(Ordering::Relaxed);
    cov.distinct_nontrivial = (lib_work.len() + cli_work.len() + diag.len()) as u64;
    let cov = finish_cov(c, cov);
    rep.finish(cov)
}
