//! vdirect — exhaustive word-operand sweeps by DIRECT calls of the repository's instruction functions
//! (`emulator_8086_lib::instructions::{arithmetic, bit_manipulation}`), compared with the reference ALU.
//!
//! It is a separate binary on purpose: it is the only code of the harness that depends on the signatures
//! of those functions. If a change to the repository alters them, this binary alone fails to build
//! (build.sh tolerates that and records it), the deciding pipeline-level checks are unaffected, and the
//! evidence of C01/C02/C03 says "direct sweep unavailable".
//!
//! usage: vdirect <arith|logic|mul|div> <quick|thorough>      -> one JSON object on stdout
//!        vdirect one <function> <a> <b> <flags>               -> prints what the real function returns now
//!
//! The pipeline (Preprocessor + Interpreter) costs 1.5-4.5 us per executed line, a direct call 2-10 ns; only
//! this makes all 2^32 word operand pairs reachable. Binding to the pipeline: C01-C03 execute the same
//! instructions through the pipeline on lattices and compare them with the same reference, and this
//! binary records whether each swept function is still called from interpreter.lalrpop.

use emulator_8086_lib::instructions::arithmetic as ar;
use emulator_8086_lib::instructions::bit_manipulation as bm;
use emulator_8086_lib::VM;
use rayon::prelude::*;
use serde_json::{json, Value};
use std::collections::BTreeMap;
use std::sync::Mutex;
use vcore::alu::*;

#[derive(Clone)]
struct Ex {
    count: u64,
    a: u32,
    b: u32,
    hi: u32,
    flags: u16,
    expected: String,
    got: String,
    got_val: i64,
    weight: u64,
}

struct Acc {
    classes: BTreeMap<(String, String), Ex>,
    evals: u64,
    post_flags: Vec<u64>,
    panics: u64,
}
impl Default for Acc {
    fn default() -> Acc {
        Acc { classes: BTreeMap::new(), evals: 0, post_flags: vec![0; 1024], panics: 0 }
    }
}

impl Acc {
    fn mism(&mut self, site: &str, field: &str, a: u32, b: u32, hi: u32, flags: u16, expected: String, got: String, got_val: i64) {
        let w = a as u64 + b as u64 + hi as u64;
        let e = self.classes.entry((site.to_string(), field.to_string())).or_insert(Ex {
            count: 0,
            a,
            b,
            hi,
            flags,
            expected: expected.clone(),
            got: got.clone(),
            got_val,
            weight: u64::MAX,
        });
        e.count += 1;
        if w < e.weight {
            e.weight = w;
            e.a = a;
            e.b = b;
            e.hi = hi;
            e.flags = flags;
            e.expected = expected;
            e.got = got;
            e.got_val = got_val;
        }
    }
    fn merge(&mut self, o: Acc) {
        self.evals += o.evals;
        self.panics += o.panics;
        for i in 0..1024 {
            self.post_flags[i] |= o.post_flags[i];
        }
        for (k, v) in o.classes {
            match self.classes.get_mut(&k) {
                Some(e) => {
                    e.count += v.count;
                    if v.weight < e.weight {
                        let c = e.count;
                        *e = v;
                        e.count = c;
                    }
                }
                None => {
                    self.classes.insert(k, v);
                }
            }
        }
    }
    #[inline]
    fn flag(&mut self, f: u16) {
        self.post_flags[(f >> 6) as usize] |= 1 << (f & 63);
    }
}

const NAMES: [(&str, u16); 9] =
    [("CF", CF), ("PF", PF), ("AF", AF), ("ZF", ZF), ("SF", SF), ("OF", OF), ("TF", TF), ("IF", IF), ("DF", DF)];

fn flag_mism(acc: &mut Acc, site: &str, a: u32, b: u32, hi: u32, pre: u16, exp: u16, got: u16, undef: u16) {
    let d = (exp ^ got) & !undef;
    if d == 0 {
        return;
    }
    for (n, bit) in NAMES.iter() {
        if d & bit != 0 {
            acc.mism(site, n, a, b, hi, pre, format!("{}", (exp & bit != 0) as u8), format!("{}", (got & bit != 0) as u8), (got & bit != 0) as i64);
        }
    }
    if d & !ALL9 != 0 {
        acc.mism(site, "flagbits", a, b, hi, pre, format!("0x{:04X}", exp & !ALL9), format!("0x{:04X}", got & !ALL9), (got & !ALL9) as i64);
    }
}

/// prior flag word for a pair: all status bits set or all clear (so a flag that is not written shows for
/// about half of the pairs), reserved/control bits in two patterns, carry-in as requested
#[inline]
fn pre_flags(a: u32, b: u32, cin: u32) -> u16 {
    let h = (a.wrapping_mul(0x9E37).wrapping_add(b.wrapping_mul(0x7F4B))) >> 5;
    let base: u16 = match h & 3 {
        0 => 0x0000,
        1 => 0xFFFF,
        2 => 0xF000 | ZF | PF,
        _ => 0x0AD4 ^ (ZF | PF),
    };
    (base & !CF) | cin as u16
}

/// the second operands explored for a first operand `a`: thorough = all 65 536; quick = 1 024 of them, a
/// different residue class for every `a` (so that over all `a` every value of `b` is used 1 024 times)
#[inline]
fn b_values(a: u32, thorough: bool) -> (u32, u32, u32) {
    if thorough {
        (0, 1, 65536)
    } else {
        ((a.wrapping_mul(7)) & 63, 64, 1024)
    }
}

type Bin16 = fn(&mut VM, u16, u16) -> u16;

fn sweep_bin(name: &'static str, f: Bin16, op: BinOp, thorough: bool) -> Acc {
    let total = Mutex::new(Acc::default());
    (0u32..65536).into_par_iter().with_min_len(64).for_each_init(
        || VM::new(),
        |vm, a| {
            let mut acc = Acc::default();
            let (b0, step, n) = b_values(a, thorough);
            let r = std::panic::catch_unwind(std::panic::AssertUnwindSafe(|| {
                for k in 0..n {
                    let b = b0 + k * step;
                    for cin in 0..2u32 {
                        let pre = pre_flags(a, b, cin);
                        vm.arch.flag = pre;
                        let got = f(vm, a as u16, b as u16) as u32;
                        let gf = vm.arch.flag;
                        let (er, fr) = binop(op, W::W, pre, a, b);
                        // CMP / TEST return the untouched destination
                        let exp = er.unwrap_or(a);
                        if got != exp {
                            acc.mism(name, "result", a, b, 0, pre, format!("0x{:04X}", exp), format!("0x{:04X}", got), got as i64);
                        }
                        flag_mism(&mut acc, name, a, b, 0, pre, fr.flags, gf, fr.undef);
                        acc.flag(gf);
                        acc.evals += 1;
                    }
                }
            }));
            if r.is_err() {
                acc.panics += 1;
                acc.mism(name, "panic", a, 0, 0, 0, "returns".into(), "panicked (first operand recorded; second operand unknown)".into(), 0);
            }
            total.lock().unwrap().merge(acc);
        },
    );
    total.into_inner().unwrap()
}

type Un16 = fn(&mut VM, &mut u16) -> Result<(), emulator_8086_lib::util::interpreter_util::DivByZero>;

/// MUL / IMUL word: every AX x every operand (quick: 1 024 operands per AX)
fn sweep_mul(name: &'static str, f: Un16, op: MulOp, thorough: bool) -> Acc {
    let total = Mutex::new(Acc::default());
    (0u32..65536).into_par_iter().with_min_len(64).for_each_init(
        || VM::new(),
        |vm, a| {
            let mut acc = Acc::default();
            let (b0, step, n) = b_values(a, thorough);
            let r = std::panic::catch_unwind(std::panic::AssertUnwindSafe(|| {
                for k in 0..n {
                    let b = b0 + k * step;
                    let pre = pre_flags(a, b, (a ^ b) & 1);
                    let dx0 = (a.wrapping_mul(0x5bd1) ^ b) as u16;
                    vm.arch.flag = pre;
                    vm.arch.ax = a as u16;
                    vm.arch.dx = dx0;
                    let mut v = b as u16;
                    let res = f(vm, &mut v);
                    acc.evals += 1;
                    match muldiv(op, W::W, pre, a, dx0 as u32, b) {
                        MulDiv::Ok { lo, hi, fr } => {
                            if res.is_err() {
                                acc.mism(name, "state", a, b, dx0 as u32, pre, "Ok".into(), "divide error".into(), 0);
                                continue;
                            }
                            if vm.arch.ax as u32 != lo {
                                acc.mism(name, "ax", a, b, dx0 as u32, pre, format!("0x{:04X}", lo), format!("0x{:04X}", vm.arch.ax), vm.arch.ax as i64);
                            }
                            if vm.arch.dx as u32 != hi {
                                acc.mism(name, "dx", a, b, dx0 as u32, pre, format!("0x{:04X}", hi), format!("0x{:04X}", vm.arch.dx), vm.arch.dx as i64);
                            }
                            if v != b as u16 {
                                acc.mism(name, "operand", a, b, dx0 as u32, pre, format!("0x{:04X}", b), format!("0x{:04X}", v), v as i64);
                            }
                            flag_mism(&mut acc, name, a, b, dx0 as u32, pre, fr.flags, vm.arch.flag, fr.undef);
                            acc.flag(vm.arch.flag & !fr.undef);
                        }
                        _ => unreachable!(),
                    }
                }
            }));
            if r.is_err() {
                acc.panics += 1;
                acc.mism(name, "panic", a, 0, 0, 0, "returns".into(), "panicked (AX recorded; operand unknown)".into(), 0);
            }
            total.lock().unwrap().merge(acc);
        },
    );
    total.into_inner().unwrap()
}

/// DIV / IDIV word: every divisor x every DX x a set of AX values that depends on (divisor, DX) and contains
/// the overflow boundary of that pair. 2^48 triples are out of reach; this is exhaustive in two of the three
/// dimensions.
fn sweep_div(name: &'static str, f: Un16, op: MulOp, thorough: bool) -> Acc {
    let total = Mutex::new(Acc::default());
    (0u32..65536).into_par_iter().with_min_len(16).for_each_init(
        || VM::new(),
        |vm, d| {
            let mut acc = Acc::default();
            let (h0, hstep, hn) = b_values(d, thorough);
            let r = std::panic::catch_unwind(std::panic::AssertUnwindSafe(|| {
                for k in 0..hn {
                    let hi = h0 + k * hstep;
                    let axs: [u32; 6] = [0, 0xFFFF, d.wrapping_sub(1) & 0xFFFF, d, (hi ^ 0x5A5A) & 0xFFFF, (d.wrapping_mul(hi).wrapping_add(0x1235)) & 0xFFFF];
                    for lo in axs.iter().copied() {
                        let pre = pre_flags(d, hi ^ lo, lo & 1);
                        vm.arch.flag = pre;
                        vm.arch.ax = lo as u16;
                        vm.arch.dx = hi as u16;
                        let mut v = d as u16;
                        let res = f(vm, &mut v);
                        acc.evals += 1;
                        let m = muldiv(op, W::W, pre, lo, hi, d);
                        let (elo, ehi, may_err, must_err) = match m {
                            MulDiv::Ok { lo, hi, .. } => (lo, hi, false, false),
                            MulDiv::Either { lo, hi, .. } => (lo, hi, true, false),
                            MulDiv::DivErr => (0, 0, true, true),
                        };
                        match res {
                            Err(_) => {
                                if !may_err {
                                    acc.mism(name, "state", lo, d, hi, pre, "Ok".into(), "divide error".into(), 0);
                                } else if (vm.arch.flag ^ pre) & !STATUS6 != 0 {
                                    acc.mism(name, "flagbits", lo, d, hi, pre, "control flags unchanged by a divide error".into(), format!("0x{:04X}", vm.arch.flag), vm.arch.flag as i64);
                                }
                            }
                            Ok(()) => {
                                if must_err {
                                    acc.mism(name, "state", lo, d, hi, pre, "divide error".into(), format!("Ok ax=0x{:04X} dx=0x{:04X}", vm.arch.ax, vm.arch.dx), 0);
                                    continue;
                                }
                                if vm.arch.ax as u32 != elo {
                                    acc.mism(name, "ax", lo, d, hi, pre, format!("0x{:04X}", elo), format!("0x{:04X}", vm.arch.ax), vm.arch.ax as i64);
                                }
                                if vm.arch.dx as u32 != ehi {
                                    acc.mism(name, "dx", lo, d, hi, pre, format!("0x{:04X}", ehi), format!("0x{:04X}", vm.arch.dx), vm.arch.dx as i64);
                                }
                                if v != d as u16 {
                                    acc.mism(name, "operand", lo, d, hi, pre, format!("0x{:04X}", d), format!("0x{:04X}", v), v as i64);
                                }
                                if (vm.arch.flag ^ pre) & !STATUS6 != 0 {
                                    acc.mism(name, "flagbits", lo, d, hi, pre, format!("0x{:04X}", pre & !STATUS6), format!("0x{:04X}", vm.arch.flag & !STATUS6), vm.arch.flag as i64);
                                }
                                acc.flag(((vm.arch.ax ^ vm.arch.dx) & 0x3FF) as u16);
                            }
                        }
                    }
                }
            }));
            if r.is_err() {
                acc.panics += 1;
                acc.mism(name, "panic", 0, d, 0, 0, "returns".into(), "panicked (divisor recorded; DX:AX unknown)".into(), 0);
            }
            total.lock().unwrap().merge(acc);
        },
    );
    total.into_inner().unwrap()
}

/// is `func` named (as a whole word) in the interpreter's grammar, i.e. is it what the pipeline executes?
fn bound_in_grammar(func: &str) -> bool {
    let repo = std::env::var("VERIF_REPO").unwrap_or_else(|_| "/repo".into());
    match std::fs::read_to_string(format!("{}/src/lib/interpreter/interpreter.lalrpop", repo)) {
        Ok(t) => {
            let is_id = |c: char| c.is_ascii_alphanumeric() || c == '_';
            t.match_indices(func).any(|(i, _)| {
                let before = t[..i].chars().next_back().map(is_id).unwrap_or(false);
                let after = t[i + func.len()..].chars().next().map(is_id).unwrap_or(false);
                !before && !after
            })
        }
        Err(_) => false,
    }
}

fn main() {
    let args: Vec<String> = std::env::args().collect();
    std::panic::set_hook(Box::new(|_| {}));
    if args.len() >= 6 && args[1] == "one" {
        let p = |s: &str| -> u32 {
            if let Some(h) = s.strip_prefix("0x") {
                u32::from_str_radix(h, 16).unwrap()
            } else {
                s.parse().unwrap()
            }
        };
        let (a, b, fl) = (p(&args[3]), p(&args[4]), p(&args[5]) as u16);
        let hi = args.get(6).map(|s| p(s)).unwrap_or(0);
        let mut vm = VM::new();
        vm.arch.flag = fl;
        let bins: [(&str, Bin16); 9] = [
            ("word_add", ar::word_add),
            ("word_adc", ar::word_adc),
            ("word_sub", ar::word_sub),
            ("word_sbb", ar::word_sbb),
            ("word_cmp", ar::word_cmp),
            ("word_and", bm::word_and),
            ("word_or", bm::word_or),
            ("word_xor", bm::word_xor),
            ("word_test", bm::word_test),
        ];
        for (n, f) in bins.iter() {
            if *n == args[2] {
                let r = f(&mut vm, a as u16, b as u16);
                println!("{}(0x{:04X}, 0x{:04X}) with flags 0x{:04X} -> 0x{:04X}, flags 0x{:04X}", n, a, b, fl, r, vm.arch.flag);
                return;
            }
        }
        let uns: [(&str, Un16); 4] = [("word_mul", ar::word_mul), ("word_imul", ar::word_imul), ("word_div", ar::word_div), ("word_idiv", ar::word_idiv)];
        for (n, f) in uns.iter() {
            if *n == args[2] {
                // for mul: a = AX, b = operand; for div: a = AX, b = divisor, hi = DX
                vm.arch.ax = a as u16;
                vm.arch.dx = hi as u16;
                let mut v = b as u16;
                let r = f(&mut vm, &mut v);
                println!("{} AX=0x{:04X} DX=0x{:04X} operand=0x{:04X} flags 0x{:04X} -> {} AX=0x{:04X} DX=0x{:04X} flags 0x{:04X}", n, a, hi, b, fl, if r.is_ok() { "Ok" } else { "divide error" }, vm.arch.ax, vm.arch.dx, vm.arch.flag);
                return;
            }
        }
        eprintln!("unknown function {}", args[2]);
        std::process::exit(2);
    }
    if args.len() < 3 {
        eprintln!("usage: vdirect <arith|logic|mul|div> <quick|thorough>");
        std::process::exit(2);
    }
    let thorough = args[2] == "thorough";
    let t0 = std::time::Instant::now();
    let mut parts: Vec<(&'static str, Acc)> = Vec::new();
    match args[1].as_str() {
        "arith" => {
            parts.push(("word_add", sweep_bin("word_add", ar::word_add, BinOp::Add, thorough)));
            parts.push(("word_adc", sweep_bin("word_adc", ar::word_adc, BinOp::Adc, thorough)));
            parts.push(("word_sub", sweep_bin("word_sub", ar::word_sub, BinOp::Sub, thorough)));
            parts.push(("word_sbb", sweep_bin("word_sbb", ar::word_sbb, BinOp::Sbb, thorough)));
            parts.push(("word_cmp", sweep_bin("word_cmp", ar::word_cmp, BinOp::Cmp, thorough)));
        }
        "logic" => {
            parts.push(("word_and", sweep_bin("word_and", bm::word_and, BinOp::And, thorough)));
            parts.push(("word_or", sweep_bin("word_or", bm::word_or, BinOp::Or, thorough)));
            parts.push(("word_xor", sweep_bin("word_xor", bm::word_xor, BinOp::Xor, thorough)));
            parts.push(("word_test", sweep_bin("word_test", bm::word_test, BinOp::Test, thorough)));
        }
        "mul" => {
            parts.push(("word_mul", sweep_mul("word_mul", ar::word_mul, MulOp::Mul, thorough)));
            parts.push(("word_imul", sweep_mul("word_imul", ar::word_imul, MulOp::Imul, thorough)));
        }
        "div" => {
            parts.push(("word_div", sweep_div("word_div", ar::word_div, MulOp::Div, thorough)));
            parts.push(("word_idiv", sweep_div("word_idiv", ar::word_idiv, MulOp::Idiv, thorough)));
        }
        g => {
            eprintln!("unknown group {}", g);
            std::process::exit(2);
        }
    }
    let mut classes: Vec<Value> = Vec::new();
    let mut per_fn = serde_json::Map::new();
    let mut evals = 0u64;
    let mut distinct = 0u64;
    for (n, acc) in parts.iter() {
        evals += acc.evals;
        let fw: u64 = acc.post_flags.iter().map(|w| w.count_ones() as u64).sum();
        distinct += fw;
        per_fn.insert(n.to_string(), json!({"evaluations": acc.evals, "distinct_post_flag_words": fw, "called_from_interpreter_grammar": bound_in_grammar(n), "mismatch_classes": acc.classes.len()}));
        for ((site, field), e) in acc.classes.iter() {
            classes.push(json!({"site": format!("direct {}", site), "function": site, "field": field, "count": e.count, "a": e.a, "b": e.b, "hi": e.hi, "flags": e.flags,
                "expected": e.expected, "got": e.got, "got_val": e.got_val}));
        }
    }
    let out = json!({"group": args[1], "tier": args[2], "evaluations": evals, "distinct_post_flag_words": distinct, "functions": per_fn, "classes": classes,
        "wall_s": t0.elapsed().as_secs_f64()});
    println!("{}", out);
}
