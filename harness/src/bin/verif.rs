use vcore::props::common::Tier;
use vcore::props::*;

fn main() {
    let args: Vec<String> = std::env::args().collect();
    if args.len() < 3 {
        eprintln!("usage: verif <ID> <quick|thorough> | verif <ID> --replay <file>");
        std::process::exit(2);
    }
    vcore::pipe::silence_panics();
    let id = args[1].as_str();
    if id == "C15-chunk" {
        std::process::exit(vcore::props::c15::chunk_main(&args[2..]));
    }
    let tier = Tier { thorough: args[2] == "thorough" };
    if args[2] == "--replay" {
        let code = vcore::props::replay::replay(id, &args[3]);
        std::process::exit(code);
    }
    let code = match id {
        "C01" => c01::run(&tier),
        "C02" => c02::run(&tier),
        "C03" => c03::run(&tier),
        "C04" => c04::run(&tier),
        "C05" => c05::run(&tier),
        "C06" => c06::run(&tier),
        "C07" => c07::run(&tier),
        "C08" => c08::run(&tier),
        "C09" => c09::run(&tier),
        "C10" => c10::run(&tier),
        "C11" => c11::run(&tier),
        "C12" => c12::run(&tier),
        "C13" => c13::run(&tier),
        "C14" => c14::run(&tier),
        "C15" => c15::run(&tier),
        "C16" => c16::run(&tier),
        "C17" => c17::run(&tier),
        "C18" => c18::run(&tier),
        "C19" => c19::run(&tier),
        "C20" => c20::run(&tier),
        _ => {
            eprintln!("unknown property {}", id);
            2
        }
    };
    std::process::exit(code);
}
