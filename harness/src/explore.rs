//! Small explicit-state explorer: breadth-first by depth, canonical-state deduplication,
//! parallel over the frontier. The step function runs the real code and the reference on the
//! product and reports mismatches itself; it returns the successor (reference) state.

use rayon::prelude::*;
use std::collections::HashSet;
use std::hash::Hash;

#[derive(Default, Debug, Clone)]
pub struct BfsStats {
    pub states: u64,
    pub transitions: u64,
    pub max_depth: usize,
    pub per_depth: Vec<u64>,
    pub capped: bool,
}

/// `step(state, event_index, path)` -> successor or None (event not enabled / search pruned)
pub fn bfs<S, K, FS, FK>(inits: Vec<S>, n_events: usize, depth: usize, cap_states: u64, step: FS, key: FK) -> BfsStats
where
    S: Clone + Send + Sync,
    K: Hash + Eq + Send,
    FS: Fn(&S, usize, &[usize]) -> Option<S> + Sync,
    FK: Fn(&S) -> K + Sync,
{
    let mut seen: HashSet<K> = HashSet::new();
    let mut frontier: Vec<(S, Vec<usize>)> = Vec::new();
    for s in inits {
        if seen.insert(key(&s)) {
            frontier.push((s, vec![]));
        }
    }
    let mut st = BfsStats::default();
    st.states = frontier.len() as u64;
    st.per_depth.push(st.states);
    for d in 0..depth {
        let next: Vec<(S, Vec<usize>, K)> = frontier
            .par_iter()
            .flat_map_iter(|(s, path)| {
                let mut out = Vec::new();
                for e in 0..n_events {
                    if let Some(ns) = step(s, e, path) {
                        let mut p = path.clone();
                        p.push(e);
                        let k = key(&ns);
                        out.push((ns, p, k));
                    }
                }
                out
            })
            .collect();
        st.transitions += frontier.len() as u64 * n_events as u64;
        let mut nf = Vec::new();
        for (s, p, k) in next {
            if seen.insert(k) {
                nf.push((s, p));
            }
        }
        st.states += nf.len() as u64;
        st.per_depth.push(nf.len() as u64);
        st.max_depth = d + 1;
        frontier = nf;
        if frontier.is_empty() {
            break;
        }
        if st.states > cap_states {
            st.capped = true;
            break;
        }
    }
    st
}
