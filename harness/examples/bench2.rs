fn main(){
    let t=std::time::Instant::now();
    for _ in 0..20 { let _p = emulator_8086_lib::Preprocessor::new(); }
    println!("Preprocessor::new {:?}", t.elapsed()/20);
    let t=std::time::Instant::now();
    for _ in 0..20 { let _p = emulator_8086_lib::Interpreter::new(); }
    println!("Interpreter::new {:?}", t.elapsed()/20);
    let t=std::time::Instant::now();
    for _ in 0..20 { let _p = emulator_8086_lib::DataParser::new(); }
    println!("DataParser::new {:?}", t.elapsed()/20);
    let t=std::time::Instant::now();
    for _ in 0..20 { let _p = emulator_8086_lib::VM::new(); }
    println!("VM::new {:?}", t.elapsed()/20);
}
