use vcore::ast::*; use vcore::pipe::*; use vcore::refprog as rp;
fn main(){
    silence_panics();
    let p = Program{data:vec![], code: vec![b::label("start"), b::z(ZeroOp::Stc), b::jmp("jc","a"), b::z(ZeroOp::Clc), b::label("a")]};
    let mb = std::collections::HashMap::new();
    let n=2000;
    let t=std::time::Instant::now(); for _ in 0..n { let _=render(&p); } println!("render {:?}", t.elapsed()/n);
    let src=render(&p);
    let t=std::time::Instant::now(); for _ in 0..n { let _=rp::flatten(&p,&mb); } println!("flatten {:?}", t.elapsed()/n);
    let flat=rp::flatten(&p,&mb);
    let t=std::time::Instant::now(); for _ in 0..n { let _=rp::run(&flat,&rp::RunOpts{stdin:vec![],interpreted:false,horizon:2000}); } println!("refrun {:?}", t.elapsed()/n);
    let t=std::time::Instant::now(); for _ in 0..n { let _=assemble(&src); } println!("assemble {:?}", t.elapsed()/n);
    let asm=assemble(&src).unwrap();
    let t=std::time::Instant::now(); for _ in 0..n { let mut vm=emulator_8086_lib::VM::new(); let _=run_program(&asm,&mut vm,4000); } println!("vm+run_program {:?}", t.elapsed()/n);
    let t=std::time::Instant::now(); for _ in 0..n { let _vm=emulator_8086_lib::VM::new(); } println!("vm {:?}", t.elapsed()/n);
}
