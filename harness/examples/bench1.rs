use vcore::alu::*; use vcore::ast::*; use vcore::engine::*; use vcore::mach::*; use vcore::pipe::*; use vcore::props::common::*;
fn main(){
    silence_panics();
    let i = Instr::Bin(BinOp::Add, Opnd::R8(0), Opnd::R8(3));
    let mut p = prepare(&i).unwrap();
    let mut bench = Bench::new(0); let m = Machine::new();
    let t=std::time::Instant::now();
    let mut n=0u64;
    for a in 0..256u32 { for b in 0..256u32 { let pre = make_state(&i,a,b,0xF000,0,&p.dc,0); n+= pre.r.ax as u64; } }
    println!("make_state {:?} per {:?}", t.elapsed(), t.elapsed()/65536);
    let pre = make_state(&i,1,2,0xF000,0,&p.dc,0);
    let t=std::time::Instant::now();
    for _ in 0..65536 { bench.load(&pre); let line=p.line.clone(); let _=m.exec(p.idx,&mut bench.vm,&mut p.ictx,&line); }
    println!("exec {:?} per {:?}", t.elapsed(), t.elapsed()/65536);
    let t=std::time::Instant::now();
    for _ in 0..65536 { let r = vcore::refexec::step(&i,&pre,&p.dc,0); n+=r.post.r.ax as u64; }
    println!("refstep {:?} per {:?}", t.elapsed(), t.elapsed()/65536);
    let t=std::time::Instant::now();
    for _ in 0..65536 { let o = diff_step(&mut bench,&m,&mut p,&pre,false); n+=o.calls as u64; }
    println!("diff_step {:?} per {:?} {}", t.elapsed(), t.elapsed()/65536,n);
}
