#!/bin/bash
# usage: seedtest.sh <dir with patch.diff + demo.sh> <property ids...>
# Works entirely on snapshots (/tmp/sv/verif = committed /verif HEAD, /tmp/sv/repo = worktree of /repo HEAD),
# so /repo and /verif can be edited meanwhile.
# 1. suite passes with the patch, demo fails with it and passes without it
# 2. the quick checks of the given properties are run against the patched snapshot
D="$1"; shift
export CARGO_NET_OFFLINE=true
SV=${SV:-/tmp/sv}
mkdir -p $SV/verif
exec 8>$SV/.lock; flock 8
# refresh the snapshot of /verif (committed state), keep its target dir
( cd /verif && git archive HEAD ) | tar -x -C $SV/verif
sed -i "s#path = \"/repo\"#path = \"$SV/repo\"#" $SV/verif/harness/Cargo.toml
if [ ! -d $SV/repo ]; then git -C /repo worktree add --detach $SV/repo HEAD >/dev/null 2>&1; fi
cd $SV/repo || exit 2
git checkout -q -- . ; git clean -fdq -e target -e Cargo.lock; git checkout -q --detach "$(git -C /repo rev-parse HEAD)"
cp /repo/Cargo.lock . 2>/dev/null
echo "== demo on the unchanged tree ($(git rev-parse --short HEAD))"
cargo build --release --offline >/dev/null 2>&1
bash "$D/demo.sh" "$SV/repo" >$SV/demo.clean.log 2>&1; echo "demo(clean) exit=$?"
git apply "$D/patch.diff" || { echo "PATCH DOES NOT APPLY"; exit 2; }
echo "== suite with the patch"
cargo test --workspace --no-fail-fast --offline 2>&1 | grep -E "^test result" | head -1
cargo build --release --offline >/dev/null 2>&1
bash "$D/demo.sh" "$SV/repo" >$SV/demo.patched.log 2>&1; echo "demo(patched) exit=$?"
echo "== checks on the patched snapshot"
for P in "$@"; do
  VERIF_REPO=$SV/repo $SV/verif/check "$P" quick > $SV/check.$P.log 2>&1; rc=$?
  echo "check $P exit=$rc  $(grep -c '^VIOLATION' $SV/check.$P.log) violation classes"
  grep -A1 '^VIOLATION' $SV/check.$P.log | grep -v '^--' | head -6 | cut -c1-260
  [ $rc = 2 ] && tail -5 $SV/check.$P.log
done
git checkout -q -- . ; git clean -fdq -e target -e Cargo.lock
