#!/usr/bin/env python3
"""replace_fn.py <file> <fn name> < new_text  : replaces a top-level `pub fn name(...) {...}` by stdin"""
import sys,re
path,name=sys.argv[1],sys.argv[2]
s=open(path).read()
m=re.search(r'(?m)^(#\[inline\]\n)?pub fn %s\('%re.escape(name),s)
assert m, name
i=m.start()
# find matching closing brace at column 0
j=s.index("\n}\n",i)+3
new=sys.stdin.read()
s=s[:i]+new+s[j:]
open(path,'w').write(s)
