#!/usr/bin/env python3
"""keep_seed.py <src_dir> <name> <property> <needs> <caught_by> [notes]  — copies a confirmed seeded change into /verif/seeded/<name>/"""
import sys, os, shutil, json, subprocess
src, name, prop, needs, caught = sys.argv[1:6]
notes = sys.argv[6] if len(sys.argv) > 6 else ""
dst = f"/verif/seeded/{name}"
if os.path.exists(dst): shutil.rmtree(dst)
shutil.copytree(src, dst)
head = subprocess.run(["git","-C","/repo","rev-parse","--short","HEAD"],capture_output=True,text=True).stdout.strip()
meta = {"property": prop, "breaks": open(os.path.join(src,"README.md")).read().split("\n")[0][:200] if os.path.exists(os.path.join(src,"README.md")) else "",
        "needs_to_manifest": needs,
        "confirmed": f"tools/seedtest.sh: repository suite 68/68 green with the patch; demo.sh exits 0 on the unchanged tree and non-zero with the patch (scratch worktree of /repo at {head}, removed afterwards)",
        "detected_by": caught, "notes": notes, "origin": "written by an independent sub-agent that saw only the property text"}
json.dump(meta, open(os.path.join(dst,"meta.json"),"w"), indent=1)
print("kept", dst)
