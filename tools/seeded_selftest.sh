#!/bin/bash
# re-verifies every kept seeded change against a snapshot: the checks named in meta.json must report a VIOLATION
cd /verif
fail=0
for d in seeded/*/; do
  n=$(basename $d)
  checks=$(python3 -c "import json;print(' '.join(json.load(open('$d/meta.json'))['checks'][:1]))")
  out=$(tools/seedtest.sh /verif/$d $checks 2>&1)
  if echo "$out" | grep -q "exit=1  [1-9]"; then echo "$n: detected by $checks"; else echo "$n: NOT DETECTED by $checks"; echo "$out" | tail -5; fail=1; fi
done
exit $fail
