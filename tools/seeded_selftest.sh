#!/bin/bash
# re-verifies every kept seeded change against a snapshot: at least one of the checks named in meta.json
# must report a VIOLATION (all of them are run)
cd /verif
fail=0
for d in seeded/*/; do
  n=$(basename $d)
  checks=$(python3 -c "import json;print(' '.join(json.load(open('$d/meta.json'))['checks']))")
  out=$(tools/seedtest.sh /verif/$d $checks 2>&1)
  hit=$(echo "$out" | grep -E "^check C[0-9]+ exit=1  [1-9]" | awk '{print $2}' | tr '\n' ' ')
  if [ -n "$hit" ]; then echo "$n: detected by $hit(ran: $checks)"; else echo "$n: NOT DETECTED (ran: $checks)"; echo "$out" | tail -6; fail=1; fi
done
exit $fail
