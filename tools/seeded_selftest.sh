#!/bin/bash
# re-verifies kept seeded changes against a snapshot: at least one of the checks named in meta.json
# must report a VIOLATION (all of them are run).
# usage: seeded_selftest.sh [names...]      (default: all; SV=<dir> selects the snapshot lane, see seedtest.sh)
cd /verif
fail=0
if [ $# -gt 0 ]; then list="$@"; else list=$(ls seeded); fi
for n in $list; do
  d=seeded/$n/
  checks=$(python3 -c "import json;print(' '.join(json.load(open('$d/meta.json'))['checks']))")
  out=$(tools/seedtest.sh /verif/$d $checks 2>&1)
  hit=$(echo "$out" | grep -E "^check C[0-9]+ exit=1  [1-9]" | awk '{print $2}' | tr '\n' ' ')
  if [ -n "$hit" ]; then echo "$n: detected by $hit(ran: $checks)"; else echo "$n: NOT DETECTED (ran: $checks)"; echo "$out" | tail -6; fail=1; fi
done
exit $fail
