#!/usr/bin/env python3
"""Generates /verif/MANIFEST.json from the table below (kept in one place so it stays valid)."""
import json, subprocess

def repo_commits(prefix):
    out = subprocess.run(["git", "-C", "/repo", "log", "--format=%h %s"], capture_output=True, text=True).stdout
    return [l.split()[0] for l in out.splitlines() if l.split(" ", 1)[1].startswith(prefix)]

LEVEL_NOTE = ("Trusted base: the reference model in harness/src/alu.rs + refexec.rs (plain 8086 semantics, cross-checked "
              "against this x86-64 CPU by `verif selftest-oracle`), rustc, and the bounds stated in the evidence file. "
              "Nothing outside the stated bounded space is claimed.")

# id -> (technique, level text, design ref)
CHECKS = {
 "C01": ("bounded-exhaustive enumeration of operand values x flag words x operand forms on the real Preprocessor+Interpreter, compared with a reference ALU (explicit-state, depth 1); plus exhaustive instruction sequences (histories) of depth 3/4 on one machine and one Interpreter object compared after every step; plus, by direct calls of the word instruction functions (separate binary), every word operand pair x carry-in in thorough / 2^26 pairs in quick",
         "All 2^16 byte operand pairs x carry x 4 prior flag words, word boundary lattices squared, all values for INC/DEC/NEG, and every operand form of syntax.md are executed on the real pipeline and every post state (13 registers, flags, whole 1 MB) is compared with the reference; thorough adds a 1000-value word lattice squared. Word operands also at 512 non-boundary values and in 8 fixed relations for every 16-bit x. Every sequence of up to 3 (thorough 4) instructions over the property's instructions and a 21-instruction context alphabet (incl. data labels and DS/ES changes) is run as one program and compared with the reference after every step.",
         "DESIGN.md section 6 C01"),
}

CHECKS["C02"] = ("bounded-exhaustive enumeration of values x counts 0..255 x carry x operand forms on the real Preprocessor+Interpreter, compared with a single-bit-step reference (explicit-state, depth 1); plus exhaustive instruction sequences (histories) of depth 3/4 on one machine and one Interpreter object compared after every step; plus, by direct calls of word_and/or/xor/test (separate binary), every word operand pair in thorough / 2^26 pairs in quick",
    "All 256 byte values x all 256 counts x carry-in for the 8 shift/rotate spellings with immediate and CL counts (words: lattice in quick, all 65536 in thorough), all 2^16 byte pairs for AND/OR/XOR/TEST, all values for NOT, and every operand form of syntax.md; every post state compared in full with the reference. Word operands also at 512 non-boundary values and in 8 fixed relations for every 16-bit x. Every sequence of up to 3 (thorough 4) instructions over the property's instructions and a 21-instruction context alphabet (incl. data labels and DS/ES changes) is run as one program and compared with the reference after every step.",
    "DESIGN.md section 6 C02")
CHECKS["C03"] = ("bounded-exhaustive enumeration of AX/DX:AX x operand (bytes exhaustive, words on boundary lattices + per-divisor overflow boundaries) and of AX x AF x CF for the adjusts, on the real pipeline, plus end-to-end divide-error programs through the real CLI binary; plus exhaustive instruction sequences (histories) of depth 3/4 on one machine and one Interpreter object compared after every step; plus, by direct calls (separate binary), word MUL/IMUL for every AX x operand pair and word DIV/IDIV for every divisor x every DX x 6 AX values in thorough (1/64 of those in quick)",
    "All AL x operand pairs x AH set for byte MUL/IMUL/DIV/IDIV, word lattice cubes and, for each divisor, the dividends around the quotient-overflow boundary, all 2^18 (AX,AF,CF) states for the 8 adjust instructions, every operand form including the implicit registers; outcome (NEXT vs INT 0), AX/DX, CF/OF and the frame are compared with the reference; 8 CLI programs check the divide-error message, line and termination. Word operands also at non-boundary values and in 8 fixed relations for every 16-bit x. Every sequence of up to 3 (thorough 4) instructions over the property's instructions and a 21-instruction context alphabet (incl. data labels and DS/ES changes) is run as one program and compared with the reference after every step.",
    "DESIGN.md section 6 C03")
CHECKS["C04"] = ("bounded-exhaustive enumeration of address forms x overrides x consumers x register/segment lattices on the real pipeline with address-exact memory markers and a whole-memory diff",
    "Every address form of syntax.md (8 displacements incl. negative/wrapping) x 5 segment choices x both widths x 12 consumer instructions x base/index lattice x 6 segment values that straddle 2^20; the operand value lives only at the reference address and decoys sit at the plausible wrong ones, so every load and store is address-exact; plus label operands and byte-register aliasing.",
    "DESIGN.md section 6 C04")
CHECKS["C05"] = ("bounded-exhaustive single-step enumeration of all MOV/XCHG/PUSH/POP/singleton forms plus explicit-state breadth-first search over push/pop histories on the product of the real machine and a reference stack; plus exhaustive instruction sequences (histories) of depth 3/4 on one machine and one Interpreter object compared after every step",
    "All data-transfer operand forms x values x SS:SP corner cases compared in full with the reference; all sequences of 12 push/pop events up to depth 4 (quick) / 6 (thorough) from 24 initial stack positions with canonical-state deduplication; source-level push/pop round trips. PUSH/POP operands overlapping the stack slot by -4..+4 bytes. Every sequence of up to 3 (thorough 4) instructions over the property's instructions and a 21-instruction context alphabet (incl. data labels and DS/ES changes) is run as one program and compared with the reference after every step.",
    "DESIGN.md section 6 C05")
CHECKS["C06"] = ("exhaustive enumeration of all 2^16 flag words (jumps) and all 2^16 CX values (JCXZ/LOOPx) for all 74 spellings, assembled by the real Preprocessor and executed by the real Interpreter, against the Intel predicate table",
    "Every jump/loop spelling of syntax.md in both cases, every flag word / CX value: outcome, CX, flags and registers compared with the reference; synonym and complement relations cross-checked on the observed behaviour.",
    "DESIGN.md section 6 C06")
CHECKS["C07"] = ("bounded-exhaustive enumeration of string/REP spellings x DF x CX 0..N x segment pairs x pointer placements x terminating-element positions, each run to completion under the REPEAT protocol on the real Interpreter; whole-instruction reference and per-step CX invariant; CLI conformance for the driver's REPEAT branch; plus exhaustive instruction sequences (histories) of depth 3/4 on one machine and one Interpreter object compared after every step",
    "All 32 string/REP spellings in both cases, every CX up to 16 (quick) / 64 (thorough) plus large spot values, both directions, 4 (DS,ES) pairs incl. 1 MB wrap, overlapping and 0xFFFF-crossing pointers, every position of the first (non-)matching element and none; final machine state compared in full with the reference; every REPEAT answer must decrement CX by one; 9 programs through the real binary. Overlaps by 0-3 bytes in both directions, aliasing segments, segment bits overlapping pointer bits, elements wrapping past the end of memory. Every sequence of up to 3 (thorough 4) instructions over the property's instructions and a 21-instruction context alphabet (incl. data labels and DS/ES changes) is run as one program and compared with the reference after every step.",
    "DESIGN.md section 6 C07")
CHECKS["C08"] = ("small-scope exhaustive enumeration of all well-formed programs up to K items, each assembled by the real Preprocessor and run by a replica of the driver loop around the real Interpreter (bound to the real driver by running the smaller scopes through the CLI binary), compared with a reference interpreter on the AST",
    "Every well-formed program with at most 5 (quick) / 6 (thorough) items over a 21-25 item alphabet (labels at every position incl. start, jumps, loop, calls, procedures with explicit/implied ret, macro use, nop, hlt, print): complete executed trace, halt reason and final registers equal the reference interpreter's; programs up to 4 items plus hand-built special cases (tail recursion, shared names, label positions) also through the real binary with stdout matched against the reference events. Plus 13 large programs: calls, returns, loops, labels and procedures at emitted indices 65534-70000, 300 procedures nested to call depth 300, recursion 32767-65537 deep; tail recursion and shared procedure/label names through the binary.",
    "DESIGN.md section 6 C08")
CHECKS["C09"] = ("bounded-exhaustive enumeration of every catalog shape x products of adversarial register/segment values over the registers it reads x memory backgrounds, executed on the real Interpreter built with integer-overflow checks; panics caught; CLI runs for the interrupt services at the top of memory",
    "About 13 000 instruction shapes (every mnemonic x operand form x address form x override) x adversarial products (offsets/values/segments that make seg*16+off straddle 2^20, counts, divisors) x 2 memory backgrounds: every execution must end in a defined State or a reported error - a caught panic (index out of range, arithmetic or shift overflow) or a non-terminating REPEAT is the violation; 135 CLI programs drive INT 10h/21h with buffers at 0xFFFFF.",
    "DESIGN.md section 6 C09")
CHECKS["C10"] = ("exhaustive enumeration of the syntax.md shape catalog in both cases (plus all data-directive and print forms): every line the real Preprocessor emits is fed to the downstream parser it is destined for (real DataParser, real Interpreter in the program's own context, print parser inside the real binary)",
    "The complete finite shape set (about 19 000 shapes x 2 cases, 132 data forms x 2, print forms x 4 radices x 2 cases): whenever the assembler accepts, the data loader / interpreter / printer must accept every emitted line; documented shapes the assembler rejects are reported too.",
    "DESIGN.md section 6 C10")
CHECKS["C11"] = ("exhaustive enumeration of every single spelling deviation (case per keyword token, radix per constant incl. negative decimal / OFFSET / leading zeros, separator per gap) of every catalog shape: relational oracle (identical emitted list) plus semantic oracle (emitted line executed on the real Interpreter equals the reference effect of the AST instruction)",
    "About one million respellings of 19 000 shapes must assemble to the identical instruction list; each canonical line is executed on two distinguishing states and compared in full with the reference for the AST instruction; ordered triples keep order and count; label case sensitivity; comment placements through the real binary. OFFSET in place of a number: 35 constant positions x every label offset of the class x 3 data layouts must assemble to what the decimal number gives.",
    "DESIGN.md section 6 C11")
CHECKS["C12"] = ("small-scope exhaustive enumeration of all SET/DB/DW sequences up to length 3 (4 in thorough) over a 45-item alphabet, assembled by the real Preprocessor and loaded by the real DataParser; whole-memory comparison with an independently computed image; every label checked three ways",
    "All definition sequences of the bound (values at the signed/unsigned extremes, counts 0..65535, strings, segments that wrap at 1 MB): the whole 1 MB equals the reference image, every label resolves to its first byte via the label map, via OFFSET and via a load through the label operand; more than 64 KiB per segment must be diagnosed; DS=0 at start through the CLI.",
    "DESIGN.md section 6 C12")
CHECKS["C13"] = ("exhaustive enumeration of every macro use graph over up to 3 (4) macros plus parameter-name/template/argument-kind products; differential oracle: real Preprocessor on the macro program vs. real Preprocessor on the reference (textual, whole-word) expansion; deep chains through the real binary in child processes",
    "All 2^(n*n) use graphs for n<=3 macros (n=4 in thorough) used from top level and from a procedure: acyclic ones must emit exactly the hand-expanded body, cyclic/unknown ones must be refused with a diagnostic at a use site; colliding parameter names x 9 body templates x 16 argument kinds; by-name passing; chains to depth 64 exactly and to 4096 without abort. Plus use sequences over empty/blank bodies, macros with 9-13 parameters, DS/SS-override arguments, unsigned-only slots, argument substitution inside procedures. Redefinition histories (every sequence of up to 4 / 5 use and redefinition events against the bodies current at each use written in place), definitions in five layouts, the parameter name _.",
    "DESIGN.md section 6 C13")
CHECKS["C14"] = ("exhaustive enumeration of every applicable single semantic mutation (about 190 invalid lines x insertion positions, structural mutations, all unsupported INT numbers) of verified-valid base programs; each mutant checked at library level and through the real CLI binary",
    "Every mutant must be refused: Preprocessor Err or the driver-level label/start checks, and on the real binary a non-empty diagnostic with no program output, prompt or interrupt output; base programs are first verified to run and print so that silence means refusal.",
    "DESIGN.md section 6 C14")
CHECKS["C17"] = ("bounded-exhaustive enumeration of machine states (register rotations, all 512 combinations of the nine flags, patterned memory), range forms x starts x lengths x 5 spellings, and of prompt scripts with one print command (100+ command alphabet) at every prompt position, each run through the real CLI binary; stdout parsed back and compared with the reference interpreter's state; prints after every print decide 'never alters'",
    "Every register holds every lattice value once, every combination of the nine flags, ranges of length 0..64 at 8 starts incl. the top of memory in both absolute forms and DS-relative for DS over the segment lattice (incl. ranges leaving the space and backwards ranges, which must be reported), constants in all radices and beyond 2^20 / 2^64; the same commands typed at INT 3, -i and trap-flag prompts.",
    "DESIGN.md section 6 C17")
CHECKS["C18"] = ("bounded-exhaustive enumeration of (interrupt, AH) x register lattices x buffer placements (incl. crossing 2^20 and 16-bit offset wrap) x capacities x stdin shapes (closed, empty, shorter, equal, longer, no newline, two lines, 300 characters, UTF-8), every unsupported AH 0..255 for both interrupts, and all ordered pairs of services, each run through the real CLI binary with scripted stdin; service output matched byte for byte, registers/flags/marker windows parsed back from print statements",
    "All supported services over AL/DL/CX/DX/BP/segment lattices with buffers ending at 0xFFFFF and wrapping, capacities 0/1/5/255, nine stdin shapes incl. end of input; every other AH value for INT 10h and INT 21h must be reported with the right line and stop the program; all 25 service pairs share one stdin. Service output followed directly by whatever ends the run (8 endings), services run with IF/DF/CF set, input lines with white space at either end, 13 KB of input read in a loop, and every reading run repeated with the same input delivered in pieces.",
    "DESIGN.md section 6 C18")
CHECKS["C20"] = ("deviation-bounded exhaustive exploration of prompt scripts on the real CLI binary: for every (program, stepping mode) the default script answers every read with n; ALL scripts with at most d deviations (alternative advancing answers, non-advancing answers inserted, terminating answers, end of input at every read) are run; stdout matched event by event against the reference interpreter, plus a relational oracle (stepped output minus prompt artefacts equals the plain run)",
    "10 (thorough 12) terminating programs x stepping by -i, by POPF-set trap flag at position k, by INT 3 at position k and everywhere; complete script sets to 1 or 2 (thorough 3) deviations per pair; exactly one prompt per executed instruction naming its line, prints answered without advancing, quit and end of input terminate, no script spins or aborts (watchdog, output cap). Programs that end in a divide error, an unsupported service, their own hlt, and a program with breakpoints of its own run under every stepping mode.",
    "DESIGN.md section 6 C20")
CHECKS["C16"] = ("bounded-exhaustive enumeration of program templates (item kind x placement) x layouts (filler lines, comments, final newline) with generator-known token positions: library-level source-map check on the real Preprocessor, every run-time message through the real CLI binary (plain and -i), and every single-token corruption (invalid character, unexpected token, truncation) at every token position plus semantic errors at first/middle/last line, with the reported line, column and text compared with the generator-known position",
    "34 templates (print, INT 3, divide error, unsupported AH x first/middle/last line, inside procedures, macro bodies, nested macros; loops) x 10 layouts; every emitted instruction maps into its source line (outermost macro use, closing brace for the implied ret); all messages cite the right line number and text; about 11 000 corrupted files: the diagnostic cites the line, column and text of the offending token, also on a last line without newline.",
    "DESIGN.md section 6 C16")
CHECKS["C19"] = ("exhaustive enumeration of all iteration orders of the undefined-label hash set (hook) on the real CLI binary; explicit-state exploration of all pairs of instruction streams x all interleavings on two machines sharing one real Interpreter object versus isolated runs; exhaustive parser histories (all line sequences up to a bound followed by each probe) on the real Preprocessor, DataParser, Interpreter and, through prompt sessions of the binary, the print reader; relational oracle throughout",
    "38 multi-error programs under all k! iteration orders (k<=4) must print identical output; a new machine is zero except FLAGS/CS after any history; 67 000 stream pairs x all interleavings (1.1 million runs) leave each machine as when run alone; 6 700 history/probe combinations per tier answer like fresh parser objects; reruns in separate processes and an 8-thread smoke run are repetition and labelled so. Sixteen refused programs with several macros / labels / procedures / data labels each (mutual recursion, no start, duplicates, unknown names with equally near known names) rerun 8 times in separate processes. Every sequence of 2 and 3 whole programs out of 7 on one thread (fresh objects each) against the last program alone on a new thread.",
    "DESIGN.md section 6 C19")
CHECKS["C15"] = ("bounded-exhaustive enumeration of input texts: all strings up to length 3 (4) over a 44-character alphabet, all sequences of up to 3 tokens over 128 grammar terminals, the complete 1-edit neighbourhoods of 13 seed programs (2-edit for short seeds), 195 pathological size/shape inputs; each text is given to the real Preprocessor / DataParser / Interpreter in child processes of the harness (abnormal ends bisected to the culprit), to the print reader through prompt sessions of the real binary, and as source files to the real binary (all byte strings up to length 1-2, families plain and -i, invalid UTF-8, 1-edit neighbourhoods)",
    "2.9 million texts in-process, 90 000 prompt lines, 5 700 source files: every one must end with a result or a diagnostic - no panic, no signal, no watchdog expiry (unless the program itself loops), memory under a ceiling, and within each size family the cost per byte must not grow more than 5-fold from one size to the next.",
    "DESIGN.md section 6 C15")
NOT_YET = {}

def main():
    props = [json.loads(l) for l in open("/verif/properties.jsonl")]
    checks = []
    na = []
    for p in props:
        pid = p["id"]
        if pid in CHECKS:
            tech, text, ref = CHECKS[pid]
            checks.append({
                "property_id": pid,
                "quick_cmd": f"./check {pid} quick",
                "thorough_cmd": f"./check {pid} thorough",
                "evidence_file": f"/verif/evidence/{pid}.json",
                "replay_cmd_template": f"./check {pid} --replay {{path}}",
                "engine": "vharness",
                "level_claimed": {"category": "model_checking", "text": text, "design_ref": ref},
                "level_note": LEVEL_NOTE,
                "technique": tech,
            })
        else:
            na.append({"property_id": pid, "reason": NOT_YET.get(pid, "check not built yet in this round (planned, see DESIGN.md section 6); not claimed until it runs clean")})
    man = {
        "version": 1,
        "setup_cmd": "./setup.sh",
        "hooks": {
            "guard": "cargo feature verif_hooks (package emulator_8086), off by default",
            "enable": "cargo build --release --features verif_hooks --target-dir /verif/target/cli (done by ./build.sh); env VERIF_ORDER=<n> selects the n-th iteration order of the undefined-label set",
            "baseline_off_cmd": "cd /repo && cargo test --workspace --no-fail-fast --offline",
            "source_commits": repo_commits("verif hook"),
            "add_only": True,
        },
        "engines": [
            {"name": "vharness", "path": "/verif/harness", "serves_properties": sorted(CHECKS.keys()),
             "kind_free_text": "Rust harness: bounded-exhaustive / explicit-state exploration of the real Preprocessor, DataParser, Interpreter (library, in-process) and of the real CLI binary (child processes with scripted stdin), against an independent reference model"},
        ],
        "checks": checks,
        "not_applicable": na,
        "notes": "exit 0 = held on everything explored (known findings from /verif/known_findings.json are listed as KNOWN-FINDING lines); exit 1 = VIOLATION lines; exit 2 = machinery failure (no verdict).",
    }
    json.dump(man, open("/verif/MANIFEST.json", "w"), indent=1)
    print("checks:", [c["property_id"] for c in checks], "not_applicable:", len(na))

if __name__ == "__main__":
    main()
