#!/bin/bash
# usage: fixcommit.sh "<commit message>"   — runs the repo's unedited suite, commits tracked changes if all 68 pass
set -e
cd /repo
out=$(cargo test --workspace --no-fail-fast --offline 2>&1 | grep -E "^test result|^test .* FAILED|panicked" || true)
echo "$out" | head -20
if echo "$out" | grep -q "68 passed; 0 failed"; then
  git add -A
  git commit -qm "$1"
  git log --oneline | head -1
else
  echo "SUITE NOT GREEN - not committed"; exit 1
fi
