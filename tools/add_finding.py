#!/usr/bin/env python3
"""add_finding.py fixed <prop> <commit> <site> <field> <what>   |  add_finding.py known <prop> <site> <field> <when> <got|-> <what> <why>"""
import json,sys
path='/verif/known_findings.json'
a=json.load(open(path))
if sys.argv[1]=='fixed':
    _,_,prop,commit,site,field,what=sys.argv
    a.append({"property":prop,"status":"fixed","commit":commit,"site":site,"field":field,"what":what,
              "record":f"fixed: property={prop} {commit} {what}"})
else:
    _,_,prop,site,field,when,got,what,why=sys.argv[:9]
    e={"property":prop,"status":"known","site":site,"field":field,"when":when,"what":what,"why_not_fixed":why}
    if got!='-': e["got"]=got
    if len(sys.argv)>9: e["got_text"]=sys.argv[9]
    a.append(e)
with open(path,'w') as f:
    f.write("[\n"+",\n".join(" "+json.dumps(e) for e in a)+"\n]\n")
