#!/bin/bash
# Builds the harness (which compiles the repository's library from its current working tree) and the CLI binary.
# The repository is /repo; a snapshot of this tree (tools/seedtest.sh) sets VERIF_REPO to its own copy.
set -e
export CARGO_NET_OFFLINE=true
H="$(cd "$(dirname "$0")" && pwd)"
REPO="${VERIF_REPO:-/repo}"
mkdir -p "$H/target"
exec 9>"$H/target/.build.lock"
flock 9
cd "$H/harness"
cargo build --release --offline --bin verif --target-dir "$H/target/harness" 2>&1
# the direct-call sweeps are the only code that depends on the signatures of instructions::*; if a change to the
# repository breaks that build, the pipeline-level checks still run and the evidence says "direct sweep unavailable"
if cargo build --release --offline --bin vdirect --target-dir "$H/target/harness" 2>&1; then
  echo "ok" > "$H/target/vdirect.status"
else
  rm -f "$H/target/harness/release/vdirect"
  echo "failed: vdirect does not build against this tree (signature of an instruction function changed?)" > "$H/target/vdirect.status"
fi
cd "$REPO"
cargo build --release --offline --features verif_hooks --target-dir "$H/target/cli" --config 'profile.release.overflow-checks=true' --config 'profile.release.package.emulator_8086.debug-assertions=true' 2>&1
