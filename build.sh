#!/bin/bash
# Builds the harness (which compiles the repository's library from its current working tree) and the CLI binary.
# The repository is /repo; a snapshot of this tree (tools/seedtest.sh) sets VERIF_REPO to its own copy.
set -e
export CARGO_NET_OFFLINE=true
H="$(cd "$(dirname "$0")" && pwd)"
REPO="${VERIF_REPO:-/repo}"
mkdir -p "$H/target"
exec 9>"$H/target/.build.lock"
flock 9
cd "$H/harness"
cargo build --release --offline --target-dir "$H/target/harness" 2>&1
cd "$REPO"
cargo build --release --offline --features verif_hooks --target-dir "$H/target/cli" --config 'profile.release.overflow-checks=true' --config 'profile.release.package.emulator_8086.debug-assertions=true' 2>&1
