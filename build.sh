#!/bin/bash
# Builds the harness (which compiles /repo's library from its current working tree) and the CLI binary.
set -e
export CARGO_NET_OFFLINE=true
mkdir -p /verif/target
exec 9>/verif/target/.build.lock
flock 9
cd /verif/harness
cargo build --release --offline 2>&1
cd /repo
cargo build --release --offline --features verif_hooks --target-dir /verif/target/cli --config 'profile.release.overflow-checks=true' 2>&1
